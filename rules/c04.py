"""C04 - output is a pure function of source and options.

Decides the canonicalisation obligations and the known order hazards on the
output path (stub text, error report, pickle bytes).  Does NOT decide
determinism of the VM as a whole.
"""
import ast

from sa.core import rule, AnalysisError
from sa.pyindex import (get_module, dotted, src, kwarg, calls_in, try_fold,
                        walk_no_nested, all_py_files)
from sa import flow
from rules import _record_fields as _RF
from rules._pytd_schema import (reaching as _reaching, defs_at as _defs_at,
                                stored_names)


# ---------------------------------------------------------------------------
# R4.6 machinery: intra-procedural "definitely a set" inference
# ---------------------------------------------------------------------------

_SET_ANN = {"set", "frozenset", "Set", "FrozenSet", "AbstractSet", "MutableSet"}
_SET_CTORS = {"set", "frozenset"}
_SET_RET_METHODS = {"union", "intersection", "difference",
                    "symmetric_difference", "copy"}
_SET_OPS = (ast.BitOr, ast.BitAnd, ast.Sub, ast.BitXor)
_FUNC = (ast.FunctionDef, ast.AsyncFunctionDef)


def _ann_is_set(ann):
  """True if an annotation expression denotes a (possibly optional) set."""
  if ann is None:
    return False
  if isinstance(ann, ast.Constant) and isinstance(ann.value, str):
    try:
      ann = ast.parse(ann.value, mode="eval").body
    except SyntaxError:
      return False
  if isinstance(ann, ast.BinOp) and isinstance(ann.op, ast.BitOr):
    sides = [ann.left, ann.right]
    rest = [s for s in sides
            if not (isinstance(s, ast.Constant) and s.value is None)]
    return len(rest) == 1 and _ann_is_set(rest[0])
  if isinstance(ann, ast.Subscript):
    base = (dotted(ann.value) or "").split(".")[-1]
    if base == "Optional":
      return _ann_is_set(ann.slice)
    return base in _SET_ANN
  return (dotted(ann) or "").split(".")[-1] in _SET_ANN


def _is_dict_view(e):
  """`X.keys()` / `X.items()` without arguments (a set-like dict view)."""
  return isinstance(e, ast.Call) and isinstance(e.func, ast.Attribute) and \
      e.func.attr in ("keys", "items") and not e.args and not e.keywords


class _SetInference:
  """Decides `expr is definitely a set` inside one module (never guesses yes).

  A local is a set when every binding of it in its function is a definite-set
  expression (or it is a parameter / annotated local of set type that is never
  rebound to something else).  `self.x` is a set when the enclosing class
  (plus same-module bases) annotates it as a set or every `self.x = ...` in
  the class assigns a definite set.
  """

  def __init__(self, mod):
    self.mod = mod
    self._scope_cache = {}
    self._attr_cache = {}
    self._rd_cache = {}
    self._active = set()

  # -- scopes -------------------------------------------------------------
  def _bindings(self, scope):
    """name -> list of binding records for a function (or the module)."""
    if scope in self._scope_cache:
      return self._scope_cache[scope]
    out = {}

    def add(name, rec):
      out.setdefault(name, []).append(rec)

    def bind_target(t, rec):
      if isinstance(t, ast.Name):
        add(t.id, rec)
      elif isinstance(t, (ast.Tuple, ast.List)):
        for e in t.elts:
          bind_target(e, ("other",))
      elif isinstance(t, ast.Starred):
        bind_target(t.value, ("other",))

    if isinstance(scope, _FUNC + (ast.Lambda,)):
      a = scope.args
      for p in a.posonlyargs + a.args + a.kwonlyargs:
        add(p.arg, ("param", p.annotation))
      for p in (a.vararg, a.kwarg):
        if p is not None:
          add(p.arg, ("other",))
      nodes = walk_no_nested(scope) if not isinstance(scope, ast.Lambda) else []
    else:
      nodes = walk_no_nested(scope)
    for n in nodes:
      if isinstance(n, ast.Assign):
        for t in n.targets:
          if isinstance(t, (ast.Tuple, ast.List)) and isinstance(
              n.value, (ast.Tuple, ast.List)) and len(t.elts) == len(
                  n.value.elts) and not any(
                      isinstance(e, ast.Starred) for e in t.elts + n.value.elts):
            for a_, b_ in zip(t.elts, n.value.elts):
              bind_target(a_, ("value", b_))
          else:
            bind_target(t, ("value", n.value))
      elif isinstance(n, ast.AnnAssign):
        if isinstance(n.target, ast.Name):
          add(n.target.id, ("ann", n.annotation, n.value))
      elif isinstance(n, ast.AugAssign):
        if isinstance(n.target, ast.Name):
          add(n.target.id, ("aug", n.op, n.value))
      elif isinstance(n, ast.NamedExpr):
        bind_target(n.target, ("value", n.value))
      elif isinstance(n, (ast.For, ast.AsyncFor)):
        bind_target(n.target, ("other",))
      elif isinstance(n, ast.comprehension):
        bind_target(n.target, ("other",))
      elif isinstance(n, (ast.With, ast.AsyncWith)):
        for it in n.items:
          if it.optional_vars is not None:
            bind_target(it.optional_vars, ("other",))
      elif isinstance(n, ast.ExceptHandler):
        if n.name:
          add(n.name, ("other",))
      elif isinstance(n, (ast.Import, ast.ImportFrom)):
        for al in n.names:
          add((al.asname or al.name).split(".")[0], ("other",))
      elif isinstance(n, _FUNC + (ast.ClassDef,)):
        add(n.name, ("other",))
      elif isinstance(n, (ast.Global, ast.Nonlocal)):
        for nm in n.names:
          add(nm, ("other",))
      elif isinstance(n, (ast.MatchAs, ast.MatchStar)):
        if n.name:
          add(n.name, ("other",))
      elif isinstance(n, ast.MatchMapping):
        if n.rest:
          add(n.rest, ("other",))
      elif isinstance(n, ast.Delete):
        for t in n.targets:
          bind_target(t, ("other",))
    self._scope_cache[scope] = out
    return out

  def _scope_chain(self, node):
    chain = []
    cur = node
    while True:
      cur = self.mod.enclosing_function(cur)
      if cur is None:
        break
      chain.append(cur)
    chain.append(self.mod.tree)
    return chain

  def _enclosing_class(self, fn):
    node = fn
    while node in self.mod.parent:
      node = self.mod.parent[node]
      if isinstance(node, ast.ClassDef):
        return node
    return None

  # -- the predicate --------------------------------------------------------
  def is_set(self, expr, at=None):
    """`expr` (evaluated where it stands) is definitely a set/frozenset."""
    at = at if at is not None else expr
    if isinstance(expr, (ast.Set, ast.SetComp)):
      return True
    if isinstance(expr, ast.Call):
      d = dotted(expr.func)
      if d in _SET_CTORS:
        return True
      if d in ("set.union", "set.intersection", "set.difference",
               "frozenset.union", "frozenset.intersection"):
        return True
      if isinstance(expr.func, ast.Attribute) and \
          expr.func.attr in _SET_RET_METHODS and \
          self.is_set(expr.func.value, at):
        return True
      return self._call_returns_set(expr, at)
    if isinstance(expr, ast.BinOp) and isinstance(expr.op, _SET_OPS):
      # `d.keys() - x`, `x & d.items()`, ...: the set algebra of dict views
      # builds a plain set whatever the other operand is (any iterable)
      if _is_dict_view(expr.left) or _is_dict_view(expr.right):
        return True
      return self.is_set(expr.left, at) or self.is_set(expr.right, at)
    if isinstance(expr, ast.IfExp):
      return self.is_set(expr.body, at) and self.is_set(expr.orelse, at)
    if isinstance(expr, ast.BoolOp) and isinstance(expr.op, ast.Or):
      return all(self.is_set(v, at) for v in expr.values)
    if isinstance(expr, ast.NamedExpr):
      return self.is_set(expr.value, at)
    if isinstance(expr, ast.Name):
      return self._name_is_set(expr.id, at)
    if isinstance(expr, ast.Attribute) and isinstance(expr.value, ast.Name):
      return self._attr_is_set(expr, at)
    return False

  def resolve_callee(self, call, at):
    """(def, number of implicit leading parameters) for a call that resolves
    to a function of this module: a module-level function called by a name
    that no enclosing scope rebinds, or `self.m(..)` inside a method whose
    first parameter is the receiver (class + same-module bases).  Else None."""
    f = call.func
    if isinstance(f, ast.Name) and f.id in self.mod.functions:
      for scope in self._scope_chain(at)[:-1]:
        if f.id in self._bindings(scope):
          return None
      return self.mod.functions[f.id], 0
    if isinstance(f, ast.Attribute) and isinstance(f.value, ast.Name):
      fn = self.mod.enclosing_function(at)
      while isinstance(fn, ast.Lambda) or (
          fn is not None and not isinstance(self.mod.parent.get(fn), ast.ClassDef)):
        fn = self.mod.enclosing_function(fn)
      if fn is None or not fn.args.args or fn.args.args[0].arg != f.value.id:
        return None
      cls = self._enclosing_class(fn)
      for c in self._class_and_bases(cls):
        for st in c.body:
          if isinstance(st, _FUNC) and st.name == f.attr:
            decs = {(dotted(d) or "").split(".")[-1] for d in st.decorator_list}
            if "staticmethod" in decs:
              return st, 0
            if decs - {"classmethod", "abstractmethod", "override"}:
              return None  # property / cached / wrapped: not a plain call
            return st, 1
        # a class-level `m = ...` shadows a base's method
        for st in c.body:
          if isinstance(st, ast.Assign) and any(
              isinstance(t, ast.Name) and t.id == f.attr for t in st.targets):
            return None
    return None

  def _call_returns_set(self, call, at):
    res = self.resolve_callee(call, at)
    if res is None:
      return False
    fn = res[0]
    if _ann_is_set(fn.returns):
      return True
    return self.returns_set(fn)

  def returns_set(self, fn):
    """Some `return E` of `fn` returns a definite set (so a caller can hold a
    set): inferred from the body when the annotation does not say so."""
    key = ("returns", fn)
    if key in self._attr_cache:
      return self._attr_cache[key]
    if key in self._active:
      return False
    # evaluated without the optimistic in-progress assumptions of the caller
    # (the result is cached, so it must not depend on them); recursion through
    # the function itself counts as "not a set" (least fixpoint)
    saved = self._active
    self._active = {k for k in saved if k[0] == "returns"} | {key}
    try:
      res = False
      nodes = list(walk_no_nested(fn))
      if not any(isinstance(n, (ast.Yield, ast.YieldFrom)) for n in nodes):
        for n in nodes:
          if isinstance(n, ast.Return) and n.value is not None and \
              self.is_set(n.value, n.value):
            res = True
            break
    finally:
      self._active = saved
    self._attr_cache[key] = res
    return res

  def param_of_arg(self, call, callee, skip, arg_node):
    """Name of the callee parameter that receives `arg_node` (None if it goes
    to *args/**kwargs or the mapping is not syntactically evident)."""
    a = callee.args
    pos = [p.arg for p in a.posonlyargs + a.args][skip:]
    for i, x in enumerate(call.args):
      if isinstance(x, ast.Starred):
        break
      if x is arg_node:
        return pos[i] if i < len(pos) else None
    names = {p.arg for p in a.args + a.kwonlyargs}
    for k in call.keywords:
      if k.value is arg_node and k.arg in names:
        return k.arg
    return None

  def _name_is_set(self, name, at):
    for scope in self._scope_chain(at):
      b = self._bindings(scope).get(name)
      if not b:
        continue
      key = (scope, name)
      if key in self._active:
        return True  # cycle (s = s | t): decided by the other bindings
      self._active.add(key)
      try:
        if self._all_bindings_set(b, scope):
          return True
        # flow-sensitive refinement (`xs = set(xs)`, `s = None .. s = set()`):
        # every definition reaching the use is a set
        flow_ok = isinstance(scope, _FUNC) and \
            self.mod.enclosing_function(at) is scope and \
            self._some_binding_set(b) and not self._shadowed(name, at)
      finally:
        self._active.discard(key)
      if flow_ok:
        return self._reaching_defs_set(name, at, scope)
      return False
    return False

  def _some_binding_set(self, recs):
    """Cheap pre-filter: at least one binding could make the name a set."""
    for rec in recs:
      if rec[0] == "param" and _ann_is_set(rec[1]):
        return True
      if rec[0] == "ann" and (_ann_is_set(rec[1]) or (
          rec[2] is not None and self.is_set(rec[2], rec[2]))):
        return True
      if rec[0] == "value" and self.is_set(rec[1], rec[1]):
        return True
    return False

  def _shadowed(self, name, at):
    """`name` at `at` is bound by an enclosing comprehension."""
    cur = at
    while cur in self.mod.parent:
      par = self.mod.parent[cur]
      if isinstance(par, ast.stmt):
        return False
      if isinstance(par, (ast.ListComp, ast.SetComp, ast.DictComp,
                          ast.GeneratorExp)):
        for g in par.generators:
          if any(isinstance(n, ast.Name) and n.id == name
                 for n in ast.walk(g.target)):
            return True
      cur = par
    return False

  def _rd(self, fn):
    if fn not in self._rd_cache:
      a = fn.args
      params = [p.arg for p in a.posonlyargs + a.args + a.kwonlyargs]
      params += [p.arg for p in (a.vararg, a.kwarg) if p is not None]

      def gen(unit):
        return {(nm, unit) for nm in stored_names(unit)}

      def kill(unit):
        names = stored_names(unit)
        if not names:
          return None
        return lambda fact: fact[0] in names
      self._rd_cache[fn] = flow.flow(
          fn, gen, kill, mode="may",
          entry=frozenset((p, fn) for p in params))
    return self._rd_cache[fn]

  def _reaching_defs_set(self, name, at, fn):
    stmt = self.mod.enclosing_stmt(at)
    if stmt is None or stmt is fn:
      return False
    if isinstance(stmt, ast.While):
      return False  # loop-carried definitions of a `while` test: not modelled
    return self._defs_before_are_sets(name, stmt, fn)

  def _defs_before_are_sets(self, name, stmt, fn):
    rd = self._rd(fn)
    state = rd.before.get(stmt)
    if not state:
      return False
    defs = [d for (n, d) in state if n == name]
    if not defs:
      return False
    for d in defs:
      key = ("def", d, name)
      if key in self._active:
        continue
      self._active.add(key)
      try:
        if not self._def_is_set(name, d, fn):
          return False
      finally:
        self._active.discard(key)
    return True

  def _def_is_set(self, name, d, fn):
    if d is fn:
      a = fn.args
      for p in a.posonlyargs + a.args + a.kwonlyargs:
        if p.arg == name:
          return _ann_is_set(p.annotation)
      return False
    if isinstance(d, ast.Assign):
      val = None
      for t in d.targets:
        if isinstance(t, ast.Name) and t.id == name:
          val = d.value
        elif isinstance(t, (ast.Tuple, ast.List)) and isinstance(
            d.value, (ast.Tuple, ast.List)) and len(t.elts) == len(
                d.value.elts) and not any(
                    isinstance(e, ast.Starred) for e in t.elts + d.value.elts):
          for a_, b_ in zip(t.elts, d.value.elts):
            if isinstance(a_, ast.Name) and a_.id == name:
              val = b_
      return val is not None and self.is_set(val, val)
    if isinstance(d, ast.AnnAssign) and isinstance(d.target, ast.Name) \
        and d.target.id == name:
      return _ann_is_set(d.annotation) or (
          d.value is not None and self.is_set(d.value, d.value))
    if isinstance(d, ast.AugAssign) and isinstance(d.target, ast.Name) \
        and d.target.id == name and isinstance(d.op, _SET_OPS):
      return self._defs_before_are_sets(name, d, fn)
    return False

  def _all_bindings_set(self, recs, scope):
    definite = False
    for rec in recs:
      kind = rec[0]
      if kind == "param":
        if not _ann_is_set(rec[1]):
          return False
        definite = True
      elif kind == "ann":
        if _ann_is_set(rec[1]):
          definite = True
        elif rec[2] is not None and self.is_set(rec[2], rec[2]):
          definite = True
        else:
          return False
      elif kind == "value":
        if not self.is_set(rec[1], rec[1]):
          return False
        definite = True
      elif kind == "aug":
        if not isinstance(rec[1], _SET_OPS):
          return False
      else:
        return False
    return definite

  def _class_and_bases(self, cls):
    out, todo = [], [cls]
    while todo:
      c = todo.pop()
      if c is None or c in out:
        continue
      out.append(c)
      for b in c.bases:
        d = dotted(b)
        if d and d in self.mod.classes:
          todo.append(self.mod.classes[d])
    return out

  def _attr_is_set(self, expr, at):
    fn = self.mod.enclosing_function(at)
    # the method whose first parameter is the receiver name
    meth = fn
    while meth is not None and not (
        isinstance(meth, _FUNC)
        and isinstance(self.mod.parent.get(meth), ast.ClassDef)):
      meth = self.mod.enclosing_function(meth)
    if meth is None or not meth.args.args or \
        meth.args.args[0].arg != expr.value.id:
      return False
    # the receiver name must not be rebound in between
    cls = self._enclosing_class(meth)
    key = (cls, expr.attr)
    if key in self._attr_cache:
      return self._attr_cache[key]
    if key in self._active:
      return True
    self._active.add(key)
    try:
      res = self._class_attr_is_set(cls, expr.attr)
    finally:
      self._active.discard(key)
    self._attr_cache[key] = res
    return res

  def _class_attr_is_set(self, cls, attr):
    definite = False
    for c in self._class_and_bases(cls):
      for st in c.body:
        if isinstance(st, ast.AnnAssign) and isinstance(st.target, ast.Name) \
            and st.target.id == attr:
          if _ann_is_set(st.annotation):
            definite = True
          elif st.value is not None and self.is_set(st.value, st.value):
            definite = True
          else:
            return False
        elif isinstance(st, ast.Assign) and any(
            isinstance(t, ast.Name) and t.id == attr for t in st.targets):
          if not self.is_set(st.value, st.value):
            return False
          definite = True
        elif isinstance(st, _FUNC) and st.name == attr:
          return False  # a method / property, not a data attribute
      for fn in ast.walk(c):
        if not isinstance(fn, _FUNC) or not fn.args.args:
          continue
        if not isinstance(self.mod.parent.get(fn), ast.ClassDef):
          continue
        recv = fn.args.args[0].arg
        for n in ast.walk(fn):
          tgt = val = None
          if isinstance(n, ast.Assign):
            for t in n.targets:
              if self._is_attr(t, recv, attr):
                tgt, val = t, n.value
              elif isinstance(t, (ast.Tuple, ast.List)) and any(
                  self._is_attr(e, recv, attr) for e in t.elts):
                return False
          elif isinstance(n, ast.AnnAssign) and self._is_attr(n.target, recv, attr):
            if _ann_is_set(n.annotation):
              definite = True
              continue
            tgt, val = n.target, n.value
            if val is None:
              return False
          elif isinstance(n, ast.AugAssign) and self._is_attr(n.target, recv, attr):
            if not isinstance(n.op, _SET_OPS):
              return False
            continue
          elif isinstance(n, (ast.For, ast.AsyncFor, ast.comprehension)) and \
              self._is_attr(n.target, recv, attr):
            return False
          if tgt is not None:
            if not self.is_set(val, val):
              return False
            definite = True
    return definite

  @staticmethod
  def _is_attr(t, recv, attr):
    return isinstance(t, ast.Attribute) and t.attr == attr and \
        isinstance(t.value, ast.Name) and t.value.id == recv


# -- consumers ----------------------------------------------------------------

# call names that walk their argument in iteration order
_ORDERED_FUNCS = {
    "tuple": "all", "list": "all", "enumerate": "first", "iter": "first",
    "zip": "all", "map": "rest", "filter": "rest", "reversed": "first",
    "str": "first", "repr": "first", "dict": "first",
    "itertools.chain": "all", "chain": "all", "collections.deque": "first",
    "deque": "first", "collections.OrderedDict": "first", "OrderedDict": "first",
    "utils.unique_list": "first", "unique_list": "first",
    "pytd_utils.OrderedSet": "first", "OrderedSet": "first",
    "itertools.product": "all", "itertools.permutations": "first",
    "itertools.combinations": "first", "itertools.islice": "first",
    "itertools.chain.from_iterable": "first", "chain.from_iterable": "first",
}
_ORDERED_METHODS = {"join", "extend", "fromkeys", "from_iterable", "format",
                    "extendleft"}
# consumers whose result does not depend on the order of the walk
_INSENSITIVE_FUNCS = {"any", "all", "len", "min", "max", "sorted", "set",
                      "frozenset", "bool"}
_TRANSPARENT_FUNCS = {"tuple", "list", "iter", "map", "filter", "chain",
                      "itertools.chain", "reversed"}
_SET_SINK_METHODS = {"update", "union", "intersection", "difference",
                     "issubset", "issuperset", "isdisjoint",
                     "intersection_update", "difference_update",
                     "symmetric_difference", "symmetric_difference_update"}
_SET_MUTATORS = {"add", "update", "discard", "difference_update",
                 "intersection_update"}


def _consumers(node):
  """Yields (kind, iterated_expr) for order-observing uses rooted at node."""
  if isinstance(node, (ast.For, ast.AsyncFor)):
    yield "for", node.iter
  elif isinstance(node, (ast.ListComp, ast.GeneratorExp, ast.SetComp,
                         ast.DictComp)):
    kind = {ast.ListComp: "listcomp", ast.GeneratorExp: "genexp",
            ast.SetComp: "setcomp", ast.DictComp: "dictcomp"}[type(node)]
    for g in node.generators:
      yield kind, g.iter
  elif isinstance(node, ast.Call):
    d = dotted(node.func)
    for a in node.args:
      if isinstance(a, ast.Starred):
        yield "star-arg", a.value
    plain = [a for a in node.args if not isinstance(a, ast.Starred)]
    if d in _ORDERED_FUNCS:
      which = _ORDERED_FUNCS[d]
      sel = plain if which == "all" else plain[:1] if which == "first" \
          else plain[1:]
      for a in sel:
        yield f"{d}()", a
    elif d == "sum" and (len(node.args) > 1 or node.keywords):
      if plain:
        yield "sum(.., start)", plain[0]
    elif isinstance(node.func, ast.Attribute):
      if node.func.attr in _ORDERED_METHODS:
        for a in plain:
          yield f".{node.func.attr}()", a
      elif node.func.attr == "pop" and not node.args and not node.keywords:
        yield ".pop()", node.func.value
  elif isinstance(node, (ast.List, ast.Tuple)) and isinstance(
      getattr(node, "ctx", None), ast.Load):
    for e in node.elts:
      if isinstance(e, ast.Starred):
        yield "star-display", e.value
  elif isinstance(node, ast.Assign):
    for t in node.targets:
      if isinstance(t, (ast.Tuple, ast.List)) and (
          len(t.elts) > 1 or any(isinstance(e, ast.Starred) for e in t.elts)):
        yield "unpack", node.value
  elif isinstance(node, ast.FormattedValue):
    yield "f-string", node.value
  elif isinstance(node, ast.BinOp) and isinstance(node.op, ast.Mod) and \
      isinstance(node.left, ast.Constant) and isinstance(node.left.value, str):
    if isinstance(node.right, ast.Tuple):
      for e in node.right.elts:
        yield "%-format", e
    else:
      yield "%-format", node.right
  elif isinstance(node, ast.YieldFrom):
    yield "yield from", node.value
  elif isinstance(node, ast.AugAssign) and isinstance(node.op, ast.Add):
    yield "+=", node.value


def _commutative_body(body, inf):
  """The loop body only accumulates commutatively (order cannot be observed)."""
  for st in body:
    if isinstance(st, (ast.Pass, ast.Continue, ast.Break)):
      continue
    if isinstance(st, ast.Return):
      if st.value is None or isinstance(st.value, ast.Constant):
        continue
      return False
    if isinstance(st, ast.If):
      if _commutative_body(st.body, inf) and _commutative_body(st.orelse, inf):
        continue
      return False
    if isinstance(st, ast.Expr) and isinstance(st.value, ast.Call) and \
        isinstance(st.value.func, ast.Attribute) and \
        st.value.func.attr in _SET_MUTATORS and \
        inf.is_set(st.value.func.value, st):
      continue
    if isinstance(st, ast.Expr) and isinstance(st.value, ast.Constant):
      continue  # docstring-like
    if isinstance(st, ast.AugAssign):
      if isinstance(st.op, _SET_OPS) and inf.is_set(st.target, st):
        continue
      if isinstance(st.op, (ast.Add, ast.Sub)) and isinstance(
          st.value, ast.Constant) and isinstance(st.value.value, (int, float)):
        continue
      return False
    if isinstance(st, ast.Assign) and isinstance(st.value, ast.Constant) and \
        all(isinstance(t, ast.Name) for t in st.targets):
      continue
    return False
  return True


def _read_by_key_only(mod, call):
  """`call` builds a mapping that is bound to one local name whose every
  other use is a lookup by key (`c[k]`, `c.get(k)`, `k in c`): the insertion
  order of the mapping is never observed."""
  par = mod.parent.get(call)
  if not (isinstance(par, ast.Assign) and par.value is call and len(par.targets) == 1
          and isinstance(par.targets[0], ast.Name)):
    return False
  name = par.targets[0].id
  fn = mod.enclosing_function(par)
  if fn is None or isinstance(fn, ast.Lambda):
    return False
  stores = 0
  for n in ast.walk(fn):
    if not (isinstance(n, ast.Name) and n.id == name):
      continue
    if isinstance(n.ctx, ast.Store):
      stores += 1
      continue
    up = mod.parent.get(n)
    if isinstance(up, ast.Subscript) and up.value is n and isinstance(up.ctx, ast.Load):
      continue
    if isinstance(up, ast.Attribute) and up.attr == "get" and isinstance(
        mod.parent.get(up), ast.Call) and mod.parent[up].func is up:
      continue
    if isinstance(up, ast.Compare) and n in up.comparators and all(
        isinstance(o, (ast.In, ast.NotIn)) for o in up.ops):
      continue
    return False
  return stores == 1


def _auto_insensitive(mod, inf, node, kind, expr):
  """Reason string when the consumer provably cannot observe the order."""
  if kind == "setcomp":
    return "builds a set"
  if kind == "for":
    if _commutative_body(node.body, inf) and _commutative_body(node.orelse, inf):
      return "commutative accumulation / existence test"
  # singleton guard: len(E) == 1 on the path
  st = mod.enclosing_stmt(node)
  fn = mod.enclosing_function(node)
  want = {f"len({src(expr)}) == 1", f"1 == len({src(expr)})"}
  if st is not None and fn is not None and not isinstance(fn, ast.Lambda):
    for test, pol in flow.guards(mod.parent, st, stop=fn):
      if pol and src(test) in want:
        return "singleton (guarded by len == 1)"
  if isinstance(node, ast.stmt):
    return None
  # `... E ... if len(E) == 1 else ...`
  up = node
  while up is not None and not isinstance(up, ast.stmt):
    par = mod.parent.get(up)
    if isinstance(par, ast.IfExp) and up is par.body and src(par.test) in want:
      return "singleton (guarded by len == 1)"
    up = par
  # climb through order-preserving wrappers to the real consumer
  cur = node
  while True:
    par = mod.parent.get(cur)
    if isinstance(par, ast.Call) and cur in par.args:
      d = dotted(par.func)
      if d in _INSENSITIVE_FUNCS and not (d in ("min", "max") and len(par.args) > 1):
        return f"consumed by {d}()"
      if d == "sum" and len(par.args) == 1 and not par.keywords:
        return "consumed by sum() (commutative)"
      if d in ("collections.Counter", "Counter") and len(par.args) == 1 and \
          not par.keywords and _read_by_key_only(mod, par):
        return "counted into a Counter that is only read by key"
      if isinstance(par.func, ast.Attribute) and \
          par.func.attr in _SET_SINK_METHODS and inf.is_set(par.func.value, par):
        return f"consumed by set.{par.func.attr}()"
      if d in _TRANSPARENT_FUNCS:
        cur = par
        continue
      return None
    if isinstance(par, ast.AugAssign) and par.value is cur and \
        isinstance(par.op, _SET_OPS) and inf.is_set(par.target, par):
      return "merged into a set"
    if isinstance(par, ast.Compare) and cur in par.comparators and all(
        isinstance(o, (ast.In, ast.NotIn)) for o in par.ops):
      return "membership test"
    if isinstance(par, ast.Starred):
      cur = par
      continue
    return None


def _within(mod, node, root):
  while node is not None:
    if node is root:
      return True
    node = mod.parent.get(node)
  return False


def _qualname(mod, node):
  parts = []
  cur = node
  while cur in mod.parent:
    cur = mod.parent[cur]
    if isinstance(cur, _FUNC + (ast.ClassDef,)):
      parts.append(cur.name)
    elif isinstance(cur, ast.Lambda):
      parts.append("<lambda>")
  return ".".join(reversed(parts)) or "<module>"


def _param_walks(mod, inf, callee, param, depth=0, seen=None):
  """Order-observing walks of parameter `param` inside `callee` (a function of
  `mod`): [(kind, line)], following the parameter into further functions of
  the module.  Only uses that the parameter's entry value reaches (reaching
  definitions) count; provably order-insensitive uses are dropped."""
  seen = seen if seen is not None else set()
  if (callee, param) in seen or depth > 3:
    return []
  seen.add((callee, param))
  rd = inf._rd(callee)

  def is_param(e, at):
    if not (isinstance(e, ast.Name) and e.id == param):
      return False
    if inf._shadowed(param, at):
      return False
    if mod.enclosing_function(at) is not callee:
      # inside a nested def/lambda: a closure read; count it when the
      # parameter is never rebound in the callee
      return len(inf._bindings(callee).get(param, [])) == 1
    st = mod.enclosing_stmt(at)
    state = rd.before.get(st)
    if state is None:
      return False
    defs = {d for (n, d) in state if n == param}
    return callee in defs

  out = []
  for node in ast.walk(callee):
    if node is callee:
      continue
    for kind, expr in _consumers(node):
      if is_param(expr, node) and not inf.is_set(expr, node) and \
          not _auto_insensitive(mod, inf, node, kind, expr):
        # (a parameter that is a set by its own annotation is a site of its own)
        out.append((kind, getattr(node, "lineno", callee.lineno)))
    if isinstance(node, ast.Call):
      res = inf.resolve_callee(node, node)
      if res is None:
        continue
      for a in list(node.args) + [k.value for k in node.keywords]:
        if is_param(a, node):
          p2 = inf.param_of_arg(node, res[0], res[1], a)
          if p2 is not None:
            for kind, line in _param_walks(mod, inf, res[0], p2, depth + 1, seen):
              out.append((f"{res[0].name}({p2})->{kind}", line))
  return out


def _def_qual(mod, fn):
  outer = _qualname(mod, fn)
  return fn.name if outer == "<module>" else f"{outer}.{fn.name}"


def _scan_module(ctx, rel):
  return _scan_module_full(ctx, rel)[0]


def _scan_module_full(ctx, rel):
  """(sites, callers): callers maps the qualified name of a function of the
  module to the qualified names of the functions that call it through a call
  the set inference resolves (module-level name, `self.m()`)."""
  return ctx.memo(("c04-scan", rel), lambda: _scan_module_uncached(ctx, rel))


def _scan_module_uncached(ctx, rel):
  mod = get_module(ctx, rel)
  inf = _SetInference(mod)
  sites = []
  callers = {}
  for node in ast.walk(mod.tree):
    if isinstance(node, ast.Call):
      res0 = inf.resolve_callee(node, node)
      if res0 is not None:
        callers.setdefault(_def_qual(mod, res0[0]), set()).add(_qualname(mod, node))
    for kind, expr in _consumers(node):
      if not inf.is_set(expr, node):
        continue
      auto = _auto_insensitive(mod, inf, node, kind, expr)
      sites.append({
          "qual": _qualname(mod, node), "expr": src(expr), "kind": kind,
          "line": getattr(node, "lineno", 0), "auto": auto})
    # a set handed to a function of the same module that walks its parameter
    if isinstance(node, ast.Call):
      res = inf.resolve_callee(node, node)
      if res is None:
        continue
      callee, skip = res
      for a in list(node.args) + [k.value for k in node.keywords]:
        if isinstance(a, ast.Starred) or not inf.is_set(a, node):
          continue
        param = inf.param_of_arg(node, callee, skip, a)
        if param is None:
          continue
        walks = _param_walks(mod, inf, callee, param)
        if walks:
          sites.append({
              "qual": _qualname(mod, node), "expr": src(a),
              "kind": f"call:{callee.name}({param})->{walks[0][0]}",
              "line": getattr(node, "lineno", 0), "auto": None})
  sites.sort(key=lambda s: (s["line"], s["kind"], s["expr"]))
  return sites, callers


_OUTPUT_PATH_DIRS = ("pytype/pytd/", "pytype/errors/", "pytype/imports/")
_OUTPUT_PATH_FILES = ("pytype/output.py", "pytype/io.py", "pytype/load_pytd.py",
                      "pytype/tracer_vm.py", "pytype/convert.py")


def _is_test(rel):
  base = rel.rsplit("/", 1)[-1]
  return base.endswith("_test.py") or base.startswith("test_") or \
      "/tests/" in rel or base.endswith("test_base.py") or \
      base in ("test_utils.py",)


def _scope_files(ctx, whole):
  files = [f for f in all_py_files(ctx) if not _is_test(f)]
  if whole:
    return files
  return [f for f in files
          if f.startswith(_OUTPUT_PATH_DIRS) or f in _OUTPUT_PATH_FILES]


# ---------------------------------------------------------------------------
# Triaged-safe table for R4.6 (frozen): key = (file, function qualname,
# iterated expression as ast.unparse prints it) -> (allowed consumer kinds,
# one-line reason).  Every entry was decided by reading the code on the
# reference tree.  A consumer that is neither provably order-insensitive nor
# listed here is a violation.
# ---------------------------------------------------------------------------

_SAFE_OUTPUT_PATH = {
    ("pytype/pytd/base_visitor.py", "_GetChildTypes", "types"): (
        ("for",), "the loop body is an assert only; the set itself is returned"),
    ("pytype/pytd/base_visitor.py", "Visitor.__init__",
     "set(enter_fns) | set(visit_fns) | set(leave_fns)"): (
         ("for",), "accumulates ancestor names into a set / sets a flag; the "
         "raise is an internal assertion about the visitor class"),
    ("pytype/pytd/base_visitor.py", "_GetAncestorMap",
     "_GetChildTypes(node_classes, info.cls)"): (
         ("for",), "per child type: a set update of the outgoing edges or an "
         "internal assertion; the ancestor map is a dict of sets"),
    ("pytype/pytd/booleq.py", "simplify_exprs", "expr_set"): (
        (".pop()",), "reached only with exactly one element (len > 1 returned "
        "in the previous arm, empty falls to the next)"),
    ("pytype/pytd/booleq.py", "Solver.__repr__", "self.variables"): (
        ("for",), "debug repr of the solver; never part of stub, error report "
        "or pickle"),
    ("pytype/pytd/booleq.py", "Solver._get_first_approximation",
     "self.variables"): (
         ("for",), "fills per-variable dict entries keyed by the variable"),
    ("pytype/pytd/booleq.py", "Solver._get_first_approximation",
     "equalities"): (
         ("for",), "union-find style merge of shared sets: the per-class "
         "unions do not depend on the merge order"),
    ("pytype/pytd/booleq.py", "Solver.solve", "self.variables"): (
        ("dictcomp", "for"), "result dict is read by key (convert_structural; "
        "its debug log sorts); the loop computes a fixpoint and And() of the "
        "collected terms is a set"),
    ("pytype/pytd/optimize.py", "SimplifyUnionsWithSuperclasses.VisitUnionType",
     "set(union.type_list)"): (
         ("for",), "Counter addition is commutative; only counts are read"),
    ("pytype/pytd/visitors.py", "VerifyContainers._TypeCompatibilityCheck",
     "type_params"): (
         ("listcomp",), "the list is sorted by len and only checked as a "
         "superset chain; equal-length distinct sets fail in either order, so "
         "the boolean result is order-free"),
    ("pytype/pytd/visitors.py", "LookupExternalTypes.VisitTypeDeclUnit",
     "new_getattrs"): (
         ("call:_DiscardExistingNames(potential_members)->for",),
         "the filtered list keeps at most one element: more than one "
         "__getattr__ raises KeyError two statements later"),
    ("pytype/pytd/visitors.py", "VerifyVisitor.LeaveTypeDeclUnit",
     "self._all_templates"): (
         ("for",), "verification only: raises AssertionError on a broken AST "
         "(internal crash, not output)"),
    ("pytype/tracer_vm.py", "CallTracer.pytd_functions_for_call_traces",
     "self._calls"): (
         ("call:_call_traces_to_function(call_traces)->for",),
         "call-trace (~partial) functions only feed the structural solver's "
         "conjunction and are dropped by convert_structural.extract_local "
         "before output"),
    ("pytype/tracer_vm.py", "CallTracer.pytd_classes_for_call_traces",
     "self._method_calls"): (
         ("for",), "call-trace (~partial) classes only feed the structural "
         "solver's conjunction and are dropped by "
         "convert_structural.extract_local before output"),
}

_SAFE_WHOLE_PACKAGE = {
    ("pytype/abstract/_interpreter_function.py",
     "InterpreterFunction._build_signature", "kwonly"): (
         ("tuple()",), "Signature.kwonly_params of an interpreter function is "
         "used for membership/lookup only; stubs print get_parameters() (code "
         "order), the error printer and Signature.__str__ sort"),
    ("pytype/abstract/_typing.py", "Union._get_class", "classes"): (
        (".pop()",), "else-arm of len(classes) > 1 over a non-empty set: "
        "exactly one element"),
    ("pytype/abstract/_typing.py", "LateAnnotation.resolve",
     "self._unresolved_instances"): (
         ("for",), "per-instance update (cls reset / __init__ re-run); the "
         "instances share the annotation's class, so diagnostics coincide and "
         "are de-duplicated"),
    ("pytype/abstract/abstract_utils.py", "get_dict_fullhash_component",
     "names.intersection(vardict)"): (
         ("dictcomp",), "the dict is only fed to sorted()"),
    ("pytype/abstract/function.py", "Signature.check_type_parameters",
     "bare_alias_errors"): (
         ("for",), "runs inside the loop that grows the set by at most one "
         "name per round: every name but the newest was already reported and "
         "duplicates are dropped keeping the first"),
    ("pytype/abstract/function.py", "Signature._replace", "self._ATTRIBUTES"): (
        ("for",), "fills keyword arguments by name"),
    ("pytype/abstract/function.py", "has_visible_namedarg", "names"): (
        ("for",), "existence test: True on the first hit, False otherwise"),
    ("pytype/abstract/function.py", "handle_typeguard", "boolvals"): (
        ("for",), "set of bools: int hashes are not randomised, the order is "
        "a function of the values"),
    ("pytype/block_environment.py", "Environment.add_block", "var"): (
        ("list()",), "only the emptiness of the list is read (vm.load_local)"),
    ("pytype/config.py", "Options.create", "unknown_options"): (
        (".join()",), "ValueError for misuse of the library API; not stub, "
        "error report or pickle"),
    ("pytype/config.py", "Postprocessor._store_enable_only",
     "errors.get_error_names_set() - set(enable_only.split(','))"): (
         ("list()",), "each name is registered independently by "
         "Director.__init__"),
    ("pytype/convert_structural.py", "TypeSolver.solve",
     "protocol_classes_and_aliases"): (
         ("for",), "registers solver implications keyed by name"),
    ("pytype/convert_structural.py", "TypeSolver.solve", "unknown_classes"): (
        ("for",), "registers solver implications keyed by name"),
    ("pytype/convert_structural.py", "TypeSolver.solve",
     "complete_classes.union(self.builtins.classes)"): (
         ("for",), "registers solver implications keyed by name"),
    ("pytype/convert_structural.py", "TypeSolver.solve", "partial_classes"): (
        ("for",), "registers solver implications keyed by name"),
    ("pytype/convert_structural.py", "TypeSolver.solve", "partial_functions"): (
        ("for",), "adds ground truths; And() of them is a set"),
    ("pytype/convert_structural.py", "TypeSolver.solve",
     "complete_functions.union(self.builtins.functions)"): (
         ("for",), "adds ground truths; And() of them is a set"),
    ("pytype/directors/directors.py", "Director._process_pragmas", "pragmas"): (
        ("for",), "sets a per-pragma line table keyed by the pragma"),
    ("pytype/imports_map_loader.py", "ImportsMapBuilder._finalize",
     "intermediate_dirs"): (
         ("for",), "fills a mapping that is read by key or as a set of values"),
    ("pytype/matcher.py", "_compute_superset_info", "set1 & set2"): (
        ("for",), "two conjunctions over all keys; the early return fires "
        "only once both are already False"),
    ("pytype/overlays/typing_overlay.py", "_TypeVariable._get_typeparam_args",
     "extra_kwargs"): (
         (".join()",), "at most one name (infer_variance) can remain: the "
         "TypeVar stub signature rejects any other keyword earlier"),
    ("pytype/pattern_matching.py", "_Option.__repr__", "self.values"): (
        ("f-string",), "debug repr"),
    ("pytype/pattern_matching.py", "_Matches.__repr__", "self.defaults"): (
        ("f-string",), "debug repr"),
    ("pytype/pattern_matching.py", "BranchTracker.check_ending", "done"): (
        ("for",), "set of ints (line numbers): the order is a function of the "
        "values, and each result is reported at its own line"),
    ("pytype/pretty_printer_base.py", "PrettyPrinterBase.join_printed_types",
     "typs"): (
         ("for",), "the collected strings are sorted before joining; the "
         "other effects are a set update and a flag"),
    ("pytype/pyc/generate_opcode_diffs.py", "generate_diffs",
     "name_unchanged"): (
         ("for",), "developer script; writes a dict/set sorted before printing"),
    ("pytype/pyc/generate_opcode_diffs.py", "generate_diffs",
     "set(dis1).union(dis2)"): (
         ("for",), "developer script; writes a dict/set sorted before printing"),
    ("pytype/rewrite/abstract/functions.py",
     "_ArgMapper._unpack_starstarargs", "extra"): (
         ("for",), "moves entries between dicts by key"),
    ("pytype/rewrite/flow/conditions.py", "_Composite.__repr__",
     "self.conditions"): (("for",), "debug repr"),
    ("pytype/rewrite/flow/state.py", "BlockState.__repr__",
     "self._locals_with_block_condition"): (("f-string",), "debug repr"),
    ("pytype/tools/analyze_project/parse_args.py", "Parser.parse_args",
     "file_config_names"): (
         ("call:create_initial_args(keys)->dictcomp",
          "call:clean_args(keys)->for"),
         "argparse.Namespace attributes set / deleted by name"),
    ("pytype/tools/analyze_project/parse_args.py", "Parser.postprocess",
     "names"): (("dictcomp",), "option map read by key"),
    ("pytype/tools/analyze_project/pytype_runner.py", "PytypeRunner.__init__",
     "set(conf.__slots__) - set(config.ITEMS)"): (
         ("listcomp",), "flag order on the generated pytype-single command "
         "line; options are keyed settings"),
}


_LOOP_KINDS = ("for", "listcomp", "genexp", "dictcomp")


def _is_private_helper(qual):
  last = qual.rsplit(".", 1)[-1]
  return last.startswith("_") and not (last.startswith("__") and last.endswith("__"))


def _triage_owner(rel, qual, expr, kind, callers, table, budget, depth=0):
  """Triage key that covers a walk of `expr` sitting in the private helper
  `qual`: the entry of the one function that (through private helpers only,
  two levels) is the only caller of the helper inside the module.  None when
  there is no such unique owner with budget left."""
  if depth > 2 or not _is_private_helper(qual):
    return None
  cs = callers.get(qual)
  if not cs:
    return None
  owners = set()
  for c in sorted(cs):
    if c == qual:
      continue
    key = (rel, c, expr)
    if key in table:
      owners.add(key)
      continue
    up = _triage_owner(rel, c, expr, kind, callers, table, budget, depth + 1)
    if up is None:
      return None     # some caller is not covered by a triage entry
    owners.add(up)
  if len(owners) != 1:
    return None
  key = owners.pop()
  return key if budget[key][kind] > 0 else None


def _run_set_rule(ctx, files, table):
  import collections
  budget = {k: collections.Counter(v[0]) for k, v in table.items()}
  seen = set()
  for rel in files:
    sites, callers = _scan_module_full(ctx, rel)
    pending = []
    for site in sites:
      key = (rel, site["qual"], site["expr"])
      construct = (f"{rel.removeprefix('pytype/')}:{site['qual']}|"
                   f"{site['expr']}|{site['kind']}")
      facts = {"iterated": site["expr"], "consumer": site["kind"]}
      if site["auto"]:
        ctx.ok(construct, rel, site["line"], facts | {"insensitive": site["auto"]})
        continue
      if key in table and budget[key][site["kind"]] > 0:
        budget[key][site["kind"]] -= 1
        seen.add(key)
        ctx.ok(construct, rel, site["line"], facts | {"triaged": table[key][1]})
        continue
      pending.append((site, construct, facts))
    # a triaged loop rewritten as a comprehension (or back) is the same walk of
    # the same expression in the same function: it may use the entry's budget
    # of the sibling kind once the exact kinds have been served
    still = []
    for site, construct, facts in pending:
      key = (rel, site["qual"], site["expr"])
      alt = [k for k in _LOOP_KINDS if site["kind"] in _LOOP_KINDS and key in table
             and budget[key][k] > 0]
      if alt:
        budget[key][alt[0]] -= 1
        seen.add(key)
        ctx.ok(construct, rel, site["line"],
               facts | {"triaged": table[key][1], "triaged_as_kind": alt[0]})
        continue
      still.append((site, construct, facts))
    pending = still
    # walks left over: the triaged loop may have been moved, as it is, into a
    # private helper of the triaged function (its own budget is then unused)
    for site, construct, facts in pending:
      owner = _triage_owner(rel, site["qual"], site["expr"], site["kind"],
                            callers, table, budget)
      if owner is not None:
        budget[owner][site["kind"]] -= 1
        seen.add(owner)
        ctx.ok(construct, rel, site["line"],
               facts | {"triaged": table[owner][1],
                        "triaged_as": f"{owner[1]} (only caller of this private helper)"})
        continue
      ctx.bad(construct, rel, site["line"],
              f"`{site['expr']}` is definitely a set and is walked by an "
              f"order-observing consumer ({site['kind']}) in {site['qual']}; "
              "the walk is neither provably order-insensitive nor in the "
              "triaged table, so set/hash order can reach ordered data",
              facts)
  stale = [k for k in table if k not in seen and k[0] in files]
  for k in stale:
    ctx.note(f"R4.6 triage entry no longer matches a site: {k}")


EXPLANATION = (
    "Canonicalisation obligations and order hazards on the output path, read "
    "from the AST of io.py, pytd/pytd_utils.py, pytd/pytd_visitors.py, "
    "pytd/pytd.py, errors/errors.py, imports/pickle_utils.py, "
    "pytd/serialize_ast.py and pytd/printer.py: R4.1 the AST stored in "
    "ret.ast by generate_pyi_ast is the result of CanonicalOrdering applied "
    "to the result of Optimize, and generate_pyi prints exactly that (the "
    "stored value is followed through local names and into functions of "
    "io.py that return it, so the Optimize -> CanonicalOrdering tail may sit "
    "in a helper; every return of such a helper must qualify); R4.2 "
    "CanonicalOrderingVisitor sorts every tuple field of TypeDeclUnit, Class, "
    "Signature and UnionType (fields read from the pytd schema) except the "
    "listed order-significant ones; a call of a module-level one-line helper "
    "(`def H(x): return tuple(sorted(x))`) is read as its body, a conditional "
    "expression contributes both arms with its test as their guard, and "
    "Class.constants may stay unsorted only where a statement guard or such "
    "a test calls, on the visited class and with positive polarity, a "
    "predicate of the visitor / module that returns True only under a test "
    "of the class's decorators or bases (any(.. for d in cls.decorators), "
    "IsNamedTuple(cls), or-combinations of these); R4.3 the error report is "
    "produced only "
    "through unique_sorted_errors over a (filename, line) sort (the key may "
    "be a lambda or a module-level `def key(e): return (..)`), whose result "
    "is the flattening - sum(D.values(), []), list(chain.from_iterable("
    "D.values())) or [e for g in D.values() for e in g] - of a local dict "
    "that starts empty and receives its keys only inside the walk over "
    "self._sorted_errors(); R4.4 the "
    "msgpack encoder is deterministic, the gzip header is constant (the one "
    "GzipFile(...) that Save or a pickle_utils function called from Save "
    "builds has filename=\"\" and an mtime that folds to a number, also "
    "through a module constant that is bound once), what "
    "Serialize / SerializeAndSave hand to Encode / Save is the result of "
    "serialize_ast.SerializeAst and the dependency lists given to "
    "SerializableAst are sorted; R4.5 the printer sorts import lines, "
    "import targets and "
    "TypeVar definitions.  In R4.4/R4.5 `the value is X` is decided on the "
    "values the expression can have, not on its spelling: a local name is "
    "followed through its reaching definitions (plain assignments; "
    "tuple-unpacking of a tuple display or of a call to a function of the "
    "same module, then through the matching element of every returned "
    "tuple), so `x = sorted(..); f(x)`, `f(sorted(..))` and `a, b = "
    "_helper(..)` with `return sorted(..), sorted(..)` are the same; a field "
    "read `rec.f` / `rec[i]` of a local bound to the construction of a "
    "NamedTuple / plain @dataclass of the module (or a tuple display), made "
    "in the function or in a module-level helper it calls, is the "
    "constructor argument stored in that field (by position or keyword), "
    "provided the record is only ever read through its fields; a record of "
    "any other shape (class with its own __init__, */** arguments, "
    "defaults, the record passed on or a field changed in place) is an "
    "ANALYSIS-ERROR; a name "
    "whose object is changed in place (append/extend/sort/item store) after "
    "a definition that reaches the use is not followed (a sorted(..) "
    "definition changed in place afterwards is an ANALYSIS-ERROR); R4.6 every walk over a value that is definitely a "
    "set by an order-observing consumer is "
    "either provably order-insensitive or in a frozen, hand-triaged table "
    "(quick: output-path modules; thorough: whole package); a triage entry "
    "names the function the walk was read in and covers that function "
    "together with the private helpers (leading underscore, at most two "
    "levels) whose only callers inside the module are that function / "
    "those helpers, so a triaged loop moved as it is into such a helper "
    "is the same site, and so is a triaged loop rewritten as a "
    "comprehension / generator expression or back (for, listcomp, genexp, "
    "dictcomp share the budget), while the number of walks per entry "
    "stays bounded by the entry; a walk counted into a "
    "collections.Counter bound to a local that is only read by key "
    "(c[k], c.get(k), k in c) is order-free.  The set "
    "inference is intra-procedural plus two module-local steps: the result "
    "of `d.keys()/d.items() <-|&^> x` is a set (dict-view set algebra, "
    "whatever x is); a call that resolves to a function of the same module "
    "(module-level name, `self.m()` in the class or its same-module bases) "
    "yields a set when the return annotation says so or SOME `return E` of "
    "its body returns a definite set (least fixpoint over recursion); and a "
    "definite set passed as an argument to such a function is a walk when "
    "the receiving parameter's entry value reaches (reaching definitions) an "
    "order-observing consumer there, also through further module-local "
    "calls (depth 3); R4.8 every "
    "*process-lifetime state holder* in the analysis modules (all of pytype/ "
    "except tests, tools/, metrics.py, debug.py) is in a frozen, hand-triaged "
    "table keyed by (file, qualified name) with the kinds of change it was "
    "triaged for: a module- or class-scope binding to a stateful iterator "
    "(itertools.*, iter/map/zip/..., a generator expression, a bound "
    "__next__ or functools.partial(next, it), also inside a display); a "
    "module name rebound through `global`; a class attribute stored through "
    "something that denotes the class (C.X = / += with C a class of the "
    "module, cls.X in a classmethod/__new__, type(x).X, x.__class__.X, "
    "setattr of these); a module-scope or class-scope mutable container "
    "({} [] set() dict() defaultdict() ...) changed in place from inside a "
    "function (item store/delete, mutator call; class-scope containers only "
    "if no code rebinds the attribute on an instance); an attribute of an "
    "imported module stored from inside a function.  A new holder, or a "
    "triaged holder changed in a new way, is a violation.  R4.7 (module "
    "c04_typegraph, clang AST of the typegraph): (a) every ordered container "
    "keyed by CFGNode/Binding/Variable/... pointers compares by id "
    "(pointer_less), never by address; (b) every iteration over an unordered "
    "container keyed by such pointers - range-for, std::any_of / all_of / "
    "none_of / count_if / find_if over its begin(), a range insert, any other "
    "begin() - is order-insensitive.  (b) is decided from the effects of the "
    "code run per element, not from the name of the enclosing function: "
    "inserts into id-ordered sets/maps and constant stores into a flag are "
    "order-free unless the body reads its own accumulator or combines an "
    "accumulation with an early exit; called functions are followed and must "
    "be effect-free (no field write, no non-const reference/pointer "
    "parameter, transitively); the predicate of a short-circuiting algorithm "
    "must have no effect at all and the position returned by find_if may "
    "only be compared with end(); any remaining effect must be a triaged "
    "(container, residual effects) combination.  These are "
    "necessary conditions.  NOT decided: determinism of the VM as a whole, "
    "state kept in mutable default arguments, function attributes, "
    "functools caches, objects reachable from a reused Loader, or containers "
    "changed only through another module (`other.X[k] = v`), "
    "sets that reach a consumer through a call into ANOTHER module, a "
    "method called on anything but the receiver, a callback, *args/**kwargs, "
    "a container element, an attribute of another "
    "object or an unannotated parameter of an uncalled/externally called "
    "function, iteration over dicts keyed by "
    "id()-hashed objects, tie order of sorted() under a non-injective key.")
ASSUMPTIONS = [
    "str hashes are randomised per process (PYTHONHASHSEED) and object "
    "hashes follow id(); int/bool hashes are not randomised",
    "pytd Node.__lt__ is a total order on the nodes being sorted, so a plain "
    "sorted() of a tuple field is canonical",
    "msgspec's order='deterministic' sorts sets and dict keys on encoding",
    "a name bound only to set-valued expressions / annotated as a set is a "
    "set; attributes assigned from outside their class are not tracked",
    "`X.keys()` / `X.items()` called without arguments and combined with "
    "- & | ^ is a dict view (its set algebra returns a plain set); a function "
    "that returns a set on some path can hand a set to its caller (paths are "
    "not checked for feasibility); methods are not monkey-patched, and a "
    "subclass in another module does not override the `self.m` that a "
    "module-local call resolves to",
    "test files, test_data and typeshed are outside the scope",
    "a private (leading-underscore) function or method is called only from "
    "its own module, through calls the analysis resolves (module-level name, "
    "`self.m()`): R4.6 attributes a walk inside such a helper to the triaged "
    "function that is its only caller",
    "R4.7b: standard-library calls and calls whose definition is not in the "
    "typegraph translation units (logging) have no effect on analysis "
    "results; std::set/std::map insertion is commutative",
    "R4.8: module and class objects (and what their scope binds) live for "
    "the whole process; code at module/class scope runs once at import; "
    "msgspec copies a mutable field default per instance; Python calls "
    "__init__ on whatever __new__ returns",
]
# rules/c04_set_args.py (R4.10 / R4.10w)
EXPLANATION += (
    "  R4.10 (rules/c04_set_args.py; quick: callers in the output-path "
    "modules, R4.10w thorough: the rest of the package) closes the "
    "interprocedural gap of R4.6: a function whose result follows the "
    "iteration order of a parameter must not receive a definite set for it "
    "from any caller, or must canonicalise first.  Every call that passes a "
    "definite set (same inference as R4.6; `f(sorted(S))` is kept as an "
    "instance that holds) and that R4.6 cannot resolve inside the module is "
    "resolved by name - `alias.f(..)` / `alias.Cls(..)` through the imports "
    "to the function / the class's __init__ of that package module, "
    "`Cls(..)` of a same-module class to its __init__, `<anything>.m(..)` to "
    "every method called m of every class of the package - and the receiving "
    "parameter of each candidate is followed (reaching definitions of its "
    "entry value, further module-local calls) to order-observing consumers "
    "that are not provably order-insensitive (so `typs = set(typs)` / "
    "`sorted(typs)` first is fine, `list(dict.fromkeys(typs))`, a for-loop "
    "appending to a list, deque(..), join are walks).  A site whose callee "
    "walks is a violation unless the (callee, parameter, walk kinds) triple "
    "is in the frozen triage table of the module (one entry today: "
    "WrongKeywordArgs.extra_keywords, printed sorted / used by name).  Blind "
    "spots: receivers are not typed, so method names that also exist on the "
    "builtin containers / str, dunder methods (super().__init__) and calls "
    "through *args/**kwargs, callbacks or container elements are not "
    "followed; a set stored in an attribute / returned and walked by another "
    "module is not followed; the callee is followed only inside its own "
    "module (depth 3).")
ASSUMPTIONS += [
    "R4.10: a method call on an untyped receiver may reach any method of "
    "that name defined in a class of the package (tests excluded); names of "
    "builtin container / str methods denote those builtins",
]
# rules/c04_dedup.py (R4.11)
EXPLANATION += (
    "  R4.11 (rules/c04_dedup.py) decides the uniqueness of the error report "
    "semantically: in a supersede loop (a new error is compared with every "
    "error already kept for the same traceback-free representation) every "
    "kept entry whose traceback the new one is a tail of must be dropped - "
    "the scan continues after the first - the new error is dropped iff a "
    "kept entry is a tail of / equal to it, and it is added at most once "
    "after the whole scan.  Instead of matching the loop's text the rule "
    "evaluates ErrorLog.unique_sorted_errors (its AST, the module-level "
    "helpers, methods and properties of ErrorLog / Error it calls, with "
    "rules/_minieval; nothing is imported) on model logs: all sequences of "
    "<= 3 errors with tracebacks from {none, g, a<-g, b<-g, c<-a<-g, d}, "
    "all sequences of 4 with >= 3 different tracebacks sharing the last "
    "frame, and logs of two interleaved errors (480 logs), and requires: "
    "only logged error objects are reported, none twice; no two reports of "
    "one error have comparable tracebacks; the reported tracebacks of an "
    "error are exactly the minimal ones of those logged (hence independent "
    "of the log order) whenever no prefix of the log has more minimal "
    "tracebacks than the per-error cap, which is measured by probing with "
    "pairwise unrelated tracebacks (3 today); groups appear in (file, line) "
    "order.  A construct outside the evaluated fragment is an analysis "
    "error.  Blind spots: scope is bounded (<= 5 errors, <= 3 frames, the "
    "cap is never exceeded inside the scope); the grouping key is the "
    "model's (Error.get_unique_representation is supplied by the model, "
    "not evaluated); how tracebacks are produced (_make_traceback_str, "
    "truncation) is not covered.")
ASSUMPTIONS += [
    "R4.11: a traceback string is TRACEBACK_MARKER + one '\\n  '-prefixed "
    "line per frame (as _make_traceback_str builds it) or None; two Error "
    "objects compare by identity (Error defines no __eq__); list/dict/str "
    "operations have the host interpreter's semantics",
]

IO = "pytype/io.py"
PYTD_UTILS = "pytype/pytd/pytd_utils.py"
PYTD_VISITORS = "pytype/pytd/pytd_visitors.py"
ERRORS = "pytype/errors/errors.py"
PRINTER = "pytype/pytd/printer.py"




def _callee(call):
  return dotted(call.func) if isinstance(call, ast.Call) else None


def _resolve_call(mod, fn, expr, stmt, want):
  """Resolves `expr` (used in `stmt` of `fn`) to calls of `want`.

  Returns ([(call, owner function, statement)], None) when every value the
  expression can have is such a call - written inline, bound to a local name
  (all reaching definitions), or returned by a function of the same module
  that the expression calls (followed into that function) - else (None, why).
  """
  vals = _value_sources(mod, fn, expr, stmt,
                        follow=lambda c: _callee(c) != want)
  for v, _, _ in vals:
    if not (isinstance(v, ast.Call) and _callee(v) == want):
      return None, f"`{src(v)}` is not a call of {want}"
  return vals, None


@rule("R4.1", "C04", floor=5)
def r4_1(ctx):
  """generate_pyi_ast stores CanonicalOrdering(Optimize(...)) in ret.ast."""
  mod = get_module(ctx, IO)
  fn = mod.func("generate_pyi_ast")
  stores = [n for n in ast.walk(fn) if isinstance(n, ast.Assign)
            and any(dotted(t) == "ret.ast" for t in n.targets)]
  if not stores:
    raise AnalysisError("generate_pyi_ast: no assignment to ret.ast")
  canon_sites = []
  ok, why = True, None
  for s in stores:
    calls, why = _resolve_call(mod, fn, s.value, s, "pytd_utils.CanonicalOrdering")
    if calls is None:
      ok = False
      break
    canon_sites.extend(calls)
  ctx.check(ok, "generate_pyi_ast:ret.ast<-CanonicalOrdering", IO,
            stores[0].lineno,
            "the AST stored in ret.ast is not (on every path) the result of "
            f"pytd_utils.CanonicalOrdering: {why}",
            {"stored": [src(s.value) for s in stores],
             "canonicalised_in": sorted({f.name for _, f, _ in canon_sites})})
  # CanonicalOrdering is applied to the optimised AST (after Optimize)
  ok2, why2 = bool(canon_sites), "no CanonicalOrdering call"
  for call, owner, st in canon_sites:
    if len(call.args) != 1 or call.keywords:
      raise AnalysisError("CanonicalOrdering call has an unexpected signature")
    res, why2 = _resolve_call(mod, owner, call.args[0], st, "optimize.Optimize")
    if res is None:
      ok2 = False
      break
  ctx.check(ok2, "generate_pyi_ast:CanonicalOrdering<-Optimize", IO,
            canon_sites[0][2].lineno if canon_sites else fn.lineno,
            "CanonicalOrdering must be applied to the result of "
            f"optimize.Optimize (the optimiser rebuilds unions/classes): {why2}",
            {"argument": [src(c.args[0]) for c, _, _ in canon_sites]})
  # every normal exit has passed the store, and returns `ret`
  mf = flow.flow(fn, lambda u: {"stored"} if u in stores else None, mode="must")
  exits = [(k, n, s) for k, n, s in mf.exits if k in ("return", "end")]
  ok3 = bool(exits) and all(
      s is not None and "stored" in s and k == "return"
      and dotted(n.value) == "ret" for k, n, s in exits)
  ctx.check(ok3, "generate_pyi_ast:store-dominates-return", IO, fn.lineno,
            "some return of generate_pyi_ast is not preceded by the "
            "ret.ast store, or does not return ret",
            {"exits": [(k, getattr(n, "lineno", 0)) for k, n, _ in exits]})
  # generate_pyi prints ret.ast of generate_pyi_ast
  g = mod.func("generate_pyi")
  outs = calls_in(g, name="_output_ast")
  if len(outs) != 1 or not outs[0].args:
    raise AnalysisError("generate_pyi: _output_ast(...) call not found")
  a0 = outs[0].args[0]
  ok4, why4 = False, f"_output_ast is given `{src(a0)}`"
  if isinstance(a0, ast.Attribute) and a0.attr == "ast" and \
      isinstance(a0.value, ast.Name):
    res, why4 = _resolve_call(mod, g, a0.value, mod.enclosing_stmt(outs[0]),
                              "generate_pyi_ast")
    ok4 = res is not None
  ctx.check(ok4, "generate_pyi:prints-canonical-ast", IO, outs[0].lineno,
            "generate_pyi must print <ret>.ast where ret = "
            f"generate_pyi_ast(...): {why4}", {"printed": src(a0)})
  # CanonicalOrdering runs the canonical visitor
  um = get_module(ctx, PYTD_UTILS)
  co = um.func("CanonicalOrdering")
  rets = [n for n in ast.walk(co) if isinstance(n, ast.Return)]
  param = co.args.args[0].arg if co.args.args else None
  ok5 = (len(rets) == 1 and isinstance(rets[0].value, ast.Call)
         and dotted(rets[0].value.func) == f"{param}.Visit"
         and len(rets[0].value.args) == 1
         and _callee(rets[0].value.args[0]) in (
             "pytd_visitors.CanonicalOrderingVisitor",
             "visitors.CanonicalOrderingVisitor"))
  ctx.check(ok5, "CanonicalOrdering:visitor", PYTD_UTILS, co.lineno,
            "CanonicalOrdering(n) must return "
            "n.Visit(pytd_visitors.CanonicalOrderingVisitor())",
            {"returns": [src(r.value) for r in rets if r.value]})


# -- R4.2 ------------------------------------------------------------------------

# fields the canonical visitor must NOT sort, with the reason
_ORDER_SIGNIFICANT = {
    ("Class", "bases"): "base order is the MRO input",
    ("Class", "keywords"): "class keywords are kept as written "
                           "(metaclass=..., total=...)",
    ("Class", "template"): "template order is the positional order of the "
                           "class's type parameters",
    ("Signature", "params"): "parameters are positional",
}


def _sorted_of(expr, param, field):
  """expr is `tuple(sorted(P.F))` / `sorted(P.F)` (no key); returns bool."""
  if isinstance(expr, ast.Call) and dotted(expr.func) in ("tuple", "list") and \
      len(expr.args) == 1 and not expr.keywords:
    expr = expr.args[0]
  return (isinstance(expr, ast.Call) and dotted(expr.func) == "sorted"
          and len(expr.args) == 1 and not expr.keywords
          and dotted(expr.args[0]) == f"{param}.{field}")


def _inline_helper(mod, fn, stmt, expr):
  """`H(a, b)` with H a module-level `def H(x, y): return E` (plain positional
  parameters, no decorators, body = [docstring] return E) -> E with the
  parameters replaced by the argument expressions; else None."""
  import copy
  callee = _local_function(mod, fn, expr, stmt)
  if callee is None or expr.keywords or any(isinstance(a, ast.Starred) for a in expr.args):
    return None
  a = callee.args
  if a.vararg or a.kwarg or a.kwonlyargs or a.posonlyargs or a.defaults or \
      callee.decorator_list or len(a.args) != len(expr.args):
    return None
  body = [st for st in callee.body if not (
      isinstance(st, ast.Expr) and isinstance(st.value, ast.Constant)
      and isinstance(st.value.value, str))]
  if len(body) != 1 or not isinstance(body[0], ast.Return) or body[0].value is None:
    return None
  params = {p.arg: arg for p, arg in zip(a.args, expr.args)}
  # the helper must not bind its parameters again (comprehension targets, lambdas)
  for n in ast.walk(body[0].value):
    if isinstance(n, ast.Name) and isinstance(n.ctx, ast.Store) and n.id in params:
      return None
    if isinstance(n, ast.Lambda):
      return None

  class Sub(ast.NodeTransformer):
    def visit_Name(self, node):
      if isinstance(node.ctx, ast.Load) and node.id in params:
        return copy.deepcopy(params[node.id])
      return node
  return Sub().visit(copy.deepcopy(body[0].value))


def _classify_field_value(mod, fn, rd, stmt, expr, param, field, depth=0, extra=()):
  """-> list of (kind, stmt, guards) with kind in sorted / passthrough / none;
  guards = conditions of enclosing conditional expressions [(test src, polarity,
  test node)] under which this value is chosen."""
  if depth > 6:
    raise AnalysisError(f"{fn.name}: definition chain of {field} too deep")
  if isinstance(expr, ast.Call):
    inl = _inline_helper(mod, fn, stmt, expr)
    if inl is not None:
      return _classify_field_value(mod, fn, rd, stmt, inl, param, field, depth + 1, extra)
  if _sorted_of(expr, param, field):
    return [("sorted", stmt, extra)]
  if dotted(expr) == f"{param}.{field}":
    return [("passthrough", stmt, extra)]
  if isinstance(expr, ast.Constant) and expr.value is None:
    return [("none", stmt, extra)]
  d = dotted(expr)
  if d and d.startswith(param + ".") and d.count(".") == 1:
    return [(f"other-field:{d}", stmt, extra)]
  if isinstance(expr, ast.Call) and dotted(expr.func) == "sorted" and \
      len(expr.args) == 1 and not expr.keywords:
    d = dotted(expr.args[0])
    if d and d.startswith(param + ".") and d.count(".") == 1:
      return [(f"sorted-other-field:{d}", stmt, extra)]
  if isinstance(expr, ast.Call) and dotted(expr.func) in ("tuple", "list") and \
      len(expr.args) == 1 and not expr.keywords:
    return _classify_field_value(mod, fn, rd, stmt, expr.args[0], param,
                                 field, depth + 1, extra)
  if isinstance(expr, ast.IfExp):
    test = src(expr.test)
    body = _classify_field_value(mod, fn, rd, stmt, expr.body, param, field, depth + 1,
                                 extra + ((test, True, expr.test),))
    other = _classify_field_value(mod, fn, rd, stmt, expr.orelse, param, field, depth + 1,
                                  extra + ((test, False, expr.test),))
    # `sorted(x) if x is not None else None`
    if test == f"{param}.{field} is not None" and [k for k, _, _ in other] == ["none"]:
      return [(k, st, extra) for k, st, _ in body]
    if test == f"{param}.{field} is None" and [k for k, _, _ in body] == ["none"]:
      return [(k, st, extra) for k, st, _ in other]
    return body + other
  if isinstance(expr, ast.Name):
    defs = _defs_at(rd, stmt, expr.id)
    if not defs:
      raise AnalysisError(f"{fn.name}: {expr.id} has no local definition")
    out = []
    for d in defs:
      if not (isinstance(d, ast.Assign) and len(d.targets) == 1
              and isinstance(d.targets[0], ast.Name)):
        raise AnalysisError(f"{fn.name}: {expr.id} bound by {type(d).__name__}")
      out.extend(_classify_field_value(mod, fn, rd, d, d.value, param, field,
                                       depth + 1, extra))
    return out
  raise AnalysisError(f"{fn.name}: value of {field} not understood: {src(expr)}")


def _class_test(mod, fn, test, param):
  """The predicate function that the condition `test` (a call `self.X(P)` /
  `X(P)` on the visited node P) resolves to, else None."""
  if not (isinstance(test, ast.Call) and len(test.args) == 1 and not test.keywords
          and isinstance(test.args[0], ast.Name) and test.args[0].id == param):
    return None
  f = test.func
  if isinstance(f, ast.Attribute) and isinstance(f.value, ast.Name) and \
      fn.args.args and f.value.id == fn.args.args[0].arg:
    cls = mod.parent.get(fn)
    if isinstance(cls, ast.ClassDef):
      for st in cls.body:
        if isinstance(st, _FUNC) and st.name == f.attr and not st.decorator_list:
          return st, 1
    return None
  if isinstance(f, ast.Name) and f.id in mod.functions and \
      not mod.functions[f.id].decorator_list:
    return mod.functions[f.id], 0
  return None


def _real_class_test(mod, pc, skip):
  """(verdict, seen): the predicate returns True only under a condition on the
  class's decorators / bases (never unconditionally)."""
  if len(pc.args.args) != skip + 1:
    raise AnalysisError(f"{pc.name}: unexpected parameters")
  p = pc.args.args[skip].arg
  verdict, seen = True, []

  def operand(v, guarded_by):
    """'cond' (depends on the class), 'false', 'true'."""
    if isinstance(v, ast.Constant) and v.value is True:
      return "true"
    if isinstance(v, ast.Constant) and v.value is False:
      return "false"
    if isinstance(v, ast.Call) and dotted(v.func) == "IsNamedTuple" and \
        [dotted(a) for a in v.args] == [p]:
      return "cond"
    if isinstance(v, ast.Call) and dotted(v.func) in ("any", "all") and \
        len(v.args) == 1 and isinstance(v.args[0], (ast.GeneratorExp, ast.ListComp)):
      its = {dotted(g.iter) for g in v.args[0].generators}
      if its & {f"{p}.decorators", f"{p}.bases"} and dotted(v.func) == "any":
        return "cond"
    if isinstance(v, ast.BoolOp) and isinstance(v.op, ast.Or):
      kinds = [operand(x, guarded_by) for x in v.values]
      if "true" in kinds:
        return "true"
      return "cond" if "cond" in kinds else "false"
    raise AnalysisError(f"{pc.name}: return "
                        f"`{src(v) if v is not None else None}` not understood")

  for r in [n for n in walk_no_nested(pc) if isinstance(n, ast.Return)]:
    v = r.value
    if isinstance(v, ast.Constant) and v.value is True:
      g = flow.guards(mod.parent, r, stop=pc)
      mentions = {a for t, pol in g if pol for a in flow.attrs_in(t)}
      seen.append(("True", sorted(mentions)))
      if not ({f"{p}.decorators", f"{p}.bases"} & mentions):
        verdict = False
      continue
    kind = operand(v, None)
    seen.append(({"cond": src(v), "false": "False", "true": "True"}[kind], []))
    if kind == "true":
      verdict = False
  if not seen:
    raise AnalysisError(f"{pc.name}: no return found")
  return verdict, seen


def _canonical_visit(ctx, cls, method, sch):
  """Per tuple field of pytd.<cls>: how Visit<cls> rebuilds it."""
  mod = get_module(ctx, PYTD_VISITORS)
  fn = mod.func(f"CanonicalOrderingVisitor.{method}")
  if len(fn.args.args) != 2:
    raise AnalysisError(f"{method}: unexpected parameters")
  param = fn.args.args[1].arg
  rd = _reaching(fn)
  rets = [n for n in walk_no_nested(fn) if isinstance(n, ast.Return)]
  if len(rets) != 1 or not isinstance(rets[0].value, ast.Call):
    raise AnalysisError(f"{method}: expected a single `return <call>`")
  call = rets[0].value
  d = dotted(call.func)
  if call.args or any(k.arg is None for k in call.keywords):
    raise AnalysisError(f"{method}: positional/** arguments in the rebuilt node")
  if d == f"pytd.{cls}":
    shape = "ctor"
  elif d == f"{param}.Replace":
    shape = "replace"
  else:
    raise AnalysisError(f"{method}: returns {d}(...), expected pytd.{cls}(...) "
                        f"or {param}.Replace(...)")
  out = {}
  for field in sch.tuple_fields(cls):
    v = kwarg(call, field)
    if v is None:
      out[field] = ([("passthrough" if shape == "replace" else "missing",
                      rets[0], ())], fn, mod, rets[0])
    else:
      out[field] = (_classify_field_value(mod, fn, rd, rets[0], v, param, field),
                    fn, mod, rets[0])
  return out


@rule("R4.2", "C04", floor=18)
def r4_2(ctx):
  """CanonicalOrderingVisitor sorts every tuple field (schema-driven)."""
  from rules._pytd_schema import get_schema
  sch = get_schema(ctx)
  rel = PYTD_VISITORS
  preserve_tests = []
  for cls, method in (("TypeDeclUnit", "VisitTypeDeclUnit"),
                      ("Class", "VisitClass"),
                      ("Signature", "VisitSignature"),
                      ("UnionType", "VisitUnionType")):
    if cls == "UnionType":
      continue
    res = _canonical_visit(ctx, cls, method, sch)
    if not res:
      raise AnalysisError(f"pytd.{cls} has no tuple fields")
    for field, (kinds, fn, mod, ret) in res.items():
      construct = f"{method}:{field}"
      ks = sorted({k for k, _, _ in kinds})
      facts = {"rebuilt_as": ks}
      if (cls, field) in _ORDER_SIGNIFICANT:
        ctx.check(ks == ["passthrough"], construct, rel, fn.lineno,
                  f"pytd.{cls}.{field} is order-significant "
                  f"({_ORDER_SIGNIFICANT[(cls, field)]}) but is rebuilt as {ks}",
                  facts | {"exception": _ORDER_SIGNIFICANT[(cls, field)]})
        continue
      if "missing" in ks:
        ctx.bad(construct, rel, fn.lineno,
                f"{method} does not pass pytd.{cls}.{field}", facts)
        continue
      if ks == ["sorted"]:
        ctx.ok(construct, rel, fn.lineno, facts)
        continue
      if "sorted" in ks and "passthrough" in ks and (cls, field) == ("Class", "constants"):
        # unsorted only under the dataclass / namedtuple guard: a statement
        # guard or the test of a conditional expression that calls, on the
        # visited class, a predicate of this module / visitor
        guarded = True
        gl = []
        for k, st, extra in kinds:
          if k != "passthrough":
            continue
          tests = [(t, p) for t, p in flow.guards(mod.parent, st, stop=fn)]
          tests += [(t, p) for _, p, t in extra]
          gl.append([(src(t), p) for t, p in tests])
          hit = [t for t, p in tests if p and _class_test(mod, fn, t, fn.args.args[1].arg)]
          if not hit:
            guarded = False
          else:
            preserve_tests.extend(_class_test(mod, fn, t, fn.args.args[1].arg) for t in hit)
        ctx.check(guarded, construct, rel, fn.lineno,
                  "Class.constants may stay unsorted only under a test of the "
                  "class (dataclass/attrs/namedtuple field order: "
                  f"_PreserveConstantsOrdering(node)); guards={gl}",
                  facts | {"exception": "dataclass/namedtuple field order",
                           "guards": gl})
        continue
      ctx.bad(construct, rel, fn.lineno,
              f"pytd.{cls}.{field} is a tuple field but {method} rebuilds it "
              f"as {ks}: its order then depends on how the AST was produced",
              facts)
  # UnionType: positional ctor
  mod = get_module(ctx, rel)
  fn = mod.func("CanonicalOrderingVisitor.VisitUnionType")
  param = fn.args.args[1].arg
  rets = [n for n in walk_no_nested(fn) if isinstance(n, ast.Return)]
  if len(rets) != 1 or not isinstance(rets[0].value, ast.Call) or \
      dotted(rets[0].value.func) != "pytd.UnionType":
    raise AnalysisError("VisitUnionType: expected `return pytd.UnionType(...)`")
  call = rets[0].value
  v = call.args[0] if len(call.args) == 1 and not call.keywords else \
      kwarg(call, "type_list")
  if v is None:
    raise AnalysisError("VisitUnionType: type_list argument not found")
  if "type_list" not in sch.tuple_fields("UnionType"):
    raise AnalysisError("pytd.UnionType.type_list is no longer a tuple field")
  vk = _classify_field_value(mod, fn, _reaching(fn), rets[0], v, param, "type_list")
  ctx.check([k for k, _, _ in vk] == ["sorted"], "VisitUnionType:type_list", rel,
            fn.lineno, f"UnionType.type_list is rebuilt as {src(v)}; union "
            "members come from binding order and must be sorted",
            {"value": src(v)})
  # the helper guarding the constants exception must be a real test of the
  # class: `return True` only under a condition on its decorators/bases
  found = {id(f): (f, skip) for f, skip in preserve_tests}
  if not found:
    found = {0: (mod.func("CanonicalOrderingVisitor._PreserveConstantsOrdering"), 1)}
  verdict, seen, line = True, [], 0
  for pc, skip in found.values():
    v1, s1 = _real_class_test(mod, pc, skip)
    verdict = verdict and v1
    seen.append((pc.name, s1))
    line = pc.lineno
  ctx.check(verdict, "_PreserveConstantsOrdering:conditional", rel, line,
            "the predicate guarding unsorted class constants returns True "
            "without testing the class's decorators/bases: class constants "
            "would never be sorted", {"returns": seen})


# -- R4.3 ------------------------------------------------------------------------

_ERRORLOG_READS_OK = {"print_to_csv_file", "print_to_stderr", "print_to_file",
                      "has_error", "unique_sorted_errors"}


def _iter_exprs(fn):
  """Expressions iterated in fn: for-statements and comprehension generators."""
  out = []
  for n in ast.walk(fn):
    if isinstance(n, (ast.For, ast.AsyncFor)):
      out.append(n.iter)
    elif isinstance(n, ast.comprehension):
      out.append(n.iter)
  return out


@rule("R4.3", "C04", floor=8)
def r4_3(ctx):
  """The error report is read only through unique_sorted_errors."""
  mod = get_module(ctx, ERRORS)
  # _sorted_errors: sorted(self._errors, key=lambda x: (filename, line))
  fn = mod.func("ErrorLog._sorted_errors")
  rets = [n for n in ast.walk(fn) if isinstance(n, ast.Return)]
  if len(rets) != 1:
    raise AnalysisError("_sorted_errors: expected one return")
  vals = _value_sources(mod, fn, rets[0].value, rets[0]) if rets[0].value is not None else []
  if len(vals) != 1:
    raise AnalysisError("_sorted_errors: return value not understood")
  v = vals[0][0]
  ok = isinstance(v, ast.Call) and dotted(v.func) == "sorted" and \
      len(v.args) == 1 and dotted(v.args[0]) == "self._errors"
  key = kwarg(v, "key") if isinstance(v, ast.Call) else None
  # the key: a lambda, or the name of a module-level function `def k(x): return (..)`
  kparam = kbody = None
  if isinstance(key, ast.Lambda) and len(key.args.args) == 1:
    kparam, kbody = key.args.args[0].arg, key.body
  elif isinstance(key, ast.Name) and key.id in mod.functions and \
      not _defs_at(_reaching(fn), rets[0], key.id):
    kf = mod.functions[key.id]
    krets = [n for n in walk_no_nested(kf) if isinstance(n, ast.Return)]
    if len(kf.args.args) == 1 and len(krets) == 1 and krets[0].value is not None \
        and not kf.decorator_list:
      kvals = _value_sources(mod, kf, krets[0].value, krets[0])
      if len(kvals) == 1:
        kparam, kbody = kf.args.args[0].arg, kvals[0][0]
  keyparts = []
  if ok and isinstance(kbody, ast.Tuple):
    p = kparam
    for e in kbody.elts:
      attrs = [dotted(a) for a in ast.walk(e) if isinstance(a, ast.Attribute)]
      keyparts.append([a for a in attrs if a and a.startswith(p + ".")])
    flat = [a.split(".", 1)[1] for part in keyparts for a in part]
    ok = len(keyparts) >= 2 and any("filename" in a for a in keyparts[0]) and \
        any(a.endswith(".line") or a.endswith(".lineno") for a in keyparts[1])
    ok = ok and kwarg(v, "reverse") is None
  else:
    ok = False
    flat = []
  ctx.check(ok, "_sorted_errors:key", ERRORS, fn.lineno,
            f"_sorted_errors must return sorted(self._errors, key=(filename, "
            f"line, ...)); found {src(v)}", {"key_fields": flat})
  # unique_sorted_errors iterates _sorted_errors() and nothing else of the log
  fn = mod.func("ErrorLog.unique_sorted_errors")
  its = [src(e) for e in _iter_exprs(fn)]
  raw = [e for e in its if "self._errors" in e or e == "self"]
  ok = "self._sorted_errors()" in its and not raw
  ctx.check(ok, "unique_sorted_errors:source", ERRORS, fn.lineno,
            f"unique_sorted_errors must walk self._sorted_errors(); it "
            f"iterates {its}", {"iterates": its})
  # its result is the flattening of the insertion-ordered dict filled in that
  # walk: sum(D.values(), []), list(chain.from_iterable(D.values())) or
  # [e for g in D.values() for e in g], D a local dict that starts empty and
  # gets its keys only inside the loop over self._sorted_errors()
  rets = [n for n in walk_no_nested(fn) if isinstance(n, ast.Return)]
  dname = None
  if len(rets) == 1 and rets[0].value is not None:
    rv = _value_sources(mod, fn, rets[0].value, rets[0])
    rv = rv[0][0] if len(rv) == 1 else None
    vals_call = None
    if isinstance(rv, ast.Call) and dotted(rv.func) == "sum" and len(rv.args) == 2 \
        and isinstance(rv.args[1], ast.List) and not rv.args[1].elts and not rv.keywords:
      vals_call = rv.args[0]
    elif isinstance(rv, ast.Call) and dotted(rv.func) == "list" and len(rv.args) == 1 \
        and isinstance(rv.args[0], ast.Call) and dotted(rv.args[0].func) in (
            "itertools.chain.from_iterable", "chain.from_iterable") \
        and len(rv.args[0].args) == 1:
      vals_call = rv.args[0].args[0]
    elif isinstance(rv, ast.ListComp) and len(rv.generators) == 2 and \
        not any(g.ifs or g.is_async for g in rv.generators) and \
        isinstance(rv.generators[0].target, ast.Name) and \
        isinstance(rv.generators[1].target, ast.Name) and \
        isinstance(rv.generators[1].iter, ast.Name) and \
        rv.generators[1].iter.id == rv.generators[0].target.id and \
        isinstance(rv.elt, ast.Name) and rv.elt.id == rv.generators[1].target.id:
      vals_call = rv.generators[0].iter
    if isinstance(vals_call, ast.Call) and isinstance(vals_call.func, ast.Attribute) \
        and vals_call.func.attr == "values" and not vals_call.args \
        and isinstance(vals_call.func.value, ast.Name):
      dname = vals_call.func.value.id
  if dname is None:
    raise AnalysisError("unique_sorted_errors: return shape not understood: "
                        + ", ".join(src(r.value) for r in rets if r.value))
  binds = [n for n in walk_no_nested(fn) if isinstance(n, ast.Assign) and any(
      isinstance(t, ast.Name) and t.id == dname for t in n.targets)]
  empty = len(binds) == 1 and (
      (isinstance(binds[0].value, ast.Dict) and not binds[0].value.keys) or
      (isinstance(binds[0].value, ast.Call) and dotted(binds[0].value.func) in (
          "dict", "collections.OrderedDict") and not binds[0].value.args
       and not binds[0].value.keywords))
  loops = [n for n in walk_no_nested(fn) if isinstance(n, ast.For)
           and src(n.iter) == "self._sorted_errors()"]
  key_stores = [n for n in walk_no_nested(fn) if isinstance(n, ast.Subscript)
                and isinstance(n.ctx, (ast.Store, ast.Del))
                and isinstance(n.value, ast.Name) and n.value.id == dname]
  key_stores += [c for c in calls_in(fn) if isinstance(c.func, ast.Attribute)
                 and isinstance(c.func.value, ast.Name) and c.func.value.id == dname
                 and c.func.attr in ("setdefault", "update", "pop", "popitem",
                                     "clear", "move_to_end")]
  inside = len(loops) == 1 and all(_within(mod, k, loops[0]) for k in key_stores)
  if not (empty and inside and key_stores):
    raise AnalysisError(f"unique_sorted_errors: `{dname}` is not an empty dict "
                        "that gets its keys only in the walk over "
                        "self._sorted_errors()")
  # printers iterate only unique_sorted_errors()
  for name in ("print_to_csv_file", "print_to_file"):
    f = mod.func(f"ErrorLog.{name}")
    its = [src(e) for e in _iter_exprs(f)]
    touches = [dotted(a) for a in ast.walk(f) if isinstance(a, ast.Attribute)
               and dotted(a) in ("self._errors",)]
    ok = its == ["self.unique_sorted_errors()"] and not touches
    ctx.check(ok, f"{name}:source", ERRORS, f.lineno,
              f"{name} must print exactly the errors of "
              f"self.unique_sorted_errors(); it iterates {its}"
              + (" and reads self._errors" if touches else ""),
              {"iterates": its})
  for name in ("print_to_stderr", "__str__"):
    f = mod.func(f"ErrorLog.{name}")
    callees = sorted({dotted(c.func) for c in calls_in(f)
                      if (dotted(c.func) or "").startswith("self.")})
    touches = [1 for a in ast.walk(f) if isinstance(a, ast.Attribute)
               and dotted(a) == "self._errors"]
    ok = callees == ["self.print_to_file"] and not touches and not _iter_exprs(f)
    ctx.check(ok, f"{name}:delegates", ERRORS, f.lineno,
              f"{name} must delegate to self.print_to_file; calls {callees}",
              {"calls": callees})
  # io.handle_errors reads the log only through the sorted printers
  io = get_module(ctx, IO)
  f = io.func("handle_errors")
  log = f.args.args[0].arg
  uses = []
  for n in ast.walk(f):
    if isinstance(n, ast.Name) and n.id == log and isinstance(n.ctx, ast.Load):
      par = io.parent.get(n)
      if isinstance(par, ast.Attribute) and isinstance(io.parent.get(par), ast.Call) \
          and io.parent[par].func is par:
        uses.append(par.attr)
      elif isinstance(par, ast.Call) and n in par.args:
        uses.append("->" + (dotted(par.func) or "?"))
      else:
        uses.append("raw:" + type(par).__name__)
  bad_uses = [u for u in uses if not (u in _ERRORLOG_READS_OK
                                      or u == "->print_error_doc_url")]
  ctx.check(not bad_uses and "print_to_stderr" in uses, "handle_errors:reads",
            IO, f.lineno,
            f"handle_errors may read the error log only through "
            f"{sorted(_ERRORLOG_READS_OK)}; found {bad_uses or uses}",
            {"uses": uses})
  # print_error_doc_url: builds a set of names; pops only a singleton
  f = io.func("print_error_doc_url")
  log = f.args.args[0].arg
  its = _iter_exprs(f)
  ok = True
  for e in its:
    if dotted(e) == log:
      comp = io.parent[io.parent[e]] if e in io.parent else None
      if not isinstance(comp, ast.SetComp):
        ok = False
  pops = [c for c in calls_in(f) if isinstance(c.func, ast.Attribute)
          and c.func.attr == "pop"]
  for c in pops:
    recv = src(c.func.value)
    g = [(src(t), p) for t, p in flow.guards(io.parent, io.enclosing_stmt(c), stop=f)]
    if (f"len({recv}) == 1", True) not in g:
      ok = False
  ctx.check(ok, "print_error_doc_url:order-free", IO, f.lineno,
            "print_error_doc_url may only build a set from the log and pop it "
            "when it has exactly one element", {"pops": len(pops)})


# -- R4.4 ------------------------------------------------------------------------

PICKLE = "pytype/imports/pickle_utils.py"
SERIALIZE = "pytype/pytd/serialize_ast.py"

_LIST_MUTATORS = {"append", "extend", "insert", "remove", "pop", "sort",
                  "reverse", "clear", "__setitem__", "__delitem__", "__iadd__"}


def _changed_in_place(unit):
  """Names whose object `unit` changes in place: receiver of a mutator call,
  item store / delete."""
  out = set()
  todo = [unit]
  while todo:
    n = todo.pop()
    if isinstance(n, _FUNC + (ast.Lambda, ast.ClassDef)) and n is not unit:
      continue
    if isinstance(n, ast.Call) and isinstance(n.func, ast.Attribute) and \
        isinstance(n.func.value, ast.Name) and n.func.attr in _LIST_MUTATORS:
      out.add(n.func.value.id)
    if isinstance(n, ast.Subscript) and isinstance(n.ctx, (ast.Store, ast.Del)) \
        and isinstance(n.value, ast.Name):
      out.add(n.value.id)
    todo.extend(ast.iter_child_nodes(n))
  return out


def _reaching_mut(fn):
  """Reaching definitions where an in-place change of a name's object is a
  (non-killing) event of its own: facts (name, unit, "def" | "mut")."""
  def gen(unit):
    out = {(nm, unit, "def") for nm in stored_names(unit)}
    out |= {(nm, unit, "mut") for nm in _changed_in_place(unit)}
    return out

  def kill(unit):
    names = stored_names(unit)
    if not names:
      return None
    return lambda fact: fact[0] in names
  return flow.flow(fn, gen, kill, mode="may")


def _local_function(mod, fn, call, stmt):
  """The module-level function of `mod` that `call` (in `stmt` of `fn`) calls
  by a plain name that `fn` does not rebind; else None."""
  if isinstance(call, ast.Call) and isinstance(call.func, ast.Name) and \
      call.func.id in mod.functions and \
      not _defs_at(_reaching(fn), stmt, call.func.id) and \
      call.func.id not in {a.arg for a in fn.args.args + fn.args.kwonlyargs
                           + fn.args.posonlyargs}:
    return mod.functions[call.func.id]
  return None


def _plain_returns(callee):
  rets = [n for n in walk_no_nested(callee) if isinstance(n, ast.Return)]
  if not rets or any(isinstance(n, (ast.Yield, ast.YieldFrom))
                     for n in walk_no_nested(callee)):
    raise AnalysisError(f"{callee.name}: not a plain function with return statements")
  return rets


def _record_candidates(mod, fn, v, stmt, depth):
  """What a record-valued expression `v` can be: calls to module-level
  functions of the module are replaced by what they return (names resolved
  inside them).  -> [(expression, owner, statement, came-from-a-helper)]"""
  if depth > 6:
    raise AnalysisError(f"{fn.name}: definition chain too deep")
  callee = _local_function(mod, fn, v, stmt)
  if callee is None:
    return [(v, fn, stmt, False)]
  out = []
  for r in _plain_returns(callee):
    if r.value is None:
      raise AnalysisError(f"{callee.name}: bare return where a record is expected")
    for rv, owner, rst in _value_sources(mod, callee, r.value, r, depth + 1):
      out.extend((e, o, s_, True)
                 for e, o, s_, _ in _record_candidates(mod, owner, rv, rst, depth + 1))
  return out


def _record_field_sources(mod, fn, expr, stmt, depth, follow):
  """`rec.<field>` / `rec[<int>]` where the local `rec` holds a record (see
  rules/_record_fields.py) built in `fn` or in a module-level helper it
  calls: the sources of the constructor argument stored in that field.
  None when `rec` is not such a local (the expression is then judged as it
  stands, as before); AnalysisError when `rec` comes from a helper / a class
  of the module but the shape is not the modelled one."""
  base, selector = _RF.selector_of(expr)
  defs = _defs_at(_reaching(fn), stmt, base.id)
  if not defs:
    return None
  def recordish(v, owner, st):
    return _local_function(mod, owner, v, st) is not None or (
        isinstance(v, ast.Call) and isinstance(v.func, ast.Name)
        and _RF.record_fields(mod, v.func.id) is not None)
  srcs = _value_sources(mod, fn, base, stmt, depth + 1)
  cands = []
  for v, owner, st in srcs:
    cands.extend(_record_candidates(mod, owner, v, st, depth + 1))
  direct_defs = [d.value for d in defs if isinstance(d, ast.Assign)
                 and len(d.targets) == 1 and isinstance(d.targets[0], ast.Name)]
  involved = any(h for _, _, _, h in cands) or \
      any(recordish(v, o, s_) for v, o, s_, _ in cands) or \
      any(recordish(v, fn, stmt) for v in direct_defs)
  if not involved:
    return None
  out = []
  for v, owner, st, _ in cands:
    arg = None
    if isinstance(v, ast.Call) and isinstance(v.func, ast.Name):
      if _defs_at(_reaching(owner), st, v.func.id) or v.func.id in {
          a.arg for a in owner.args.args + owner.args.kwonlyargs + owner.args.posonlyargs}:
        raise AnalysisError(f"{owner.name}: `{v.func.id}` is rebound locally")
      arg = _RF.ctor_field(mod, v, selector)
    elif isinstance(v, ast.Tuple) and isinstance(selector, int):
      arg = _RF.tuple_item(v, selector)
    if arg is None:
      raise AnalysisError(
          f"{fn.name}: `{src(expr)}` reads a field of a value built as "
          f"`{src(v)[:80]}`, which is not a NamedTuple/dataclass/tuple "
          "construction the rule can look into")
    out.extend(_value_sources(mod, owner, arg, st, depth + 1, follow))
  _RF.require_field_reads_only(fn, base.id)
  return out


def _value_sources(mod, fn, expr, stmt, depth=0, follow=None):
  """Expressions that `expr` (read in `stmt` of `fn`) evaluates to, following
  local names through their reaching definitions: plain assignments, and
  tuple-unpacking of a call to a function of the same module (then the
  matching element of each returned tuple, resolved inside that function).
  With `follow` (a predicate on call nodes) a call to a module-level function
  of the same module is replaced by the values that function returns.
  -> [(expression, function it belongs to, statement it is evaluated in)]; a
  name with no local definition, or bound in another way, is returned as it
  is.  AnalysisError when the value cannot be followed soundly."""
  if depth > 6:
    raise AnalysisError(f"{fn.name}: definition chain too deep")
  if not isinstance(expr, ast.Name):
    if _RF.selector_of(expr) is not None:
      got = _record_field_sources(mod, fn, expr, stmt, depth, follow)
      if got is not None:
        return got
    if follow is not None and isinstance(expr, ast.Call) and follow(expr):
      callee = _local_function(mod, fn, expr, stmt)
      if callee is not None:
        out = []
        for r in _plain_returns(callee):
          if r.value is None:
            raise AnalysisError(f"{callee.name}: bare return")
          out.extend(_value_sources(mod, callee, r.value, r, depth + 1, follow))
        return out
    return [(expr, fn, stmt)]
  rd = _reaching(fn)
  st = _reaching_mut(fn).before.get(stmt)
  facts = [f for f in (st or ()) if f[0] == expr.id]
  defs = [f[1] for f in facts if f[2] == "def"]
  if not defs:
    return [(expr, fn, stmt)]
  if any(f[2] == "mut" for f in facts):
    # the object was changed in place after (one of) its definitions: what
    # those definitions say about the value need not hold at the use
    if any(isinstance(d, ast.Assign) and isinstance(d.value, ast.Call)
           and dotted(d.value.func) == "sorted" for d in defs):
      raise AnalysisError(f"{fn.name}: `{expr.id}` is sorted and then changed "
                          "in place before its use")
    return [(expr, fn, stmt)]
  out = []
  for d in defs:
    if not (isinstance(d, ast.Assign) and len(d.targets) == 1):
      return [(expr, fn, stmt)]
    t = d.targets[0]
    if isinstance(t, ast.Name):
      out.extend(_value_sources(mod, fn, d.value, d, depth + 1, follow))
      continue
    if isinstance(t, (ast.Tuple, ast.List)) and not any(
        isinstance(e, ast.Starred) for e in t.elts):
      pos = [i for i, e in enumerate(t.elts)
             if isinstance(e, ast.Name) and e.id == expr.id]
      if len(pos) != 1:
        return [(expr, fn, stmt)]
      i = pos[0]
      v = d.value
      if isinstance(v, (ast.Tuple, ast.List)) and len(v.elts) == len(t.elts) \
          and not any(isinstance(e, ast.Starred) for e in v.elts):
        out.extend(_value_sources(mod, fn, v.elts[i], d, depth + 1, follow))
        continue
      callee = _local_function(mod, fn, v, d)
      if callee is None:
        return [(expr, fn, stmt)]
      for r in _plain_returns(callee):
        for rv, owner, rst in _value_sources(mod, callee, r.value, r, depth + 1) \
            if r.value is not None else [(None, callee, r)]:
          if not (isinstance(rv, ast.Tuple) and len(rv.elts) == len(t.elts)
                  and not any(isinstance(e, ast.Starred) for e in rv.elts)):
            raise AnalysisError(
                f"{callee.name}: returns `{src(rv) if rv is not None else None}`, "
                f"not a {len(t.elts)}-tuple")
          out.extend(_value_sources(mod, owner, rv.elts[i], rst, depth + 1, follow))
      continue
    return [(expr, fn, stmt)]
  return out


def stored_names_in_functions(mod):
  """Names assigned inside any function of the module or declared global
  there (a module constant with such a name may not be constant)."""
  out = set()
  for n in ast.walk(mod.tree):
    if isinstance(n, _FUNC):
      for x in ast.walk(n):
        if isinstance(x, ast.Global):
          out.update(x.names)
  top = {}
  for st in mod.tree.body:
    for nm in stored_names(st) if not isinstance(st, _FUNC + (ast.ClassDef,)) else ():
      top[nm] = top.get(nm, 0) + 1
  out.update(nm for nm, k in top.items() if k > 1)
  return out


def _serialisation_instances(ctx):
  """Encoder / gzip / pipeline / dependency-order obligations of the pickle path."""
  mod = get_module(ctx, PICKLE)
  # 1. the module-level encoder is deterministic
  enc = mod.const("Encoder")
  if not (isinstance(enc, ast.Call) and dotted(enc.func) == "msgspec.msgpack.Encoder"):
    raise AnalysisError("pickle_utils.Encoder is not a msgspec.msgpack.Encoder(...) call")
  order = kwarg(enc, "order")
  val = order.value if isinstance(order, ast.Constant) else (
      src(order) if order is not None else None)
  ctx.check(val in ("deterministic", "sorted"), "Encoder:order", PICKLE, enc.lineno,
            f"msgspec Encoder is built with order={val!r}; sets and dicts "
            "(SerializableAst.dependencies holds set[str]) are then encoded in "
            "hash order", {"order": val})
  # 2. every encoding in the module goes through that encoder
  stray = []
  for c in calls_in(mod.tree):
    d = dotted(c.func) or ""
    if d in ("msgspec.msgpack.encode", "msgspec.json.encode", "msgspec.to_builtins") \
        or (d.endswith(".Encoder") and c is not enc):
      stray.append((d, c.lineno))
  fn = mod.func("Encode")
  rets = [n for n in ast.walk(fn) if isinstance(n, ast.Return)]
  rv = []
  for r in rets:
    rv.extend(v for v, _, _ in _value_sources(mod, fn, r.value, r)) if r.value is not None \
        else rv.append(None)
  ok = (not stray and rv and all(
      isinstance(v, ast.Call) and dotted(v.func) == "Encoder.encode" for v in rv))
  ctx.check(ok, "Encode:uses-Encoder", PICKLE, fn.lineno,
            "Encode must return Encoder.encode(obj) and no other msgspec "
            f"encoder may be used in pickle_utils (stray={stray})",
            {"returns": [src(v) for v in rv if v is not None], "stray": stray})
  # 3. Save: what is written is Encode(obj); the gzip header is constant
  fn = mod.func("Save")
  writes = [c for c in calls_in(fn) if isinstance(c.func, ast.Attribute)
            and c.func.attr == "write"]
  if not writes:
    raise AnalysisError("pickle_utils.Save: no .write(...) call")
  wargs, ok = [], True
  for c in writes:
    vals = [v for v, _, _ in _value_sources(mod, fn, c.args[0], mod.enclosing_stmt(c))] \
        if len(c.args) == 1 else [None]
    wargs.extend(src(v) if v is not None else None for v in vals)
    ok = ok and all(isinstance(v, ast.Call) and dotted(v.func) == "Encode" for v in vals)
  ctx.check(ok, "Save:writes-Encode", PICKLE, fn.lineno,
            f"Save must write Encode(obj); writes {wargs}", {"writes": wargs})
  # the gzip stream Save writes through: built in Save, or in a function of
  # the module that Save calls (two levels)
  scopes, todo = [fn], [(fn, 0)]
  while todo:
    cur, lvl = todo.pop()
    for c in calls_in(cur):
      callee = mod.functions.get(c.func.id) if isinstance(c.func, ast.Name) else None
      if callee is not None and callee not in scopes and lvl < 2 and \
          callee.name not in ("Encode",):
        scopes.append(callee)
        todo.append((callee, lvl + 1))
  gz = [c for sc in scopes for c in calls_in(sc)
        if (dotted(c.func) or "").endswith("GzipFile")]
  if len(gz) != 1:
    raise AnalysisError(f"pickle_utils.Save: expected one GzipFile call, found {len(gz)}")
  g = gz[0]
  if any(k.arg is None for k in g.keywords) or len(g.args) > 0:
    raise AnalysisError("pickle_utils.Save: GzipFile called with positional/**kwargs")
  other_gzip = sorted({dotted(c.func) for sc in scopes for c in calls_in(sc)
                       if (dotted(c.func) or "").startswith("gzip.")
                       and not (dotted(c.func) or "").endswith("GzipFile")})
  if other_gzip:
    raise AnalysisError(f"pickle_utils.Save: gzip API {other_gzip} is not modelled")
  mt = kwarg(g, "mtime")
  mtv = try_fold(mt, mod=mod, default=None) if mt is not None else None
  if isinstance(mt, ast.Name) and mt.id in stored_names_in_functions(mod):
    mtv = None      # the module constant is rebound somewhere
  mt_ok = isinstance(mtv, (int, float)) and not isinstance(mtv, bool)
  ctx.check(mt_ok, "Save:gzip-mtime", PICKLE, g.lineno,
            f"gzip.GzipFile(mtime={src(mt) if mt is not None else '<absent>'}): "
            "the gzip header must carry a constant mtime (absent/None means "
            "time.time())", {"mtime": src(mt) if mt is not None else None,
                             "value": mtv})
  fnm = kwarg(g, "filename")
  fnv = try_fold(fnm, mod=mod, default=None) if fnm is not None else None
  fn_ok = fnm is not None and fnv == "" and not (
      isinstance(fnm, ast.Name) and fnm.id in stored_names_in_functions(mod))
  ctx.check(fn_ok, "Save:gzip-filename", PICKLE, g.lineno,
            f"gzip.GzipFile(filename={src(fnm) if fnm is not None else '<absent>'}): "
            "the header file name must be blanked (absent means fileobj.name)",
            {"filename": src(fnm) if fnm is not None else None})
  # 4. Serialize / SerializeAndSave: the value handed to Encode / Save is the
  #    result of serialize_ast.SerializeAst (written inline or bound to a local)
  for name, sink in (("Serialize", "Encode"), ("SerializeAndSave", "Save")):
    f = mod.func(name)
    sinks = [c for c in calls_in(f, name=sink)]
    producers, ok = [], len(sinks) == 1 and bool(sinks[0].args) and \
        not isinstance(sinks[0].args[0], ast.Starred)
    if ok:
      vals = _value_sources(mod, f, sinks[0].args[0], mod.enclosing_stmt(sinks[0]))
      producers = [src(v) for v, _, _ in vals]
      ok = all(isinstance(v, ast.Call) and dotted(v.func) == "serialize_ast.SerializeAst"
               for v, _, _ in vals)
    ok = ok and not [c for c in calls_in(f) if (dotted(c.func) or "").startswith("msgspec.")]
    if name == "Serialize" and ok:
      # ... and that encoding is what Serialize returns
      rets = [n for n in walk_no_nested(f) if isinstance(n, ast.Return)]
      ok = bool(rets) and all(
          r.value is not None and all(v is sinks[0] for v, _, _ in
                                      _value_sources(mod, f, r.value, r))
          for r in rets)
    ctx.check(ok, f"{name}:pipeline", PICKLE, f.lineno,
              f"{name} must hand the result of serialize_ast.SerializeAst to {sink}",
              {"producer": producers, "sink": [src(s_) for s_ in sinks]})
  # 5. SerializeAst sorts both dependency lists (inline, through a local, or
  #    in a helper of the module that returns them)
  smod = get_module(ctx, SERIALIZE)
  f = smod.func("SerializeAst")
  ctor = [c for c in calls_in(f, name="SerializableAst")]
  if len(ctor) != 1:
    raise AnalysisError("SerializeAst: SerializableAst(...) call not found")
  ctor = ctor[0]
  fields = [n.target.id for n in smod.cls("SerializableAst").body
            if isinstance(n, ast.AnnAssign) and isinstance(n.target, ast.Name)]
  for fld in ("dependencies", "late_dependencies"):
    if fld not in fields:
      raise AnalysisError(f"SerializableAst has no field {fld}")
    pos = fields.index(fld)
    a = kwarg(ctor, fld)
    if a is None and len(ctor.args) > pos and not any(
        isinstance(x, ast.Starred) for x in ctor.args[:pos + 1]):
      a = ctor.args[pos]
    if a is None:
      raise AnalysisError(f"SerializeAst: argument {fld} not found")
    vals = _value_sources(smod, f, a, smod.enclosing_stmt(ctor))
    ok = all(isinstance(v, ast.Call) and dotted(v.func) == "sorted"
             and len(v.args) == 1 and not v.keywords for v, _, _ in vals)
    shown = sorted({src(v) for v, _, _ in vals})
    ctx.check(ok, f"SerializeAst:{fld}-sorted", SERIALIZE, a.lineno,
              f"SerializableAst.{fld} is built from {', '.join(shown)}; the module list "
              "must be sorted (it comes from a dict filled in visiting order)",
              {"value": src(a), "resolved": shown})


@rule("R4.4", "C04", floor=9)
def r4_4(ctx):
  """Deterministic encoder, constant gzip header, sorted dependency lists."""
  _serialisation_instances(ctx)


# -- R4.5 ------------------------------------------------------------------------

def _single_return(fn, what):
  rets = [n for n in walk_no_nested(fn) if isinstance(n, ast.Return) and n.value is not None]
  return rets


def _plain_sorted(expr):
  return isinstance(expr, ast.Call) and dotted(expr.func) == "sorted" and \
      len(expr.args) == 1 and kwarg(expr, "reverse") is None


def _total_key(call):
  """sorted(.., key=K): K is absent, or a lambda whose tuple ends in its arg."""
  k = kwarg(call, "key")
  if k is None:
    return True
  if isinstance(k, ast.Lambda) and len(k.args.args) == 1:
    p = k.args.args[0].arg
    b = k.body
    if isinstance(b, ast.Name) and b.id == p:
      return True
    if isinstance(b, ast.Tuple) and b.elts and isinstance(b.elts[-1], ast.Name) \
        and b.elts[-1].id == p:
      return True
  return False


def _sorted_total(mod, fn, expr, stmt):
  """(ok, text): every value `expr` can have is sorted(..) with a total key."""
  vals = _value_sources(mod, fn, expr, stmt)
  ok = all(_plain_sorted(v) and _total_key(v) for v, _, _ in vals)
  return ok, ", ".join(sorted({src(v) for v, _, _ in vals}))


@rule("R4.5", "C04", floor=4)
def r4_5(ctx):
  """The printer sorts import lines, import targets and TypeVar definitions."""
  mod = get_module(ctx, PRINTER)
  # _TypingImports.to_import_statements: join(sorted(targets))
  fn = mod.func("_TypingImports.to_import_statements")
  joins = [c for c in calls_in(fn) if isinstance(c.func, ast.Attribute)
           and c.func.attr == "join"]
  if len(joins) != 1 or len(joins[0].args) != 1:
    raise AnalysisError("_TypingImports.to_import_statements: expected one join")
  ok, shown = _sorted_total(mod, fn, joins[0].args[0], mod.enclosing_stmt(joins[0]))
  ctx.check(ok,
            "_TypingImports.to_import_statements:targets", PRINTER, fn.lineno,
            f"`from typing import ...` targets are joined from {shown}; they "
            "are collected in first-use order and must be sorted",
            {"joined": shown})
  # _Imports.to_import_statements
  fn = mod.func("_Imports.to_import_statements")
  rets = _single_return(fn, "imports")
  if len(rets) != 1:
    raise AnalysisError("_Imports.to_import_statements: expected one return")
  ok, shown = _sorted_total(mod, fn, rets[0].value, rets[0])
  ctx.check(ok,
            "_Imports.to_import_statements:lines", PRINTER, fn.lineno,
            f"import lines are returned as {shown}; they must be sorted with "
            "a total key (the line itself as the last key component)",
            {"returned": shown})
  joins = [c for c in calls_in(fn) if isinstance(c.func, ast.Attribute)
           and c.func.attr == "join"]
  if len(joins) != 1 or len(joins[0].args) != 1:
    raise AnalysisError("_Imports.to_import_statements: expected one join")
  ok, shown = _sorted_total(mod, fn, joins[0].args[0], mod.enclosing_stmt(joins[0]))
  ctx.check(ok,
            "_Imports.to_import_statements:from-targets", PRINTER, fn.lineno,
            f"`from m import ...` targets are joined from {shown}; must be "
            "sorted", {"joined": shown})
  # _FormatTypeParams
  fn = mod.func("PrintVisitor._FormatTypeParams")
  rets = _single_return(fn, "type params")
  if len(rets) != 1:
    raise AnalysisError("_FormatTypeParams: expected one return")
  ok, shown = _sorted_total(mod, fn, rets[0].value, rets[0])
  ctx.check(ok,
            "_FormatTypeParams:lines", PRINTER, fn.lineno,
            f"TypeVar definition lines are returned as {shown}; must be sorted",
            {"returned": shown})


# -- R4.6 ------------------------------------------------------------------------

@rule("R4.6", "C04", floor=21)
def r4_6(ctx):
  """Set iteration feeding ordered data: output-path modules."""
  _run_set_rule(ctx, _scope_files(ctx, whole=False), _SAFE_OUTPUT_PATH)


@rule("R4.6w", "C04", floor=45, tier="thorough")
def r4_6_whole(ctx):
  """Set iteration feeding ordered data: the rest of the package."""
  quick = set(_scope_files(ctx, whole=False))
  files = [f for f in _scope_files(ctx, whole=True) if f not in quick]
  _run_set_rule(ctx, files, _SAFE_WHOLE_PACKAGE)


# -- R4.8 ------------------------------------------------------------------------
# Who may hold state that outlives one analysis: module-level and class-level
# objects live as long as the process.

_ITER_BUILTINS = {"iter", "map", "filter", "zip", "enumerate", "reversed"}
_MUTATORS = {"append", "add", "update", "setdefault", "pop", "extend", "insert",
             "clear", "remove", "discard", "popitem", "appendleft", "extendleft",
             "popleft", "sort", "reverse", "subtract", "move_to_end",
             "__setitem__", "__delitem__"}
_MUTABLE_CTORS = {"dict", "list", "set", "defaultdict", "OrderedDict", "deque",
                  "Counter", "WeakKeyDictionary", "WeakValueDictionary",
                  "WeakSet", "bytearray", "ChainMap"}
_CLS_METHODS = {"__new__", "__init_subclass__", "__class_getitem__"}
_STATE_EXCLUDED = ("pytype/metrics.py", "pytype/debug.py")
_STATE_EXCLUDED_DIRS = ("pytype/tools/",)


def _plain_tree(ctx, rel):
  def parse():
    try:
      return ast.parse(ctx.read(rel), filename=rel)
    except SyntaxError as e:
      raise AnalysisError(f"{rel} does not parse: {e}") from e
  return ctx.memo(("plain-ast", rel), parse)


def _import_map(tree):
  imp = {}
  for st in ast.walk(tree):
    if isinstance(st, ast.Import):
      for a in st.names:
        imp[a.asname or a.name.split(".")[0]] = a.name if a.asname else a.name.split(".")[0]
    elif isinstance(st, ast.ImportFrom) and st.module:
      for a in st.names:
        imp[a.asname or a.name] = f"{st.module}.{a.name}"
  return imp


def _is_iterator_expr(e, imp):
  """`e`, evaluated once, is (or stores) an object whose state advances with
  every next(): itertools.*, iter/map/zip/..., a generator expression, a bound
  __next__, functools.partial(next, <iterator>), or a display holding one."""
  if isinstance(e, ast.GeneratorExp):
    return True
  if isinstance(e, ast.Call):
    d = dotted(e.func)
    if d:
      head, _, rest = d.partition(".")
      full = imp.get(head, head) + ("." + rest if rest else "")
      if full.startswith("itertools.") or (full in _ITER_BUILTINS and head not in imp):
        return True
      if full in ("functools.partial",) and len(e.args) >= 2 and \
          dotted(e.args[0]) == "next" and _is_iterator_expr(e.args[1], imp):
        return True
    # a call that is handed a bound __next__ keeps the iterator alive
    for a in list(e.args) + [k.value for k in e.keywords]:
      if isinstance(a, ast.Attribute) and a.attr == "__next__" and \
          _is_iterator_expr(a.value, imp):
        return True
    return False
  if isinstance(e, ast.Attribute) and e.attr == "__next__":
    return _is_iterator_expr(e.value, imp)
  if isinstance(e, (ast.List, ast.Tuple, ast.Set)):
    return any(_is_iterator_expr(x, imp) for x in e.elts)
  if isinstance(e, ast.Dict):
    return any(v is not None and _is_iterator_expr(v, imp) for v in e.values)
  if isinstance(e, ast.IfExp):
    return _is_iterator_expr(e.body, imp) or _is_iterator_expr(e.orelse, imp)
  if isinstance(e, ast.BoolOp):
    return any(_is_iterator_expr(v, imp) for v in e.values)
  return False


def _is_mutable_container(e):
  if isinstance(e, (ast.Dict, ast.List, ast.Set, ast.ListComp, ast.DictComp, ast.SetComp)):
    return True
  if isinstance(e, ast.Call):
    return (dotted(e.func) or "").split(".")[-1] in _MUTABLE_CTORS
  return False


def _scope_assignments(body):
  """(name, value, line) bound by the statements of a module/class body,
  looking through if/try/with blocks but not into functions or classes."""
  for st in body:
    if isinstance(st, ast.Assign):
      for t in st.targets:
        if isinstance(t, ast.Name):
          yield t.id, st.value, st.lineno
        elif isinstance(t, (ast.Tuple, ast.List)) and isinstance(
            st.value, (ast.Tuple, ast.List)) and len(t.elts) == len(st.value.elts):
          for a, b in zip(t.elts, st.value.elts):
            if isinstance(a, ast.Name):
              yield a.id, b, st.lineno
    elif isinstance(st, ast.AnnAssign) and isinstance(st.target, ast.Name) \
        and st.value is not None:
      yield st.target.id, st.value, st.lineno
    elif isinstance(st, (ast.If, ast.Try, ast.With, ast.For, ast.While)):
      for fld in ("body", "orelse", "finalbody"):
        yield from _scope_assignments(getattr(st, fld, []) or [])
      for h in getattr(st, "handlers", []) or []:
        yield from _scope_assignments(h.body)


def _all_classes(body, prefix=""):
  for st in body:
    if isinstance(st, ast.ClassDef):
      q = prefix + st.name
      yield q, st
      yield from _all_classes(st.body, q + ".")
    elif isinstance(st, (ast.If, ast.Try)):
      for fld in ("body", "orelse", "finalbody"):
        yield from _all_classes(getattr(st, fld, []) or [], prefix)


def _functions_with_class(node, cls=None, out=None):
  """(function, innermost enclosing class qualname or None) for every def."""
  out = [] if out is None else out
  for ch in ast.iter_child_nodes(node):
    if isinstance(ch, ast.ClassDef):
      _functions_with_class(ch, ch.name if cls is None else f"{cls}.{ch.name}", out)
    elif isinstance(ch, _FUNC):
      out.append((ch, cls))
      _functions_with_class(ch, cls, out)
    else:
      _functions_with_class(ch, cls, out)
  return out


def _local_names(fn):
  a = fn.args
  names = {p.arg for p in a.posonlyargs + a.args + a.kwonlyargs}
  names |= {p.arg for p in (a.vararg, a.kwarg) if p is not None}
  glob = set()
  for n in walk_no_nested(fn):
    if isinstance(n, ast.Global):
      glob.update(n.names)
    elif isinstance(n, ast.Name) and isinstance(n.ctx, (ast.Store, ast.Del)):
      names.add(n.id)
    elif isinstance(n, (ast.Import, ast.ImportFrom)):
      names.update((al.asname or al.name).split(".")[0] for al in n.names)
    elif isinstance(n, _FUNC + (ast.ClassDef,)):
      names.add(n.name)
    elif isinstance(n, ast.ExceptHandler) and n.name:
      names.add(n.name)
  return names - glob, glob


def _store_targets(n):
  """Expressions (re)bound or deleted by statement/expression n."""
  if isinstance(n, ast.Assign):
    todo = list(n.targets)
  elif isinstance(n, (ast.AugAssign, ast.NamedExpr)):
    todo = [n.target]
  elif isinstance(n, ast.AnnAssign):
    todo = [n.target] if n.value is not None else []
  elif isinstance(n, ast.Delete):
    todo = list(n.targets)
  elif isinstance(n, (ast.For, ast.AsyncFor, ast.comprehension)):
    todo = [n.target]
  elif isinstance(n, (ast.With, ast.AsyncWith)):
    todo = [i.optional_vars for i in n.items if i.optional_vars is not None]
  else:
    return []
  out = []
  while todo:
    t = todo.pop()
    if isinstance(t, (ast.Tuple, ast.List)):
      todo.extend(t.elts)
    elif isinstance(t, ast.Starred):
      todo.append(t.value)
    else:
      out.append(t)
  return out


def _class_store_re(class_names):
  """Text pre-filter: an attribute store through something that can denote a
  class object (`cls.X =`, `C.X +=`, `type(self).X =`, `x.__class__.X =`)."""
  import re
  alts = ["cls", r"__class__", r"type\([^()]*\)"] + [re.escape(c) for c in sorted(class_names)]
  return re.compile(r"(?:\b(?:%s))\s*\.\s*\w+\s*(?::[^=\n]+)?(?:[-+*/|&^%%@]|//|<<|>>|\*\*)?=(?!=)"
                    % "|".join(alts))


def _scan_state_holders(ctx, rel):
  """{qualified name: {"kinds": set, "line": int, "how": [text]}} for one file."""
  tree = _plain_tree(ctx, rel)
  imp = _import_map(tree)
  holders = {}

  def hold(qual, kind, line, how):
    h = holders.setdefault(qual, {"kinds": set(), "line": line, "how": []})
    h["kinds"].add(kind)
    if len(h["how"]) < 3:
      how = how if isinstance(how, str) else f"{how[0]}: {src(how[1])}"
      h["how"].append(how[:70])

  mod_vals = {}
  for name, val, line in _scope_assignments(tree.body):
    mod_vals[name] = (val, line)
    if _is_iterator_expr(val, imp):
      hold(name, "iterator", line, f"{name} = {src(val)}")
  classes = dict(_all_classes(tree.body))
  top_classes = {q for q in classes if "." not in q}
  cls_mut = {}       # attr -> [class qualname]
  cls_lines = {}
  for q, cd in classes.items():
    for name, val, line in _scope_assignments(cd.body):
      if _is_iterator_expr(val, imp):
        hold(f"{q}.{name}", "iterator", line, f"{name} = {src(val)}")
      if _is_mutable_container(val):
        cls_mut.setdefault(name, []).append(q)
        cls_lines[(q, name)] = line
  mod_mut = {n for n, (v, _) in mod_vals.items() if _is_mutable_container(v)}
  # the function bodies matter only if there is something they could touch
  text = ctx.read(rel)
  if not (mod_mut or cls_mut or "global " in text or "setattr(" in text
          or _class_store_re(top_classes).search(text)):
    return holders
  # attributes that some code rebinds on an instance: `x.A = ...`
  inst_rebound = set()
  if cls_mut:
    for n in ast.walk(tree):
      if isinstance(n, (ast.Assign, ast.AnnAssign)):
        for t in _store_targets(n):
          if isinstance(t, ast.Attribute):
            inst_rebound.add(t.attr)

  for fn, cls in _functions_with_class(tree):
    local, glob = _local_names(fn)
    first = fn.args.args[0].arg if fn.args.args else None
    is_clsmeth = any(dotted(d) == "classmethod" for d in fn.decorator_list) \
        or fn.name in _CLS_METHODS

    def class_ref(e):
      """Qualified class name if `e` denotes a class object, else None."""
      if isinstance(e, ast.Name):
        if e.id in top_classes and e.id not in local:
          return e.id
        if is_clsmeth and cls and e.id == first:
          return cls
        return None
      if isinstance(e, ast.Call) and dotted(e.func) == "type" and len(e.args) == 1:
        return cls or "<type(...)>"
      if isinstance(e, ast.Attribute) and e.attr == "__class__":
        return cls or "<__class__>"
      return None

    def _mutation(recv, line, fn=fn, text="", local=local, class_ref=class_ref):
      """`recv` is mutated in place (item store/delete or mutator call)."""
      if isinstance(recv, ast.Name):
        if recv.id in mod_mut and recv.id not in local:
          hold(recv.id, "container-mutation", line, (fn.name, text))
      elif isinstance(recv, ast.Attribute) and recv.attr in cls_mut and \
          recv.attr not in inst_rebound:
        c = class_ref(recv.value)
        owners = [c] if c in cls_mut[recv.attr] else cls_mut[recv.attr]
        for q in owners:
          hold(f"{q}.{recv.attr}", "container-mutation", line, (fn.name, text))

    for n in walk_no_nested(fn):
      for t in _store_targets(n):
        if isinstance(t, ast.Name) and t.id in glob:
          hold(t.id, "global-rebind", n.lineno if hasattr(n, "lineno") else fn.lineno,
               f"{fn.name}: global {t.id}")
        elif isinstance(t, ast.Attribute):
          c = class_ref(t.value)
          if c:
            hold(f"{c}.{t.attr}", "class-attr-rebind", t.lineno, (fn.name, n))
          elif isinstance(t.value, ast.Name) and t.value.id not in local and \
              t.value.id in imp and not isinstance(n, ast.AnnAssign):
            hold(f"{imp[t.value.id]}.{t.attr}", "foreign-module-attr", t.lineno,
                 f"{fn.name}: {src(n)}")
        elif isinstance(t, ast.Subscript):
          _mutation(t.value, t.lineno, text=n)
      if isinstance(n, ast.Call):
        d = dotted(n.func)
        if d == "setattr" and len(n.args) == 3 and class_ref(n.args[0]):
          a = n.args[1].value if isinstance(n.args[1], ast.Constant) else "<computed>"
          hold(f"{class_ref(n.args[0])}.{a}", "class-attr-rebind", n.lineno,
               f"{fn.name}: {src(n)}")
        elif isinstance(n.func, ast.Attribute) and n.func.attr in _MUTATORS:
          _mutation(n.func.value, n.lineno, text=n)
  return holders



# Triaged state holders (frozen): (file, qualified name) -> (allowed kinds,
# why the state cannot make one analysis depend on an earlier one).  Every
# entry was decided by reading the code on the reference tree.
_STATE_HOLDERS = {
    ("pytype/abstract/_singletons.py", "Singleton._instance"): (
        ("class-attr-rebind",),
        "per-class singleton object: Python runs __init__(name, ctx) on the "
        "object __new__ returns at every construction, which re-initialises "
        "name, ctx and class; only the object's identity is shared"),
    ("pytype/abstract/_singletons.py", "Unknown._current_id"): (
        ("class-attr-rebind",),
        "numbers the internal names ~unknownN: every ~unknown class/type is "
        "removed (RemoveUnknownClasses, convert_structural.extract_local) or "
        "replaced by its solution (insert_solution) before any output, and "
        "diagnostics print an Unknown as Any (print_pytd applies "
        "RemoveUnknownClasses); the number itself only reaches the log"),
    ("pytype/errors/errors.py", "_ERROR_NAMES"): (
        ("container-mutation",),
        "filled by the @_error_name decorator while errors.py is imported; "
        "constant afterwards"),
    ("pytype/imports/builtin_stubs.py", "_cached_builtins_pytd"): (
        ("container-mutation",),
        "since fix 12ebd0a (D48) a dict keyed by dataclasses.astuple(options): "
        "the value is the parse of the bundled stubs under exactly those "
        "options, a function of the key and pytype's own files; before the "
        "fix it was a one-slot list that served the first parse to every "
        "later analysis whatever its options"),
    ("pytype/overlays/fiddle_overlay.py", "_INSTANCE_CACHE"): (
        ("container-mutation",),
        "keyed by (ctx.root_node, abstract class, kind): the key consists of "
        "objects of one analysis context, which the cache keeps alive, so a "
        "later analysis can never produce an equal key; memory only"),
    ("pytype/pytd/base_visitor.py", "Visitor._visitor_functions_cache"): (
        ("container-mutation",),
        "keyed by visitor class; the value is the table of that class's "
        "Enter/Visit/Leave methods, a function of the class definition"),
    ("pytype/pytd/base_visitor.py", "_ancestor_map"): (
        ("global-rebind",),
        "computed once, lazily, from the field types of the pytd node "
        "classes: a pure function of pytype's own source"),
    ("pytype/pytd/parse/node.py", "_visiting"): (
        ("container-mutation",),
        "names of the visitors on the call stack, read only to label "
        "metrics; add/remove are paired by try/finally"),
    ("pytype/pytd/pytd.py", "Class._name2item"): (
        ("container-mutation",),
        "a msgspec struct *field* with a mutable default: msgspec copies {} "
        "for every instance, the dict is not shared through the class"),
    ("pytype/pytd/pytd.py", "TypeDeclUnit._name2item"): (
        ("container-mutation",),
        "a msgspec struct *field* with a mutable default: msgspec copies {} "
        "for every instance, the dict is not shared through the class"),
    ("pytype/rewrite/overlays/overlays.py", "CLASS_TRANSFORMS"): (
        ("container-mutation",),
        "registration table filled by the @register_class_transform "
        "decorators while the overlay modules are imported"),
    ("pytype/rewrite/overlays/overlays.py", "FUNCTIONS"): (
        ("container-mutation",),
        "registration table filled by the @register_function decorators "
        "while the overlay modules are imported"),
}


@rule("R4.8", "C04", floor=12)
def r4_8(ctx):
  """No untriaged process-lifetime state holder in the analysis modules."""
  files = [f for f in all_py_files(ctx)
           if not _is_test(f) and f not in _STATE_EXCLUDED
           and not f.startswith(_STATE_EXCLUDED_DIRS)]
  if len(files) < 150:
    raise AnalysisError(f"only {len(files)} analysis modules found under pytype/")
  seen = set()
  total = 0
  for rel in files:
    for qual, h in sorted(_scan_state_holders(ctx, rel).items()):
      total += 1
      construct = f"{rel.removeprefix('pytype/')}:{qual}"
      kinds = sorted(h["kinds"])
      facts = {"kinds": kinds, "how": h["how"]}
      entry = _STATE_HOLDERS.get((rel, qual))
      if entry is None:
        ctx.bad(construct, rel, h["line"],
                f"`{qual}` in {rel} is state that lives as long as the process "
                f"({', '.join(kinds)}: {'; '.join(h['how'])}) and is not in the "
                "triaged table: what one analysis leaves in it is seen by the "
                "next analysis in the same process, so the output for a fixed "
                "source and options can depend on what was analysed before",
                facts)
        continue
      seen.add((rel, qual))
      extra = [k for k in kinds if k not in entry[0]]
      if extra:
        ctx.bad(f"{construct}:new-kind={','.join(extra)}", rel, h["line"],
                f"`{qual}` was triaged as {list(entry[0])} ({entry[1]}) but is "
                f"now also changed by {extra}: {'; '.join(h['how'])}", facts)
        continue
      ctx.ok(construct, rel, h["line"], facts | {"triaged": entry[1]})
  ctx.ok("scope", "pytype/", 0, {"modules_scanned": len(files), "state_holders": total,
                                 "excluded": list(_STATE_EXCLUDED + _STATE_EXCLUDED_DIRS)})
  for k in _STATE_HOLDERS:
    if k not in seen and k[0] in files:
      ctx.note(f"R4.8 triage entry no longer matches a state holder: {k}")


TYPING_OVERLAY = "pytype/overlays/typing_overlay.py"
_NEWTYPE_COUNTER = ("    val = self._internal_name_counter\n"
                    "    self._internal_name_counter += 1\n    return val\n")
_BUILTIN_STUBS = "pytype/imports/builtin_stubs.py"
# (was: edits that dropped the process-wide builtins cache, which R4.8 reported
# on the reference tree; since the cache is keyed by the options - D48, R4.9 -
# it is a triaged holder and the twins below apply to the tree as it is)
_NO_BUILTINS_CACHE = []

_FORMSET_LOOP = ("      for compat, name in pep484.get_compat_items():\n"
                 "        # name can replace compat.\n"
                 "        if compat in type_list and name in type_list:\n"
                 "          del type_list[compat]\n")

_FROM_TARGETS_JOIN = (
    '      targets = ", ".join(\n          sorted(\n'
    '              f"{name} as {alias}" if alias != name else name\n'
    '              for alias, name in members.items()\n          )\n      )\n'
    '      imports.append(f"from {module} import {targets}")\n')
_SOLVE_LOOP = (
    "      and_terms = []\n"
    "      for var in self.variables:\n"
    "        or_terms = []\n"
    "        for value in assignments[var].copy():\n"
    "          implication = self.implications[var][value].simplify(assignments)\n"
    "          if implication is FALSE:\n"
    "            # As an example of what kind of code triggers this,\n"
    "            # see TestBoolEq.testFilter\n"
    "            assignments[var].remove(value)\n"
    "            something_changed = True\n"
    "          else:\n"
    "            or_terms.append(implication)\n"
    "          self.implications[var][value] = implication\n"
    "        and_terms.append(Or(or_terms))\n"
    "      d = And(and_terms)\n")
_SOLVE_HELPER = (
    "  def _simplify_implications(self, assignments):\n"
    "    value_removed = False\n"
    "    and_terms = []\n"
    "    for var in self.variables:\n"
    "      or_terms = []\n"
    "      for value in assignments[var].copy():\n"
    "        implication = self.implications[var][value].simplify(assignments)\n"
    "        if implication is FALSE:\n"
    "          assignments[var].remove(value)\n"
    "          value_removed = True\n"
    "        else:\n"
    "          or_terms.append(implication)\n"
    "        self.implications[var][value] = implication\n"
    "      and_terms.append(Or(or_terms))\n"
    "    return And(and_terms), value_removed\n\n")
_SOLVE_SPLIT = [
    ("pytype/pytd/booleq.py", "  def solve(self):\n    \"\"\"Solve the system of equations.",
     _SOLVE_HELPER + "  def solve(self):\n    \"\"\"Solve the system of equations."),
    ("pytype/pytd/booleq.py", "      something_changed = False\n\n" + _SOLVE_LOOP,
     "      d, something_changed = self._simplify_implications(assignments)\n"),
]

_FINALIZE_EDITS = [
    (IO, "    mod = ret.ast\n    mod.Visit(visitors.VerifyVisitor())\n    mod = optimize.Optimize(\n        mod,\n        ret.ast_deps,\n        lossy=False,\n        use_abcs=False,\n        max_union=7,\n        remove_mutable=False,\n    )\n    mod = pytd_utils.CanonicalOrdering(mod)\n",
     "    mod = _finalize_inferred_ast(ret.ast, ret.ast_deps)\n"),
    (IO, "def generate_pyi_ast(\n",
     "def _finalize_inferred_ast(mod, ast_deps):\n  mod.Visit(visitors.VerifyVisitor())\n  mod = optimize.Optimize(\n      mod,\n      ast_deps,\n      lossy=False,\n      use_abcs=False,\n      max_union=7,\n      remove_mutable=False,\n  )\n  return pytd_utils.CanonicalOrdering(mod)\n\n\ndef generate_pyi_ast(\n"),
]
_SORTED_TUPLE_EDITS = [
    (PYTD_VISITORS, "class CanonicalOrderingVisitor(base_visitor.Visitor):",
     "def _SortedTuple(items):\n  return tuple(sorted(items))\n\n\nclass CanonicalOrderingVisitor(base_visitor.Visitor):"),
    (PYTD_VISITORS, "        functions=tuple(sorted(node.functions)),", "        functions=_SortedTuple(node.functions),"),
    (PYTD_VISITORS, "        methods=tuple(sorted(node.methods)),", "        methods=_SortedTuple(node.methods),"),
    (PYTD_VISITORS, "        exceptions=tuple(sorted(node.exceptions)),", "        exceptions=_SortedTuple(node.exceptions),"),
    (PYTD_VISITORS, "    return pytd.UnionType(tuple(sorted(node.type_list)))", "    return pytd.UnionType(_SortedTuple(node.type_list))"),
]
_CONSTANTS_IF = ("    if self._PreserveConstantsOrdering(node):\n      constants = node.constants\n"
                 "    else:\n      constants = sorted(node.constants)\n")
_GZIP_HELPER_EDITS = [
    (PICKLE, "def Save(\n",
     "_GZIP_MTIME = 1.0\n\n\ndef _DeterministicGzipWriter(fi):\n  return gzip.GzipFile(filename=\"\", mode=\"wb\", fileobj=fi, mtime=_GZIP_MTIME)\n\n\ndef Save(\n"),
    (PICKLE, "      with gzip.GzipFile(filename=\"\", mode=\"wb\", fileobj=fi, mtime=1.0) as zfi:",
     "      with _DeterministicGzipWriter(fi) as zfi:"),
]
_COVER_LOOP = ("    c = collections.Counter()\n    for t in set(union.type_list):\n"
               "      if isinstance(t, pytd.GENERIC_BASE_TYPE):\n"
               "        c += collections.Counter(self.hierarchy.ExpandSubClasses(str(t)))\n")

VARIANTS = [
    # -- R4.1 ---------------------------------------------------------------
    {"name": "drop-CanonicalOrdering", "rule": "R4.1", "file": IO, "expect": "fire",
     "old": "    mod = pytd_utils.CanonicalOrdering(mod)\n  ret.ast = mod",
     "new": "  ret.ast = mod"},
    {"name": "canonical-before-optimize", "rule": "R4.1", "expect": "fire",
     "edits": [
         (IO, "    mod.Visit(visitors.VerifyVisitor())\n    mod = optimize.Optimize(",
          "    mod.Visit(visitors.VerifyVisitor())\n    mod = pytd_utils.CanonicalOrdering(mod)\n    opt = optimize.Optimize("),
         (IO, "    mod = pytd_utils.CanonicalOrdering(mod)\n  ret.ast = mod",
          "    mod = opt\n  ret.ast = mod")]},
    {"name": "quick-mode-returns-before-canonicalisation", "rule": "R4.1", "file": IO,
     "expect": "fire",
     "old": "    mod = ret.ast\n    mod.Visit(visitors.VerifyVisitor())",
     "new": "    mod = ret.ast\n    if options.quick:\n      return ret\n    mod.Visit(visitors.VerifyVisitor())"},
    {"name": "generate_pyi-prints-raw-inference", "rule": "R4.1", "file": IO,
     "expect": "fire",
     "old": "  ret = generate_pyi_ast(src, options, loader)\n  return ret, _output_ast(ret.ast, options)",
     "new": "  ret = generate_pyi_ast(src, options, loader)\n  raw = _call(analyze.infer_types, src, options, loader)\n  return ret, _output_ast(raw.ast, options)"},
    {"name": "CanonicalOrdering-wrong-visitor", "rule": "R4.1", "file": PYTD_UTILS,
     "expect": "fire",
     "old": "  return n.Visit(pytd_visitors.CanonicalOrderingVisitor())",
     "new": "  return n.Visit(pytd_visitors.ClassTypeToNamedType())"},
    {"name": "twin-rename-canonical-local", "rule": "R4.1", "file": IO, "expect": "silent",
     "old": "    mod = pytd_utils.CanonicalOrdering(mod)\n  ret.ast = mod",
     "new": "    canonical = pytd_utils.CanonicalOrdering(mod)\n  ret.ast = canonical"},
    {"name": "twin-store-call-result-directly", "rule": "R4.1", "file": IO, "expect": "silent",
     "old": "    mod = pytd_utils.CanonicalOrdering(mod)\n  ret.ast = mod",
     "new": "  ret.ast = pytd_utils.CanonicalOrdering(mod)"},
    # -- R4.2 ---------------------------------------------------------------
    {"name": "class-methods-unsorted", "rule": "R4.2", "file": PYTD_VISITORS, "expect": "fire",
     "old": "        methods=tuple(sorted(node.methods)),",
     "new": "        methods=node.methods,"},
    {"name": "unit-aliases-unsorted", "rule": "R4.2", "file": PYTD_VISITORS, "expect": "fire",
     "old": "        aliases=tuple(sorted(node.aliases)),",
     "new": "        aliases=node.aliases,"},
    {"name": "union-members-unsorted", "rule": "R4.2", "file": PYTD_VISITORS, "expect": "fire",
     "old": "    return pytd.UnionType(tuple(sorted(node.type_list)))",
     "new": "    return pytd.UnionType(tuple(node.type_list))"},
    {"name": "class-constants-never-sorted", "rule": "R4.2", "file": PYTD_VISITORS, "expect": "fire",
     "old": "      constants = sorted(node.constants)",
     "new": "      constants = node.constants"},
    {"name": "signature-exceptions-unsorted", "rule": "R4.2", "file": PYTD_VISITORS, "expect": "fire",
     "old": "        exceptions=tuple(sorted(node.exceptions)),\n", "new": ""},
    {"name": "functions-sorted-from-wrong-field", "rule": "R4.2", "file": PYTD_VISITORS, "expect": "fire",
     "old": "        functions=tuple(sorted(node.functions)),",
     "new": "        functions=tuple(sorted(node.classes)),"},
    {"name": "new-tuple-field-not-canonicalised", "rule": "R4.2", "file": "pytype/pytd/pytd.py",
     "expect": "fire",
     "old": "  slots: tuple[str, ...] | None\n",
     "new": "  slots: tuple[str, ...] | None\n  final_names: tuple[str, ...] = ()\n"},
    {"name": "preserve-constants-always-true", "rule": "R4.2", "file": PYTD_VISITORS,
     "expect": "fire",
     "old": "    # The order of a namedtuple's fields should always be preserved.\n    return IsNamedTuple(node)",
     "new": "    # The order of a namedtuple's fields should always be preserved.\n    return True"},
    {"name": "twin-more-dataclass-like-decorators", "rule": "R4.2", "file": PYTD_VISITORS,
     "expect": "silent",
     "old": "x.name in (\"attr.s\", \"dataclasses.dataclass\") for x in node.decorators",
     "new": "x.name in (\"attr.s\", \"attr.define\", \"dataclasses.dataclass\") for x in node.decorators"},
    {"name": "twin-sorted-tuple-in-branch", "rule": "R4.2", "file": PYTD_VISITORS, "expect": "silent",
     "old": "      constants = sorted(node.constants)",
     "new": "      constants = tuple(sorted(node.constants))"},
    {"name": "twin-slots-conditional-flipped", "rule": "R4.2", "file": PYTD_VISITORS, "expect": "silent",
     "old": "        slots=tuple(sorted(node.slots)) if node.slots is not None else None,",
     "new": "        slots=None if node.slots is None else tuple(sorted(node.slots)),"},
    # -- R4.3 ---------------------------------------------------------------
    {"name": "errors-unsorted", "rule": "R4.3", "file": ERRORS, "expect": "fire",
     "old": "    return sorted(self._errors, key=lambda x: (x.filename or \"\", x.line))",
     "new": "    return list(self._errors)"},
    {"name": "sort-key-drops-line", "rule": "R4.3", "file": ERRORS, "expect": "fire",
     "old": "key=lambda x: (x.filename or \"\", x.line))",
     "new": "key=lambda x: x.filename or \"\")"},
    {"name": "print_to_file-reads-raw-log", "rule": "R4.3", "file": ERRORS, "expect": "fire",
     "old": "  def print_to_file(self, fi: IO[str], *, color: bool = False):\n    for error in self.unique_sorted_errors():",
     "new": "  def print_to_file(self, fi: IO[str], *, color: bool = False):\n    for error in self._errors:"},
    {"name": "unique-errors-skip-sort", "rule": "R4.3", "file": ERRORS, "expect": "fire",
     "old": "    for error in self._sorted_errors():",
     "new": "    for error in self._errors:"},
    {"name": "handle_errors-prints-raw-log", "rule": "R4.3", "file": IO, "expect": "fire",
     "old": "  errorlog.print_to_stderr(color=options.color)",
     "new": "  for e in errorlog:\n    print(e.as_string(color=options.color), file=sys.stderr)"},
    {"name": "doc-url-pops-from-any-set", "rule": "R4.3", "file": IO, "expect": "fire",
     "old": "    if len(names) == 1:\n      doclink += \"#\" + names.pop()",
     "new": "    if names:\n      doclink += \"#\" + names.pop()"},
    {"name": "twin-rename-sort-key-param", "rule": "R4.3", "file": ERRORS, "expect": "silent",
     "old": "key=lambda x: (x.filename or \"\", x.line))",
     "new": "key=lambda err: (err.filename or \"\", err.line))"},
    # -- R4.4 ---------------------------------------------------------------
    {"name": "encoder-order-none", "rule": "R4.4", "file": "pytype/imports/pickle_utils.py",
     "expect": "fire",
     "old": "Encoder = msgspec.msgpack.Encoder(order=\"deterministic\")",
     "new": "Encoder = msgspec.msgpack.Encoder(order=None)"},
    {"name": "encoder-default-order", "rule": "R4.4", "file": "pytype/imports/pickle_utils.py",
     "expect": "fire",
     "old": "Encoder = msgspec.msgpack.Encoder(order=\"deterministic\")",
     "new": "Encoder = msgspec.msgpack.Encoder()"},
    {"name": "encode-bypasses-encoder", "rule": "R4.4", "file": "pytype/imports/pickle_utils.py",
     "expect": "fire",
     "old": "  return Encoder.encode(obj)", "new": "  return msgspec.msgpack.encode(obj)"},
    {"name": "gzip-live-mtime", "rule": "R4.4", "file": "pytype/imports/pickle_utils.py",
     "expect": "fire", "old": "fileobj=fi, mtime=1.0)", "new": "fileobj=fi, mtime=time.time())"},
    {"name": "gzip-default-mtime", "rule": "R4.4", "file": "pytype/imports/pickle_utils.py",
     "expect": "fire", "old": "fileobj=fi, mtime=1.0)", "new": "fileobj=fi)"},
    {"name": "gzip-header-carries-filename", "rule": "R4.4", "file": "pytype/imports/pickle_utils.py",
     "expect": "fire", "old": "gzip.GzipFile(filename=\"\", mode=\"wb\"",
     "new": "gzip.GzipFile(mode=\"wb\""},
    {"name": "dependencies-unsorted", "rule": "R4.4", "file": "pytype/pytd/serialize_ast.py",
     "expect": "fire", "old": "      sorted(dependencies.items()),",
     "new": "      list(dependencies.items()),"},
    {"name": "late-dependencies-unsorted", "rule": "R4.4", "file": "pytype/pytd/serialize_ast.py",
     "expect": "fire", "old": "      sorted(late_dependencies.items()),",
     "new": "      list(late_dependencies.items()),"},
    {"name": "twin-encoder-order-sorted", "rule": "R4.4", "file": "pytype/imports/pickle_utils.py",
     "expect": "silent",
     "old": "Encoder = msgspec.msgpack.Encoder(order=\"deterministic\")",
     "new": "Encoder = msgspec.msgpack.Encoder(order=\"sorted\")"},
    {"name": "twin-other-constant-mtime", "rule": "R4.4", "file": "pytype/imports/pickle_utils.py",
     "expect": "silent", "old": "fileobj=fi, mtime=1.0)", "new": "fileobj=fi, mtime=0)"},
    {"name": "twin-dependency-lists-by-keyword", "rule": "R4.4",
     "file": "pytype/pytd/serialize_ast.py", "expect": "silent",
     "old": "      sorted(dependencies.items()),\n      sorted(late_dependencies.items()),",
     "new": "      late_dependencies=sorted(late_dependencies.items()),\n      dependencies=sorted(dependencies.items()),"},
    # R4.4 on refactored shapes
    {"name": "twin-benign-C12-r2-serializeast-split", "rule": "R4.4", "patch": "benign/C12-r2/patch.diff", "expect": "silent"},
    {"name": "twin-benign-C12-r4-temporaries-inlined", "rule": "R4.4", "patch": "benign/C12-r4/patch.diff", "expect": "silent"},
    {"name": "twin-dependency-list-hoisted-into-local", "rule": "R4.4", "file": "pytype/pytd/serialize_ast.py",
     "expect": "silent",
     "edits": [("pytype/pytd/serialize_ast.py", "  metadata = metadata or []\n\n  return SerializableAst(\n      ast,\n      sorted(dependencies.items()),",
                "  metadata = metadata or []\n  dep_list = sorted(dependencies.items())\n\n  return SerializableAst(\n      ast,\n      dep_list,")]},
    {"name": "hoisted-dependency-list-unsorted", "rule": "R4.4", "expect": "fire",
     "edits": [("pytype/pytd/serialize_ast.py", "  metadata = metadata or []\n\n  return SerializableAst(\n      ast,\n      sorted(dependencies.items()),",
                "  metadata = metadata or []\n  dep_list = list(dependencies.items())\n\n  return SerializableAst(\n      ast,\n      dep_list,")]},
    {"name": "hoisted-dependency-list-sorted-on-one-path-only", "rule": "R4.4", "expect": "fire",
     "edits": [("pytype/pytd/serialize_ast.py", "  metadata = metadata or []\n\n  return SerializableAst(\n      ast,\n      sorted(dependencies.items()),",
                "  metadata = metadata or []\n  dep_list = sorted(dependencies.items())\n  if src_path:\n    dep_list = list(dependencies.items())\n\n  return SerializableAst(\n      ast,\n      dep_list,")]},
    {"name": "hoisted-dependency-list-changed-in-place", "rule": "R4.4", "expect": "error",
     "edits": [("pytype/pytd/serialize_ast.py", "  metadata = metadata or []\n\n  return SerializableAst(\n      ast,\n      sorted(dependencies.items()),",
                "  metadata = metadata or []\n  dep_list = sorted(dependencies.items())\n  dep_list.extend(late_dependencies.items())\n\n  return SerializableAst(\n      ast,\n      dep_list,")]},
    {"name": "twin-dependency-lists-from-helper-tuple", "rule": "R4.4", "expect": "silent",
     "edits": [("pytype/pytd/serialize_ast.py", "def SerializeAst(ast, src_path=None, metadata=None) -> SerializableAst:",
                "def _SortedDeps(deps):\n  return (\n      sorted(deps.dependencies.items()),\n      sorted(deps.late_dependencies.items()),\n  )\n\n\ndef SerializeAst(ast, src_path=None, metadata=None) -> SerializableAst:"),
               ("pytype/pytd/serialize_ast.py", "  dependencies = deps.dependencies\n  late_dependencies = deps.late_dependencies\n",
                "  dependencies, late_dependencies = _SortedDeps(deps)\n"),
               ("pytype/pytd/serialize_ast.py", "      sorted(dependencies.items()),\n      sorted(late_dependencies.items()),\n",
                "      dependencies,\n      late_dependencies,\n")]},
    {"name": "helper-tuple-second-list-unsorted", "rule": "R4.4", "expect": "fire",
     "edits": [("pytype/pytd/serialize_ast.py", "def SerializeAst(ast, src_path=None, metadata=None) -> SerializableAst:",
                "def _SortedDeps(deps):\n  return (\n      sorted(deps.dependencies.items()),\n      list(deps.late_dependencies.items()),\n  )\n\n\ndef SerializeAst(ast, src_path=None, metadata=None) -> SerializableAst:"),
               ("pytype/pytd/serialize_ast.py", "  dependencies = deps.dependencies\n  late_dependencies = deps.late_dependencies\n",
                "  dependencies, late_dependencies = _SortedDeps(deps)\n"),
               ("pytype/pytd/serialize_ast.py", "      sorted(dependencies.items()),\n      sorted(late_dependencies.items()),\n",
                "      dependencies,\n      late_dependencies,\n")]},
    {"name": "helper-tuple-lists-swapped-unsorted-first", "rule": "R4.4", "expect": "fire",
     "edits": [("pytype/pytd/serialize_ast.py", "def SerializeAst(ast, src_path=None, metadata=None) -> SerializableAst:",
                "def _SortedDeps(deps):\n  if not deps.dependencies:\n    return [], sorted(deps.late_dependencies.items())\n  return (\n      list(deps.dependencies.items()),\n      sorted(deps.late_dependencies.items()),\n  )\n\n\ndef SerializeAst(ast, src_path=None, metadata=None) -> SerializableAst:"),
               ("pytype/pytd/serialize_ast.py", "  dependencies = deps.dependencies\n  late_dependencies = deps.late_dependencies\n",
                "  dependencies, late_dependencies = _SortedDeps(deps)\n"),
               ("pytype/pytd/serialize_ast.py", "      sorted(dependencies.items()),\n      sorted(late_dependencies.items()),\n",
                "      dependencies,\n      late_dependencies,\n")]},
    {"name": "twin-serialize-inlined-temporary", "rule": "R4.4", "file": "pytype/imports/pickle_utils.py", "expect": "silent",
     "old": "  out = serialize_ast.SerializeAst(ast, src_path, metadata)\n  return Encode(out)\n",
     "new": "  return Encode(serialize_ast.SerializeAst(ast, src_path, metadata))\n"},
    {"name": "serialize-encodes-only-the-ast-field", "rule": "R4.4", "file": "pytype/imports/pickle_utils.py", "expect": "fire",
     "old": "  out = serialize_ast.SerializeAst(ast, src_path, metadata)\n  return Encode(out)\n",
     "new": "  return Encode(serialize_ast.SerializeAst(ast, src_path, metadata).ast)\n"},
    {"name": "serialize-returns-msgspec-encoding-of-temporary", "rule": "R4.4", "file": "pytype/imports/pickle_utils.py", "expect": "fire",
     "old": "  out = serialize_ast.SerializeAst(ast, src_path, metadata)\n  return Encode(out)\n",
     "new": "  out = serialize_ast.SerializeAst(ast, src_path, metadata)\n  Encode(out)\n  return msgspec.msgpack.encode(out)\n"},
    {"name": "save-receives-unserialised-ast", "rule": "R4.4", "file": "pytype/imports/pickle_utils.py", "expect": "fire",
     "old": "  out = serialize_ast.SerializeAst(ast, src_path, metadata)\n  Save(out, filename, compress, open_function)\n",
     "new": "  Save(ast, filename, compress, open_function)\n"},
    # second batch of refactorings: helpers, named key functions, conditional expressions
    {"name": "twin-benign-C04-r1-errors-helper-named-key", "rule": "R4.3", "patch": "benign/C04-r1/patch.diff", "expect": "silent"},
    {"name": "twin-benign-C04-r2-sortedtuple-helper", "rule": "R4.2", "patch": "benign/C04-r2/patch.diff", "expect": "silent"},
    {"name": "twin-benign-C04-r4-finalize-helper-gzip-writer", "rule": "R4.1", "patch": "benign/C04-r4/patch.diff", "expect": "silent"},
    {"name": "twin-benign-C11-r4-counter-genexp", "rule": "R4.6", "patch": "benign/C11-r4/patch.diff", "expect": "silent"},
    {"name": "twin-finalize-helper", "rule": "R4.1", "expect": "silent", "edits": _FINALIZE_EDITS},
    {"name": "finalize-helper-skips-canonical-ordering", "rule": "R4.1", "expect": "fire",
     "edits": [_FINALIZE_EDITS[0],
               (IO, _FINALIZE_EDITS[1][1], _FINALIZE_EDITS[1][2].replace("  return pytd_utils.CanonicalOrdering(mod)\n", "  return mod\n"))]},
    {"name": "finalize-helper-canonicalises-before-optimizing", "rule": "R4.1", "expect": "fire",
     "edits": [_FINALIZE_EDITS[0],
               (IO, _FINALIZE_EDITS[1][1], _FINALIZE_EDITS[1][2]
                .replace("  mod = optimize.Optimize(\n      mod,", "  mod = pytd_utils.CanonicalOrdering(mod)\n  mod = optimize.Optimize(\n      mod,")
                .replace("  return pytd_utils.CanonicalOrdering(mod)\n", "  return mod\n"))]},
    {"name": "finalize-helper-one-path-uncanonical", "rule": "R4.1", "expect": "fire",
     "edits": [_FINALIZE_EDITS[0],
               (IO, _FINALIZE_EDITS[1][1], _FINALIZE_EDITS[1][2]
                .replace("  return pytd_utils.CanonicalOrdering(mod)\n", "  if ast_deps is None:\n    return mod\n  return pytd_utils.CanonicalOrdering(mod)\n"))]},
    {"name": "twin-sorted-tuple-helper", "rule": "R4.2", "expect": "silent", "edits": _SORTED_TUPLE_EDITS},
    {"name": "sorted-tuple-helper-does-not-sort", "rule": "R4.2", "expect": "fire",
     "edits": [(PYTD_VISITORS, _SORTED_TUPLE_EDITS[0][1], _SORTED_TUPLE_EDITS[0][2].replace("return tuple(sorted(items))", "return tuple(items)"))]
              + _SORTED_TUPLE_EDITS[1:]},
    {"name": "twin-constants-by-conditional-expression", "rule": "R4.2", "file": PYTD_VISITORS, "expect": "silent",
     "old": _CONSTANTS_IF, "new": "    constants = (\n        tuple(node.constants)\n        if self._PreserveConstantsOrdering(node)\n        else sorted(node.constants)\n    )\n"},
    {"name": "constants-conditional-expression-inverted", "rule": "R4.2", "file": PYTD_VISITORS, "expect": "fire",
     "old": _CONSTANTS_IF, "new": "    constants = (\n        sorted(node.constants)\n        if self._PreserveConstantsOrdering(node)\n        else tuple(node.constants)\n    )\n"},
    {"name": "constants-conditional-on-something-else", "rule": "R4.2", "file": PYTD_VISITORS, "expect": "fire",
     "old": _CONSTANTS_IF, "new": "    constants = (\n        tuple(node.constants)\n        if len(node.constants) > 3\n        else sorted(node.constants)\n    )\n"},
    {"name": "twin-preserve-predicate-as-module-function", "rule": "R4.2", "expect": "silent",
     "edits": [(PYTD_VISITORS, "class CanonicalOrderingVisitor(base_visitor.Visitor):",
                "def _HasOrderedConstants(cls):\n  return any(\n      d.name in (\"attr.s\", \"dataclasses.dataclass\") for d in cls.decorators\n  ) or IsNamedTuple(cls)\n\n\nclass CanonicalOrderingVisitor(base_visitor.Visitor):"),
               (PYTD_VISITORS, "    if self._PreserveConstantsOrdering(node):\n      constants = node.constants",
                "    if _HasOrderedConstants(node):\n      constants = node.constants")]},
    {"name": "preserve-predicate-module-function-always-true", "rule": "R4.2", "expect": "fire",
     "edits": [(PYTD_VISITORS, "class CanonicalOrderingVisitor(base_visitor.Visitor):",
                "def _HasOrderedConstants(cls):\n  return True or IsNamedTuple(cls)\n\n\nclass CanonicalOrderingVisitor(base_visitor.Visitor):"),
               (PYTD_VISITORS, "    if self._PreserveConstantsOrdering(node):\n      constants = node.constants",
                "    if _HasOrderedConstants(node):\n      constants = node.constants")]},
    {"name": "twin-sort-key-named-function", "rule": "R4.3", "expect": "silent",
     "edits": [(ERRORS, "def _function_name(name, capitalize=False):",
                "def _error_position(error):\n  return (error.filename or \"\", error.line)\n\n\ndef _function_name(name, capitalize=False):"),
               (ERRORS, "    return sorted(self._errors, key=lambda x: (x.filename or \"\", x.line))",
                "    return sorted(self._errors, key=_error_position)")]},
    {"name": "sort-key-named-function-drops-line", "rule": "R4.3", "expect": "fire",
     "edits": [(ERRORS, "def _function_name(name, capitalize=False):",
                "def _error_position(error):\n  return (error.filename or \"\", error.name)\n\n\ndef _function_name(name, capitalize=False):"),
               (ERRORS, "    return sorted(self._errors, key=lambda x: (x.filename or \"\", x.line))",
                "    return sorted(self._errors, key=_error_position)")]},
    {"name": "twin-unique-errors-flattened-by-comprehension", "rule": "R4.3", "file": ERRORS, "expect": "silent",
     "old": "    return sum(unique_errors.values(), [])",
     "new": "    return [e for group in unique_errors.values() for e in group]"},
    {"name": "unique-errors-flattening-other-dict", "rule": "R4.3", "file": ERRORS, "expect": "error",
     "old": "    return sum(unique_errors.values(), [])",
     "new": "    by_name = {}\n    for group in unique_errors.values():\n      for e in group:\n        by_name.setdefault(e.name, []).append(e)\n    return [e for group in by_name.values() for e in group]"},
    {"name": "twin-gzip-writer-helper-named-mtime", "rule": "R4.4", "expect": "silent", "edits": _GZIP_HELPER_EDITS},
    {"name": "gzip-writer-helper-live-mtime", "rule": "R4.4", "expect": "fire",
     "edits": [(PICKLE, _GZIP_HELPER_EDITS[0][1], _GZIP_HELPER_EDITS[0][2].replace("_GZIP_MTIME = 1.0", "_GZIP_MTIME = time.time()"))]
              + _GZIP_HELPER_EDITS[1:]},
    {"name": "gzip-writer-helper-mtime-rebound-later", "rule": "R4.4", "expect": "fire",
     "edits": [(PICKLE, _GZIP_HELPER_EDITS[0][1], _GZIP_HELPER_EDITS[0][2].replace("_GZIP_MTIME = 1.0\n", "_GZIP_MTIME = 1.0\n_GZIP_MTIME = None\n"))]
              + _GZIP_HELPER_EDITS[1:]},
    {"name": "gzip-writer-helper-keeps-filename", "rule": "R4.4", "expect": "fire",
     "edits": [(PICKLE, _GZIP_HELPER_EDITS[0][1], _GZIP_HELPER_EDITS[0][2].replace("filename=\"\", ", ""))]
              + _GZIP_HELPER_EDITS[1:]},
    {"name": "twin-superclass-cover-counted-by-genexp", "rule": "R4.6", "file": "pytype/pytd/optimize.py", "expect": "silent",
     "old": _COVER_LOOP,
     "new": "    c = collections.Counter(\n        name\n        for t in set(union.type_list)\n        if isinstance(t, pytd.GENERIC_BASE_TYPE)\n        for name in self.hierarchy.ExpandSubClasses(str(t))\n    )\n"},
    {"name": "counter-of-a-set-walk-iterated-afterwards", "rule": "R4.6", "file": "pytype/pytd/optimize.py", "expect": "fire",
     "old": _COVER_LOOP,
     "new": _COVER_LOOP + "    names = collections.Counter(str(t) for t in frozenset(union.type_list))\n    first_seen = list(names)\n"},
    {"name": "twin-counter-of-a-set-walk-read-by-key", "rule": "R4.6", "file": "pytype/pytd/optimize.py", "expect": "silent",
     "old": _COVER_LOOP,
     "new": _COVER_LOOP + "    names = collections.Counter(str(t) for t in frozenset(union.type_list))\n    first_seen = names[\"int\"] + names.get(\"str\", 0)\n"},
    {"name": "second-walk-added-as-comprehension-next-to-triaged-loop", "rule": "R4.6", "file": "pytype/pytd/optimize.py", "expect": "fire",
     "old": _COVER_LOOP,
     "new": _COVER_LOOP + "    first_seen = [str(t) for t in set(union.type_list)]\n"},
    # -- R4.5 ---------------------------------------------------------------
    {"name": "typevars-unsorted", "rule": "R4.5", "file": PRINTER, "expect": "fire",
     "old": "    return sorted(formatted_type_params)", "new": "    return formatted_type_params"},
    {"name": "typing-import-targets-unsorted", "rule": "R4.5", "file": PRINTER, "expect": "fire",
     "old": "\", \".join(sorted(targets))]", "new": "\", \".join(targets)]"},
    {"name": "import-lines-unsorted", "rule": "R4.5", "file": PRINTER, "expect": "fire",
     "old": "    return sorted(imports, key=lambda s: (s.startswith(\"from \"), s))",
     "new": "    return imports"},
    {"name": "import-lines-partial-key", "rule": "R4.5", "file": PRINTER, "expect": "fire",
     "old": "    return sorted(imports, key=lambda s: (s.startswith(\"from \"), s))",
     "new": "    return sorted(imports, key=lambda s: s.startswith(\"from \"))"},
    {"name": "twin-rename-import-key-param", "rule": "R4.5", "file": PRINTER, "expect": "silent",
     "old": "    return sorted(imports, key=lambda s: (s.startswith(\"from \"), s))",
     "new": "    return sorted(imports, key=lambda line: (line.startswith(\"from \"), line))"},
    {"name": "twin-benign-C05-r2-comprehension-sorted-moved", "rule": "R4.5", "patch": "benign/C05-r2/patch.diff", "expect": "silent"},
    {"name": "twin-from-targets-sorted-into-local", "rule": "R4.5", "file": PRINTER, "expect": "silent",
     "old": _FROM_TARGETS_JOIN,
     "new": "      targets = sorted(\n          name if alias == name else f\"{name} as {alias}\"\n          for alias, name in members.items()\n      )\n      imports.append(f\"from {module} import {', '.join(targets)}\")\n"},
    {"name": "from-targets-local-not-sorted", "rule": "R4.5", "file": PRINTER, "expect": "fire",
     "old": _FROM_TARGETS_JOIN,
     "new": "      targets = [\n          name if alias == name else f\"{name} as {alias}\"\n          for alias, name in members.items()\n      ]\n      imports.append(f\"from {module} import {', '.join(targets)}\")\n"},
    {"name": "from-targets-sorted-local-then-extended", "rule": "R4.5", "file": PRINTER, "expect": "error",
     "old": _FROM_TARGETS_JOIN,
     "new": "      targets = sorted(\n          name if alias == name else f\"{name} as {alias}\"\n          for alias, name in members.items()\n      )\n      targets.append(\"*\")\n      imports.append(f\"from {module} import {', '.join(targets)}\")\n"},
    {"name": "import-lines-hoisted-unsorted", "rule": "R4.5", "file": PRINTER, "expect": "fire",
     "old": "    return sorted(imports, key=lambda s: (s.startswith(\"from \"), s))",
     "new": "    lines = list(imports)\n    return lines"},
    {"name": "twin-import-lines-hoisted-sorted", "rule": "R4.5", "file": PRINTER, "expect": "silent",
     "old": "    return sorted(imports, key=lambda s: (s.startswith(\"from \"), s))",
     "new": "    lines = sorted(imports, key=lambda s: (s.startswith(\"from \"), s))\n    return lines"},
    # -- R4.6 ---------------------------------------------------------------
    # R4.6: a triaged walk moved into a private helper of the triaged function
    {"name": "twin-benign-C17-r3-solve-split", "rule": "R4.6", "patch": "benign/C17-r3/patch.diff", "expect": "silent"},
    {"name": "twin-triaged-loop-moved-into-private-helper", "rule": "R4.6", "expect": "silent",
     "edits": _SOLVE_SPLIT},
    {"name": "moved-loop-plus-a-second-walk-in-the-helper", "rule": "R4.6", "expect": "fire",
     "edits": _SOLVE_SPLIT + [("pytype/pytd/booleq.py", "    value_removed = False\n    and_terms = []\n",
                               "    value_removed = False\n    and_terms = []\n    order = []\n    for v in self.variables:\n      order.append(v)\n")]},
    {"name": "moved-loop-helper-also-called-from-untriaged-method", "rule": "R4.6", "expect": "fire",
     "edits": _SOLVE_SPLIT + [("pytype/pytd/booleq.py", "  def _get_nonfalse_values(self, var):",
                               "  def first_terms(self):\n    return self._simplify_implications({v: set() for v in sorted(self.variables)})\n\n  def _get_nonfalse_values(self, var):")]},
    {"name": "moved-loop-into-public-method", "rule": "R4.6", "expect": "fire",
     "edits": [(f, o.replace("_simplify_implications", "simplify_implications"), n.replace("_simplify_implications", "simplify_implications"))
               for f, o, n in _SOLVE_SPLIT]},
    {"name": "merge_classes-walks-set", "rule": "R4.6", "file": "pytype/convert.py",
     "expect": "fire",
     "old": "    return self.merge_values(sorted(classes, key=lambda cls: cls.full_name))",
     "new": "    return self.merge_values(list(classes))"},
    {"name": "annotated-tags-tuple-of-set", "rule": "R4.6", "file": PYTD_UTILS, "expect": "fire",
     "old": "      return pytd.Annotated(self.union, tuple(sorted(self.tags)))",
     "new": "      return pytd.Annotated(self.union, tuple(self.tags))"},
    {"name": "doc-url-joins-name-set", "rule": "R4.6", "file": IO, "expect": "fire",
     "old": "    if len(names) == 1:\n      doclink += \"#\" + names.pop()",
     "new": "    doclink += \"#\" + \",\".join(names)"},
    {"name": "new-loop-over-set-appends-to-list", "rule": "R4.6",
     "file": "pytype/pytd/serialize_ast.py", "expect": "fire",
     "old": "      names = {ct.name for ct in self.class_type_nodes}\n",
     "new": "      names = {ct.name for ct in self.class_type_nodes}\n      self.metadata = [n for n in names]\n"},
    {"name": "jointypes-dedups-through-a-set", "rule": "R4.6", "file": PYTD_UTILS,
     "expect": "fire",
     "old": "  queue = collections.deque(types)\n  seen = set()",
     "new": "  types = set(types)\n  queue = collections.deque(types)\n  seen = set()"},
    {"name": "twin-set-listed-then-sorted", "rule": "R4.6", "file": PYTD_UTILS, "expect": "silent",
     "old": "      return pytd.Annotated(self.union, tuple(sorted(self.tags)))",
     "new": "      return pytd.Annotated(self.union, tuple(sorted(list(self.tags))))"},
    {"name": "twin-sorted-over-tuple-of-set", "rule": "R4.6", "file": "pytype/convert.py",
     "expect": "silent",
     "old": "    return self.merge_values(sorted(classes, key=lambda cls: cls.full_name))",
     "new": "    return self.merge_values(sorted(tuple(classes), key=lambda cls: cls.full_name))"},
    {"name": "twin-commutative-count-over-set", "rule": "R4.6", "file": IO, "expect": "silent",
     "old": "  names = {e.name for e in errorlog}\n",
     "new": "  names = {e.name for e in errorlog}\n  total = 0\n  for _ in names:\n    total += 1\n"},
    {"name": "twin-set-to-set-comprehension", "rule": "R4.6", "file": IO, "expect": "silent",
     "old": "  names = {e.name for e in errorlog}\n",
     "new": "  names = {e.name for e in errorlog}\n  lowered = {n.lower() for n in names}\n"},
    # -- R4.6 across a call boundary / dict-view set algebra
    {"name": "seeded-C04-r2m2", "rule": "R4.6", "patch": "seeded/C04-r2m2/patch.diff",
     "expect": "fire"},
    {"name": "union-members-frozen-into-a-set-before-build", "rule": "R4.6",
     "file": PRINTER, "expect": "fire",
     "old": "    type_list = self._FormSetTypeList(node)\n    return self._BuildUnion(type_list)",
     "new": "    type_list = frozenset(self._FormSetTypeList(node))\n"
            "    return self._BuildUnion(type_list)"},
    {"name": "namedtuple-methods-through-keys-difference", "rule": "R4.6",
     "file": "pytype/output.py", "expect": "fire",
     "old": "k: m for k, m in methods.items() if k not in v.generated_members",
     "new": "k: methods[k] for k in methods.keys() - v.generated_members"},
    {"name": "formset-returns-keys-intersection-via-local", "rule": "R4.6",
     "file": PRINTER, "expect": "fire", "old": _FORMSET_LOOP,
     "new": "      drop = [c for c, n in pep484.get_compat_items()\n"
            "              if c in type_list and n in type_list]\n"
            "      kept = type_list.keys() ^ drop\n"
            "      return kept\n"},
    {"name": "twin-formset-filters-into-a-dict", "rule": "R4.6", "file": PRINTER,
     "expect": "silent", "old": _FORMSET_LOOP,
     "new": "      redundant = {c for c, n in pep484.get_compat_items()\n"
            "                   if c in type_list and n in type_list}\n"
            "      return {t: None for t in type_list if t not in redundant}\n"},
    {"name": "twin-set-handed-to-a-membership-only-helper", "rule": "R4.6",
     "expect": "silent", "edits": [
         (PRINTER, _FORMSET_LOOP,
          "      redundant = {c for c, n in pep484.get_compat_items()\n"
          "                   if c in type_list and n in type_list}\n"
          "      self._DropNames(type_list, redundant)\n"),
         (PRINTER, "  def _BuildUnion(self, type_list):\n",
          "  def _DropNames(self, type_list, names):\n"
          "    for t in list(type_list):\n"
          "      if t in names:\n"
          "        del type_list[t]\n\n"
          "  def _BuildUnion(self, type_list):\n")]},
    {"name": "twin-union-members-listed-before-build", "rule": "R4.6", "file": PRINTER,
     "expect": "silent",
     "old": "    type_list = self._FormSetTypeList(node)\n    return self._BuildUnion(type_list)",
     "new": "    type_list = list(self._FormSetTypeList(node))\n"
            "    return self._BuildUnion(type_list)"},
    {"name": "twin-keys-difference-sorted", "rule": "R4.6", "file": "pytype/output.py",
     "expect": "silent",
     "old": "k: m for k, m in methods.items() if k not in v.generated_members",
     "new": "k: methods[k] for k in sorted(methods.keys() - v.generated_members)"},
    # -- R4.8 (the `twin-` variants also drop the builtins cache that the rule
    # reports on the reference tree, so that they are silent there)
    {"name": "seeded-C04-m2", "rule": "R4.8", "patch": "seeded/C04-m2/patch.diff",
     "expect": "fire"},
    {"name": "newtype-counter-on-the-class", "rule": "R4.8", "file": TYPING_OVERLAY,
     "expect": "fire", "old": _NEWTYPE_COUNTER,
     "new": "    val = NewType._issued\n    NewType._issued += 1\n    return val\n"},
    {"name": "newtype-counter-on-type-of-self", "rule": "R4.8", "file": TYPING_OVERLAY,
     "expect": "fire", "old": _NEWTYPE_COUNTER,
     "new": "    type(self)._issued = getattr(type(self), \"_issued\", -1) + 1\n"
            "    return type(self)._issued\n"},
    {"name": "newtype-counter-module-global", "rule": "R4.8", "file": TYPING_OVERLAY,
     "expect": "fire", "old": _NEWTYPE_COUNTER,
     "new": "    global _newtype_serial\n    _newtype_serial += 1\n    return _newtype_serial\n"},
    {"name": "newtype-names-from-module-level-partial", "rule": "R4.8", "expect": "fire",
     "edits": [
         (TYPING_OVERLAY, "class NewType(abstract.PyTDFunction):\n",
          "_fresh_suffix = functools.partial(next, itertools.count())\n\n\n"
          "class NewType(abstract.PyTDFunction):\n"),
         (TYPING_OVERLAY, _NEWTYPE_COUNTER, "    return _fresh_suffix()\n")]},
    {"name": "unknown-names-memoised-per-process", "rule": "R4.8",
     "file": "pytype/pytd/escape.py", "expect": "fire",
     "old": "def unknown(idcode: int) -> str:\n  return UNKNOWN + str(idcode)\n",
     "new": "_UNKNOWN_NAMES = {}\n\n\ndef unknown(idcode: int) -> str:\n"
            "  if idcode not in _UNKNOWN_NAMES:\n"
            "    _UNKNOWN_NAMES[idcode] = UNKNOWN + str(len(_UNKNOWN_NAMES))\n"
            "  return _UNKNOWN_NAMES[idcode]\n"},
    {"name": "triaged-cache-also-rebound-through-global", "rule": "R4.8",
     "file": "pytype/errors/errors.py", "expect": "fire",
     "old": "def get_error_names_set():\n  return _ERROR_NAMES\n",
     "new": "def get_error_names_set():\n  global _ERROR_NAMES\n"
            "  _ERROR_NAMES = set(_ERROR_NAMES)\n  return _ERROR_NAMES\n"},
    {"name": "twin-class-default-instance-increment", "rule": "R4.8", "expect": "silent",
     "edits": _NO_BUILTINS_CACHE + [
         (TYPING_OVERLAY, "    self._internal_name_counter = 0\n", ""),
         (TYPING_OVERLAY,
          "  \"\"\"Implementation of typing.NewType as a function.\"\"\"\n",
          "  \"\"\"Implementation of typing.NewType as a function.\"\"\"\n\n"
          "  _internal_name_counter = 0\n")]},
    {"name": "twin-per-instance-iterator", "rule": "R4.8", "expect": "silent",
     "edits": _NO_BUILTINS_CACHE + [
         (TYPING_OVERLAY, "    self._internal_name_counter = 0\n",
          "    self._internal_name_counter = itertools.count()\n"),
         (TYPING_OVERLAY, _NEWTYPE_COUNTER,
          "    return next(self._internal_name_counter)\n")]},
    {"name": "twin-module-constants-from-consumed-iterators", "rule": "R4.8",
     "expect": "silent",
     "edits": _NO_BUILTINS_CACHE + [
         (TYPING_OVERLAY, "class NewType(abstract.PyTDFunction):\n",
          "_SUFFIXES = tuple(str(i) for i in range(4))\n"
          "_SUFFIX_INDEX = dict(zip(_SUFFIXES, itertools.count()))\n"
          "_FIRST = next(iter(_SUFFIXES))\n\n\n"
          "class NewType(abstract.PyTDFunction):\n")]},
    {"name": "twin-local-shadows-module-container", "rule": "R4.8", "expect": "silent",
     "edits": _NO_BUILTINS_CACHE + [
         ("pytype/errors/errors.py", "def get_error_names_set():\n  return _ERROR_NAMES\n",
          "def get_error_names_set():\n  return _ERROR_NAMES\n\n\n"
          "def _sorted_error_names():\n  _ERROR_NAMES = set(get_error_names_set())\n"
          "  _ERROR_NAMES.discard(\"\")\n  return sorted(_ERROR_NAMES)\n")]},
]

# dependency lists taken from the fields of a record returned by a helper
VARIANTS += _RF.deps_record_variants("R4.4")
