"""C01 extension: "contents fully known" flags and folded collection literals.

R1.23  abstract.Dict / abstract.List keep the literal contents of a container
       in `pyval` and a flag (`is_concrete`) that says "pyval is ALL there
       is".  compare.compatible_with (truthiness), Dict.contains_slot,
       compare._compare_dict and the getitem slots trust the flag and answer
       definitely from pyval, which makes jump_if prune a branch.  The flag is
       therefore a may-not-lie bit and has two structural obligations:
       (a) who may write it, and how: outside the initialisers (__init__ /
           init_mixin) every write in the package lowers it - `= False`,
           `&= E`, `= <same>.is_concrete and E`; `= True`, `|=`, `.. or ..` or
           a plain copy of another object's flag are violations (a container
           that lost track of its contents never regains it);
       (b) whenever the contents of ANOTHER container flow in, the flag is
           and-ed with the other container's flag on every path: each method
           of a flag class that reads `<param>.get_instance_type_parameter`
           (the summary of everything the other container may hold) is
           evaluated from its AST (rules/_minieval) for the receiver's flag in
           {True, False} x every kind of argument - a native Python container,
           an instance of the flag class that is concrete, one that is NOT
           concrete (its pyval is partial), an instance of the builtin class
           that is not of the flag class, an instance of another class, a
           non-instance value - and must satisfy
               flag_after  =>  flag_before and known(argument)
           where known = native container or flag-class instance with the
           flag set.  Spelling (&=, and, guard clause, helper method, renamed
           locals) is immaterial.
R1.24  constant_folding.build_folded_type turns the typestruct of a folded
       literal into a VM value.  Long literals are truncated (only a prefix of
       the elements, or none, is kept as values), so the element types that
       only occur in the dropped part reach the result only through the
       typestruct's parameter set (`typ[1]`).  Obligation: whatever is
       dropped, the result's type admits EVERY element typestruct of the
       constant, at every nesting level - the union is built from the full
       parameter set, not from a projection of it (a tag, a prefix, the types
       the kept elements happen to have).  Decided by small-scope evaluation:
       build_folded_type (with its nested helpers as closures) is run from its
       AST on folded constants built by a model of the folder - short and long
       (MAX_VAR_SIZE - 1, MAX_VAR_SIZE, MAX_VAR_SIZE + 6 elements) lists whose
       odd type sits at the front / at the tail / nowhere, elements that are
       primitives, tuples, lists of different element types; sets; short and
       long dicts - in a world where ctx.convert.build_* record the types of
       what they are given; the recorded type of the result must admit the
       constant's typestruct.
"""
import ast
import re

from sa.core import rule, AnalysisError
from sa.pyindex import get_module, dotted, src, try_fold, all_py_files
from rules import _minieval as _me
from rules import _util_c11c01 as _u

INST = "pytype/abstract/_instances.py"
CF = "pytype/constant_folding.py"
FLAG = "is_concrete"
_FUNCS = (ast.FunctionDef, ast.AsyncFunctionDef)
_INITIALISERS = ("__init__", "init_mixin")


def _qual(mod, node):
  names = []
  if isinstance(node, _FUNCS + (ast.ClassDef,)):
    names.append(node.name)
  while node in mod.parent:
    node = mod.parent[node]
    if isinstance(node, _FUNCS + (ast.ClassDef,)):
      names.append(node.name)
  return ".".join(reversed(names)) or "<module>"


def _is_test(rel):
  base = rel.rsplit("/", 1)[-1]
  return base.endswith("_test.py") or base.startswith("test_") or "/tests/" in rel


# -- R1.23 (a): who may write the flag ---------------------------------------------------

_WRITE_RE = re.compile(r"\b%s\b\s*(=(?!=)|&=|\|=|\^=|:)|setattr\([^)]*%s" % (FLAG, FLAG))


def _flag_writes(mod):
  """(statement, target, value-or-None, op-or-None) for every store to `<x>.is_concrete`."""
  out = []
  for n in ast.walk(mod.tree):
    if isinstance(n, ast.Assign):
      for t in n.targets:
        for e in ast.walk(t):
          if isinstance(e, ast.Attribute) and e.attr == FLAG and isinstance(e.ctx, ast.Store):
            if e is not t:
              raise AnalysisError(f"{mod.rel}:{n.lineno}: `{FLAG}` stored through "
                                  "unpacking, not understood")
            out.append((n, t, n.value, None))
    elif isinstance(n, ast.AugAssign) and isinstance(n.target, ast.Attribute) \
        and n.target.attr == FLAG:
      out.append((n, n.target, n.value, n.op))
    elif isinstance(n, ast.AnnAssign) and isinstance(n.target, ast.Attribute) \
        and n.target.attr == FLAG and n.value is not None:
      out.append((n, n.target, n.value, None))
    elif isinstance(n, ast.Call) and dotted(n.func) == "setattr" and len(n.args) == 3 \
        and isinstance(n.args[1], ast.Constant) and n.args[1].value == FLAG:
      raise AnalysisError(f"{mod.rel}:{n.lineno}: `{FLAG}` written through setattr")
    elif isinstance(n, (ast.For, ast.comprehension, ast.NamedExpr, ast.withitem)):
      tgt = getattr(n, "target", None) or getattr(n, "optional_vars", None)
      if tgt is not None and any(isinstance(e, ast.Attribute) and e.attr == FLAG
                                 for e in ast.walk(tgt)):
        raise AnalysisError(f"{mod.rel}:{n.lineno}: `{FLAG}` bound by a loop/with target")
  return sorted(out, key=lambda w: (w[0].lineno, w[0].col_offset))


def _classify_write(target, value, op):
  """-> ("lowers" | "raises" | "init-only", text) or None (not understood)."""
  recv = dotted(target.value)
  if op is not None:
    if isinstance(op, ast.BitAnd):
      return "lowers", "&="
    if isinstance(op, (ast.BitOr, ast.BitXor)):
      return "raises", "|= / ^= can set the flag again"
    return None
  if isinstance(value, ast.Constant):
    if value.value is False:
      return "lowers", "= False"
    if value.value is True:
      return "init-only", "= True"
    return None
  if isinstance(value, ast.BoolOp) and isinstance(value.op, ast.And):
    if any(isinstance(v, ast.Attribute) and v.attr == FLAG and dotted(v.value) == recv
           and recv is not None for v in value.values):
      return "lowers", "= <same>.%s and .." % FLAG
    return "raises", "the conjunction does not include the receiver's own flag"
  if isinstance(value, ast.BinOp) and isinstance(value.op, ast.BitAnd):
    if any(isinstance(v, ast.Attribute) and v.attr == FLAG and dotted(v.value) == recv
           and recv is not None for v in (value.left, value.right)):
      return "lowers", "= <same>.%s & .." % FLAG
    return "raises", "the conjunction does not include the receiver's own flag"
  if isinstance(value, ast.BoolOp) and isinstance(value.op, ast.Or):
    return "raises", "`or` can set the flag again"
  if isinstance(value, ast.Attribute) and value.attr == FLAG:
    return "raises", (f"copies `{src(value)}`: a receiver that already lost track of "
                      "its contents becomes 'fully known' again")
  return None


def _check_flag_writes(ctx):
  files = []
  for rel in all_py_files(ctx):
    if _is_test(rel):
      continue
    if rel == INST or _WRITE_RE.search(ctx.read(rel)):
      files.append(rel)
  n = 0
  for rel in files:
    mod = get_module(ctx, rel)
    counter = {}
    for stmt, target, value, op in _flag_writes(mod):
      fn = mod.enclosing_function(stmt)
      q = _qual(mod, fn) if fn is not None else "<module>"
      k = counter[q] = counter.get(q, 0) + 1
      construct = f"flag-write:{rel.removeprefix('pytype/')}:{q}#{k}"
      verdict = _classify_write(target, value, op)
      if verdict is None:
        raise AnalysisError(f"{rel}:{stmt.lineno}: write `{src(stmt)[:80]}` of the "
                            f"`{FLAG}` flag not understood")
      kind, how = verdict
      facts = {"write": src(stmt)[:90], "form": how}
      n += 1
      if kind == "init-only":
        ctx.check(fn is not None and fn.name in _INITIALISERS, construct, rel, stmt.lineno,
                  f"`{src(stmt)[:70]}` in {q}: only an initialiser may set the "
                  f"`{FLAG}` flag - a container whose contents were partly lost "
                  "(non-constant key, unknown source) can never be 'fully known' "
                  "again, yet compare.compatible_with / contains_slot would answer "
                  "definitely from its partial pyval", facts)
      elif kind == "raises" and not (fn is not None and fn.name in _INITIALISERS):
        ctx.bad(construct, rel, stmt.lineno,
                f"`{src(stmt)[:70]}` in {q} can raise the `{FLAG}` flag ({how}); "
                "outside the initialisers the flag may only be lowered "
                "(`= False`, `&= other`, `= self.%s and other`)" % FLAG, facts)
      else:
        ctx.ok(construct, rel, stmt.lineno, facts)
  return n


# -- R1.23 (b): merging another container -------------------------------------------------

def _flag_classes(mod):
  """Classes of the module with a method that stores `self.is_concrete`."""
  out = []
  for cname, cls in mod.classes.items():
    for m in cls.body:
      if isinstance(m, _FUNCS) and m.args.args:
        me = m.args.args[0].arg
        if any(isinstance(t, ast.Attribute) and t.attr == FLAG and dotted(t.value) == me
               and isinstance(t.ctx, ast.Store) for t in ast.walk(m)):
          out.append(cname)
          break
  return out


def _builtin_of(mod, cname):
  """'dict' for a class whose __init__ passes ctx.convert.dict_type upwards."""
  init = mod.methods(cname).get("__init__")
  if init is not None:
    for c in ast.walk(init):
      if isinstance(c, ast.Call) and isinstance(c.func, ast.Attribute) and \
          c.func.attr == "__init__" and c.args:
        d = dotted(c.args[0]) or ""
        if d.endswith("_type") and ".convert." in d:
          return d.rsplit(".", 1)[-1][:-len("_type")]
  raise AnalysisError(f"{mod.rel}: builtin class modelled by {cname} not recognised")


def _merge_methods(mod, cname):
  """[(method, parameter)]: own methods that read the type parameters of a
  value they are given."""
  out = []
  for name, m in mod.methods(cname).items():
    params = [a.arg for a in m.args.posonlyargs + m.args.args][1:]
    for p in params:
      if any(isinstance(c, ast.Call) and isinstance(c.func, ast.Attribute)
             and c.func.attr == "get_instance_type_parameter" and dotted(c.func.value) == p
             for c in ast.walk(m)):
        out.append((m, p))
  return out


def _var(label):
  return _me.Obj(("Variable",), {"label": label},
                 {"PasteVariable": lambda *a, **k: None,
                  "AddBinding": lambda *a, **k: None})


def _value(kinds, full_name, flag, pyval=None, cls_methods=None, log=None):
  """A world record for an abstract value."""
  o = _me.Obj(kinds, {FLAG: flag, "full_name": full_name, "name": full_name.split(".")[-1]},
              cls_methods=cls_methods)
  log = log if log is not None else []
  o.attrs["_log"] = log
  if pyval is not None:
    o.attrs["pyval"] = pyval
    if isinstance(pyval, dict):
      world = {"items": lambda: list(pyval.items()), "keys": lambda: list(pyval.keys()),
               "values": lambda: list(pyval.values()),
               "get": lambda k, d=None: pyval.get(k, d)}
    else:
      world = {}
  else:
    world = {}
  world["get_instance_type_parameter"] = lambda name, node=None: _var(f"param {name}")
  world["merge_instance_type_parameter"] = \
      lambda node, name, value: log.append(("merge", name, value))
  world["get_formal_type_parameter"] = lambda name: _var(f"formal {name}")
  for k, v in world.items():
    if k not in o.cls_methods:
      o.methods[k] = v
  node_ctx = _me.Obj(("Context",), {
      "convert": _me.Obj(("Converter",), {}, {
          "build_nonatomic_string": lambda node: _var("str"),
          "build_none": lambda node: _var("None"),
          "build_bool": lambda node, v=None: _var("bool")})},
      {"new_unsolvable": lambda node: _var("Any"),
       "join_variables": lambda node, vs: _var("join")})
  o.attrs["ctx"] = node_ctx
  return o


def _evaluate_merge(mod, cname, m, param):
  builtin = _builtin_of(mod, cname)
  full = f"builtins.{builtin}"
  cls_methods = _u.methods_mro(mod, cname)
  bases = [(dotted(b) or "").split(".")[-1] for b in mod.cls(cname).bases]
  self_kinds = tuple([cname] + [c for c in _u.local_mro(mod, cname) if c != cname] + bases
                     + ["SimpleValue", "BaseValue"])
  inst = ("Instance", "SimpleValue", "BaseValue")
  if builtin == "dict":
    native = lambda: {"k": _var("v")}
    content = lambda: {"k": _var("v")}
    empty = lambda: {}
  elif builtin == "list":
    native = lambda: [_var("v")]
    content = lambda: [_var("v")]
    empty = lambda: []
  else:
    raise AnalysisError(f"{mod.rel}: no world model for a flag class of builtins.{builtin}")
  others = [
      ("a native Python %s" % builtin, lambda: native(), True),
      ("a concrete %s" % cname,
       lambda: _value(self_kinds, full, True, content(), cls_methods), True),
      ("a %s that is no longer concrete (partial pyval)" % cname,
       lambda: _value(self_kinds, full, False, empty(), cls_methods), False),
      ("an instance of %s that is not a %s" % (full, cname),
       lambda: _value(inst, full, False), False),
      ("an instance of another class", lambda: _value(inst, "collections.OrderedDict", False), False),
      ("a value that is not an instance", lambda: _value(("Unsolvable", "Singleton", "BaseValue"),
                                                        "typing.Any", False), False),
  ]
  me_name = m.args.args[0].arg
  node = _me.Obj(("CFGNode",))
  problems, runs = [], []
  for before, fill in ((True, content), (True, empty), (False, empty)):
    for label, make, known in others:
      receiver = _value(self_kinds, full, before, fill(), cls_methods)
      other = make()
      args = {me_name: receiver, param: other}
      for a in (m.args.posonlyargs + m.args.args)[1:]:
        if a.arg == param:
          continue
        if a.arg == "node":
          args[a.arg] = node
      try:
        _me.Interp(m, {}, 50000).call(args)
      except _me.Outside as e:
        raise AnalysisError(f"{cname}.{m.name}: construct outside the evaluated "
                            f"fragment ({e}) with {param} = {label}") from e
      except (_me.Raised, _me.Diverged) as e:
        raise AnalysisError(f"{cname}.{m.name} raised {e!r} in the world model with "
                            f"{param} = {label}: cannot decide") from e
      after = receiver.attrs.get(FLAG)
      if not isinstance(after, bool):
        raise AnalysisError(f"{cname}.{m.name}: `{FLAG}` became {after!r}")
      runs.append(f"{FLAG}={before}{'' if fill is content else ' (empty pyval)'}, "
                  f"{param} = {label} -> {after}")
      if after and not (before and known):
        why = ("the receiver was no longer concrete" if not before else
               f"the contents of {label} are not fully known")
        problems.append(f"self.{FLAG}={before}, {param} = {label}: `{FLAG}` is True "
                        f"afterwards although {why}")
  return problems, runs


# -- R1.24: build_folded_type ---------------------------------------------------------------

def _bind(fn, a, kw):
  params = [p.arg for p in fn.args.posonlyargs + fn.args.args]
  if len(a) > len(params) or set(params[:len(a)]) & set(kw):
    raise _me.Outside(f"call of {fn.name} does not fit its signature")
  out = dict(zip(params, a))
  out.update(kw)
  return out


def _names(node, ctx_type):
  return {n.id for n in ast.walk(node) if isinstance(n, ast.Name) and isinstance(n.ctx, ctx_type)}


def closure_callable(outer, base_globals, resolver, max_steps=400000):
  """A callable that evaluates `outer` (rules/_minieval) with the function
  definitions directly in its body as closures over the call's PARAMETERS.
  Nested definitions deeper than one level, a nested function reading a local
  of `outer` that is not a parameter, or `outer` re-binding a parameter are
  outside the model."""
  nested = [s for s in outer.body if isinstance(s, _FUNCS)]
  rest = [s for s in outer.body if not isinstance(s, _FUNCS)]
  params = {a.arg for a in outer.args.posonlyargs + outer.args.args + outer.args.kwonlyargs}
  stored_outer = set()
  for s in rest:
    stored_outer |= _names(s, ast.Store)
  if stored_outer & params:
    raise AnalysisError(f"{outer.name} re-binds its parameter(s) "
                        f"{sorted(stored_outer & params)}: closures not modelled")
  for n in nested:
    if any(isinstance(x, _FUNCS + (ast.Lambda,)) and x is not n for x in ast.walk(n)):
      raise AnalysisError(f"{outer.name}.{n.name}: nested definitions not modelled")
    own = {a.arg for a in n.args.posonlyargs + n.args.args + n.args.kwonlyargs} | \
        _names(n, ast.Store)
    free = _names(n, ast.Load) - own
    if free & (stored_outer - params):
      raise AnalysisError(
          f"{outer.name}.{n.name} reads {sorted(free & stored_outer)}, locals of the "
          "enclosing function: closures over locals are not modelled")
  synth = ast.FunctionDef(name=outer.name, args=outer.args, body=rest or [ast.Pass()],
                          decorator_list=[], returns=None, type_comment=None, type_params=[])
  ast.copy_location(synth, outer)

  def call(*a, **kw):
    args = _bind(outer, a, kw)
    g = dict(base_globals)
    g.update(args)
    for n in nested:
      g[n.name] = (lambda n: lambda *a2, **kw2:
                   _me.Interp(n, g, max_steps, resolver).call(_bind(n, a2, kw2)))(n)
    return _me.Interp(synth, g, max_steps, resolver).call(args)
  base_globals[outer.name] = call
  return call


def _record_class(mod, cname):
  """(field names, property name -> def) of an attrs/dataclass-style record."""
  cls = mod.cls(cname)
  fields = [s.target.id for s in cls.body
            if isinstance(s, ast.AnnAssign) and isinstance(s.target, ast.Name)]
  props = {s.name: s for s in cls.body if isinstance(s, ast.FunctionDef)
           and any(dotted(d) == "property" for d in s.decorator_list)}
  if not fields:
    raise AnalysisError(f"{mod.rel}: record class {cname} has no annotated fields")
  return fields, props


class _FoldWorld:
  """ctx / state for build_folded_type; every value carries the set of result
  typestructs it can have:  ('prim', T) | ('list'|'set', frozenset R) |
  ('tuple', (frozenset R, ..)) | ('map', frozenset R, frozenset R)."""

  PRIMS = (int, str, float, bytes, bool, complex, type(None), type(...))

  def __init__(self, mod):
    self.mod = mod
    fields, props = _record_class(mod, "_Constant")
    if fields[:3] != ["typ", "value", "elements"]:
      raise AnalysisError(f"{CF}: _Constant fields {fields} not understood")
    self.fields, self.props = fields, props
    self.lists = []          # (ListValue record, [types of the elements given])
    node = _me.Obj(("CFGNode",))
    self.state = _me.Obj(("FrameState",), {"node": node})
    conv = _me.Obj(("Converter",), {
        "list_type": _me.Obj(("Class",), {"name": "list"}),
        "set_type": _me.Obj(("Class",), {"name": "set"}),
        "str_type": _me.Obj(("Class",), {"name": "str"},
                            {"instantiate": lambda node=None: self.var({("prim", str)})}),
        "primitive_instances": {
            t: _me.Obj(("Instance",), {}, {"to_variable": (lambda t: lambda node=None:
                                                           self.var({("prim", t)}))(t)})
            for t in self.PRIMS},
    }, {
        "constant_to_var": lambda v: self.var({self.of_value(v)}),
        "build_content": lambda vs: self.var(self.union(vs)),
        "build_collection_of_type": self._collection,
        "build_list": self._list,
        "build_tuple": lambda node, vs: self.var(
            {("tuple", tuple(frozenset(self.t(v)) for v in vs))}),
        "build_map": self._map,
    })
    self.ctx = _me.Obj(("Context",), {"convert": conv})

  def var(self, types):
    return _me.Obj(("Variable",), {"t": frozenset(types)})

  def t(self, v):
    if isinstance(v, _me.Obj) and "map" in v.attrs:
      m = v.attrs["map"]
      return frozenset({("map", frozenset(m.attrs["K"]), frozenset(m.attrs["V"]))})
    if isinstance(v, _me.Obj) and "t" in v.attrs:
      return v.attrs["t"]
    raise _me.Outside(f"a value of unknown type {v!r} reached the converter")

  def union(self, vs):
    out = set()
    for v in vs:
      out |= self.t(v)
    return out

  def of_value(self, v):
    if isinstance(v, tuple):
      return ("tuple", tuple(frozenset({self.of_value(x)}) for x in v))
    if isinstance(v, (list, dict, set, frozenset, _me.Obj, _me.Sym)):
      raise _me.Outside(f"constant_to_var of {type(v).__name__}")
    return ("prim", type(v))

  def _collection(self, node, typ, var):
    if not (isinstance(typ, _me.Obj) and typ.attrs.get("name") in ("list", "set")):
      raise _me.Outside("build_collection_of_type of an unknown class")
    return self.var({(typ.attrs["name"], frozenset(self.t(var)))})

  def _list(self, node, vs):
    vs = list(vs)
    out = self.var({("list", frozenset(self.union(vs)))})
    rec = _me.Obj(("List",), {FLAG: True, "pyval": vs})
    out.attrs["data"] = [rec]
    self.lists.append((out, rec, [self.t(v) for v in vs]))
    return out

  def _map(self, node):
    m = _me.Obj(("Dict",), {"K": set(), "V": set(), "items": []})

    def setitem(node, k, v):
      m.attrs["items"].append((k, v))

    def merge(node, k, v):
      m.attrs["K"] |= self.t(k)
      m.attrs["V"] |= self.t(v)
    m.methods.update({"setitem": setitem, "merge_instance_type_params": merge})
    return _me.Obj(("Variable",), {"data": [m], "map": m})

  # the model of the folder: Python value -> folded constant (constant_folding's
  # documented typestruct format; LOAD_CONST tuples keep typestructs as elements)
  def const(self, typ, value, elements):
    o = _me.Obj(("_Constant",), {"typ": typ, "value": value, "elements": elements,
                                 "op": _me.Obj(("Opcode",), {"line": 1})})
    for name, fn in self.props.items():
      o.attrs[name] = _me.Interp(fn, {}, 2000).call({fn.args.args[0].arg: o})
    return o

  def fold(self, v):
    if isinstance(v, tuple):
      typ = self._tuple_typ(v)
      return self.const(typ, v, typ[1])
    if isinstance(v, list):
      es = tuple(self.fold(x) for x in v)
      return self.const(("list", frozenset(e.attrs["typ"] for e in es)),
                        [e.attrs["value"] for e in es], es)
    if isinstance(v, (set, frozenset)):
      es = tuple(self.fold(x) for x in sorted(v, key=repr))
      return self.const(("set", frozenset(e.attrs["typ"] for e in es)), set(v), es)
    if isinstance(v, dict):
      ks = [self.fold(k) for k in v]
      vs = [self.fold(x) for x in v.values()]
      return self.const(("map", (frozenset(k.attrs["typ"] for k in ks),
                                 frozenset(x.attrs["typ"] for x in vs))),
                        {k: x.attrs["value"] for k, x in zip(v, vs)},
                        dict(zip(v, vs)))
    return self.const(("prim", type(v)), v, None)

  def _tuple_typ(self, v):
    return ("tuple", tuple(self._tuple_typ(x) if isinstance(x, tuple)
                           else ("prim", type(x)) for x in v))

  def resolver(self, name, args, kw):
    if name.split(".")[-1] == "_Constant":
      vals = dict(zip(self.fields, args))
      vals.update(kw)
      if set(vals) != set(self.fields):
        raise _me.Outside("_Constant(..) with unexpected arguments")
      o = self.const(vals["typ"], vals["value"], vals["elements"])
      o.attrs["op"] = vals["op"]
      return o
    return NotImplemented


def admits(results, typ):
  """Some result typestruct admits the folder typestruct `typ`."""
  return any(_adm(r, typ) for r in results)


def _adm(r, typ):
  tag, params = typ
  if r[0] != tag:
    return False
  if tag == "prim":
    return r[1] is params
  if tag in ("list", "set"):
    return all(admits(r[1], p) for p in params)
  if tag == "tuple":
    return len(r[1]) == len(params) and all(admits(c, p) for c, p in zip(r[1], params))
  if tag == "map":
    ks, vs = params
    return all(admits(r[1], k) for k in ks) and all(admits(r[2], v) for v in vs)
  return False


def _show_typ(typ):
  tag, params = typ
  if tag == "prim":
    return params.__name__
  if tag in ("list", "set"):
    return f"{tag}[{' | '.join(sorted(_show_typ(p) for p in params)) or 'nothing'}]"
  if tag == "tuple":
    return f"tuple[{', '.join(_show_typ(p) for p in params)}]"
  ks, vs = params
  return (f"dict[{' | '.join(sorted(_show_typ(k) for k in ks))}, "
          f"{' | '.join(sorted(_show_typ(v) for v in vs))}]")


def _show_res(rs):
  def one(r):
    if r[0] == "prim":
      return r[1].__name__
    if r[0] in ("list", "set"):
      return f"{r[0]}[{_show_res(r[1]) or 'nothing'}]"
    if r[0] == "tuple":
      return f"tuple[{', '.join(_show_res(c) for c in r[1])}]"
    return f"dict[{_show_res(r[1])}, {_show_res(r[2])}]"
  return " | ".join(sorted(one(r) for r in rs))


def fold_scope(limit):
  """(label, literal value) pairs; `limit` = MAX_VAR_SIZE of the module."""
  out = []
  for n, size in (("short", 3), ("limit-1", limit - 1), ("limit", limit), ("long", limit + 6)):
    out += [
        (f"{n} list, one str at the tail", [0] * (size - 1) + ["s"]),
        (f"{n} list, one str at the front", ["s"] + [0] * (size - 1)),
        (f"{n} list of ints", [0] * size),
        (f"{n} list, str / float / bytes at the tail", [0] * max(size - 3, 1) + ["s", 1.5, b"x"]),
        (f"{n} list of int lists, one str list at the tail", [[1] for _ in range(size - 1)] + [["s"]]),
        (f"{n} list of int 1-tuples, one str 1-tuple at the tail", [(1,)] * (size - 1) + [("s",)]),
        (f"{n} list of str->int dicts, one str->str dict at the tail",
         [{"a": 1} for _ in range(size - 1)] + [{"a": "s"}]),
        (f"{n} dict, str keys, one str value at the tail",
         {f"k{i}": 0 for i in range(size - 1)} | {"last": "s"}),
        (f"{n} dict, int keys and one str key, list values",
         {i: [0] for i in range(size - 1)} | {"last": ["s"]}),
        (f"{n} dict with 2-tuple keys", {(i, "x"): 0 for i in range(size - 1)} | {("y", 1): "s"}),
    ]
  out += [
      ("set of int and str", {1, "s"}),
      ("set of ints and a tuple", {1, (2, "s")}),
      ("long dict of ints with one list value",
       {f"k{i}": 0 for i in range(limit + 5)} | {"last": ["s"]}),
      ("list holding a long list", [[0] * (limit + 5) + ["s"], [1.5]]),
      ("dict holding a long list", {"a": [0] * (limit + 5) + ["s"]}),
      ("list of sets", [{1}, {"s"}]),
  ]
  return out


def run_build_folded_type(ctx):
  """-> (world, [(label, constant, result types or None, error)])."""
  mod = get_module(ctx, CF)
  fn = mod.func("build_folded_type")
  pnames = [a.arg for a in fn.args.args]
  if len(pnames) != 3:
    raise AnalysisError("build_folded_type(ctx, state, const) not recognised")
  limit = try_fold(mod.assigns.get("MAX_VAR_SIZE"), mod=mod) if "MAX_VAR_SIZE" in mod.assigns else None
  if not isinstance(limit, int) or not 8 <= limit <= 4096:
    raise AnalysisError(f"{CF}: MAX_VAR_SIZE does not fold to a sensible int ({limit!r})")
  results = []
  for label, value in fold_scope(limit):
    world = _FoldWorld(mod)
    g = {"MAX_VAR_SIZE": limit}
    call = closure_callable(fn, g, world.resolver)
    const = world.fold(value)
    try:
      out = call(world.ctx, world.state, const)
    except _me.Outside as e:
      raise AnalysisError(f"build_folded_type uses a construct outside the evaluated "
                          f"fragment on a {label}: {e}") from e
    except _me.Diverged as e:
      raise AnalysisError(f"build_folded_type does not terminate on a {label}") from e
    except _me.Raised as e:
      results.append((label, const, None, world, f"raises {e.name}"))
      continue
    if not (isinstance(out, tuple) and len(out) == 2):
      raise AnalysisError(f"build_folded_type returned {out!r}, expected (state, value)")
    try:
      types = world.t(out[1])
    except _me.Outside as e:
      raise AnalysisError(f"build_folded_type on a {label}: {e}") from e
    results.append((label, const, types, world, None))
  return limit, results


@rule("R1.23", "C01", floor=7)
def r1_23(ctx):
  """The 'contents fully known' flag is only lowered, and is and-ed with the
  flag of every container whose contents flow in."""
  _check_flag_writes(ctx)
  mod = get_module(ctx, INST)
  found = 0
  for cname in _flag_classes(mod):
    for m, param in _merge_methods(mod, cname):
      found += 1
      problems, runs = _evaluate_merge(mod, cname, m, param)
      ctx.check(not problems, f"container-merge:{cname}.{m.name}({param})", INST, m.lineno,
                f"{cname}.{m.name} merges the type parameters of `{param}` (everything "
                f"it may contain) into the receiver but leaves the receiver's "
                f"`{FLAG}` flag set where it must not: {problems[:2]}.  The flag "
                "says 'pyval is all there is'; compare.compatible_with, "
                "contains_slot and _compare_dict then answer from a partial pyval "
                "and the branch CPython takes is pruned",
                {"runs": runs, "problems": problems[:4]})
  if not found:
    raise AnalysisError(f"{INST}: no method of a flag class merges another container "
                        "(get_instance_type_parameter of a parameter)")


@rule("R1.24", "C01", floor=42)
def r1_24(ctx):
  """A folded collection's type admits every element typestruct of the literal."""
  fn = get_module(ctx, CF).func("build_folded_type")
  limit, results = run_build_folded_type(ctx)
  for label, const, types, _, err in results:
    typ = const.attrs["typ"]
    facts = {"literal": label, "typestruct": _show_typ(typ), "MAX_VAR_SIZE": limit}
    if err:
      ctx.bad(f"folded:{label}", CF, fn.lineno,
              f"build_folded_type {err} on a {label}", facts)
      continue
    facts["result"] = _show_res(types)
    ctx.check(admits(types, typ), f"folded:{label}", CF, fn.lineno,
              f"a {label} has typestruct {_show_typ(typ)} but build_folded_type "
              f"builds a value of type {_show_res(types)}: an element type of the "
              "literal is missing from the result (it was read off a projection of "
              "the parameter set - a tag, the kept prefix - instead of the full "
              "set), so the stub excludes values the literal contains", facts)


_AND = "      self.is_concrete &= other_dict.is_concrete\n"
_TRUNC = "      elts = elements[:n] + tuple(typeconst(t) for t in params)\n"

VARIANTS = [
    # R1.23
    {"name": "seeded-C01-r3m1", "rule": "R1.23", "patch": "seeded/C01-r3m1/patch.diff",
     "expect": "fire"},
    {"name": "dict-update-forgets-the-other-flag", "rule": "R1.23", "file": INST, "expect": "fire",
     "old": _AND, "new": "      pass\n"},
    {"name": "dict-update-ands-only-when-the-receiver-is-non-empty", "rule": "R1.23",
     "file": INST, "expect": "fire",
     "old": _AND, "new": "      if self.pyval:\n        self.is_concrete &= other_dict.is_concrete\n"},
    {"name": "dict-update-copies-the-other-flag", "rule": "R1.23", "file": INST, "expect": "fire",
     "old": _AND, "new": "      self.is_concrete = other_dict.is_concrete\n"},
    {"name": "dict-update-ors-the-flags", "rule": "R1.23", "file": INST, "expect": "fire",
     "old": _AND, "new": "      self.is_concrete = self.is_concrete or other_dict.is_concrete\n"},
    {"name": "pop-slot-restores-the-flag", "rule": "R1.23", "file": INST, "expect": "fire",
     "old": "    except abstract_utils.ConversionError:\n      self.is_concrete = False\n    if not self.is_concrete:\n      if default_var:",
     "new": "    except abstract_utils.ConversionError:\n      self.is_concrete = False\n    else:\n      self.is_concrete = True\n    if not self.is_concrete:\n      if default_var:"},
    {"name": "twin-dict-update-and-spelled-out", "rule": "R1.23", "file": INST, "expect": "silent",
     "old": _AND, "new": "      self.is_concrete = self.is_concrete and other_dict.is_concrete\n"},
    {"name": "twin-dict-update-guard-clause", "rule": "R1.23", "file": INST, "expect": "silent",
     "old": _AND, "new": "      if not other_dict.is_concrete:\n        self.is_concrete = False\n"},
    {"name": "twin-dict-update-flag-through-helper-method", "rule": "R1.23", "expect": "silent",
     "edits": [(INST, _AND, "      self._absorb_concreteness(other_dict)\n"),
               (INST, "  def update(\n      self,\n      node: cfg.CFGNode,\n      other_dict:",
                "  def _absorb_concreteness(self, source):\n    known = source.is_concrete\n"
                "    self.is_concrete = self.is_concrete and known\n\n"
                "  def update(\n      self,\n      node: cfg.CFGNode,\n      other_dict:")]},
    {"name": "twin-dict-update-renamed-parameter-and-early-flag", "rule": "R1.23", "expect": "silent",
     "edits": [(INST, "    ):\n" + _AND + "      for param in (abstract_utils.K, abstract_utils.V):\n"
                "        param_value = other_dict.get_instance_type_parameter(param, node)\n",
                "    ):\n      for param in (abstract_utils.K, abstract_utils.V):\n"
                "        param_value = other_dict.get_instance_type_parameter(param, node)\n"),
               (INST, "    if isinstance(other_dict, (Dict, dict)):\n      for key, value in other_dict.items():",
                "    if isinstance(other_dict, _base.BaseValue) and not other_dict.is_concrete:\n"
                "      self.is_concrete = False\n"
                "    if isinstance(other_dict, (Dict, dict)):\n      for key, value in other_dict.items():")]},
    # R1.24
    {"name": "seeded-C01-r3m2", "rule": "R1.24", "patch": "seeded/C01-r3m2/patch.diff",
     "expect": "fire"},
    {"name": "long-list-keeps-only-the-prefix", "rule": "R1.24", "file": CF, "expect": "fire",
     "old": _TRUNC, "new": "      elts = elements[:n]\n"},
    {"name": "long-list-placeholder-for-the-first-type-only", "rule": "R1.24", "file": CF,
     "expect": "fire",
     "old": _TRUNC, "new": "      elts = elements[:n] + tuple(typeconst(t) for t in sorted(params, key=str)[:1])\n"},
    {"name": "long-dict-value-type-from-the-first-value-type", "rule": "R1.24", "file": CF,
     "expect": "fire",
     "old": "      _, v = join_types(state, v_types)\n",
     "new": "      _, v = join_types(state, sorted(v_types, key=str)[:1])\n"},
    {"name": "join-types-skips-nested-collections", "rule": "R1.24", "file": CF, "expect": "fire",
     "old": "    xs = [typeconst(t) for t in ts]\n",
     "new": "    xs = [typeconst(t) for t in ts if t[0] == 'prim'] or [typeconst(t) for t in ts]\n"},
    {"name": "twin-long-list-placeholders-by-loop", "rule": "R1.24", "file": CF, "expect": "silent",
     "old": _TRUNC,
     "new": "      placeholders = []\n      for t in params:\n        placeholders.append(typeconst(t))\n"
            "      elts = elements[:n] + tuple(placeholders)\n"},
    {"name": "twin-collect-list-guard-clauses", "rule": "R1.24", "expect": "silent",
     "edits": [(CF, "    elif len(elements) < MAX_VAR_SIZE:\n      state, vs = expand(state, elements)\n"
                "      return state, ctx.convert.build_list(state.node, vs)\n    else:\n",
                "    if len(elements) < MAX_VAR_SIZE:\n      state, vs = expand(state, elements)\n"
                "      return state, ctx.convert.build_list(state.node, vs)\n    if True:\n")]},
    {"name": "twin-placeholders-through-nested-helper", "rule": "R1.24", "expect": "silent",
     "edits": [(CF, "  def collect_list(state, params, elements):\n",
                "  def type_holders(types):\n    return tuple(typeconst(t) for t in types)\n\n"
                "  def collect_list(state, params, elements):\n"),
               (CF, _TRUNC, "      kept = elements[:n]\n      elts = kept + type_holders(params)\n")]},
]
