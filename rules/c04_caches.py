"""C04 extension (R4.9): a process-lifetime cache is keyed by everything its
value depends on.

`builtin_stubs.GetBuiltinsAndTyping(options)` memoises the parse of the bundled
stubs for the whole process.  The parse depends on `options` (version,
platform, strict_primitive_comparisons select `if` branches of the stubs), so
the cache must be looked up and filled under a key computed from `options`;
a constant slot or an emptiness test serves the first analysis' parse to every
later one (defect D48).
"""
import ast

from sa.core import rule, AnalysisError
from sa.pyindex import get_module, dotted, src

BS = "pytype/imports/builtin_stubs.py"


def _depends_on(fn, expr, params, depth=0):
  """Parameter names `expr` is data-dependent on (through single-assignment locals)."""
  out = set()
  for n in ast.walk(expr):
    if isinstance(n, ast.Name):
      if n.id in params:
        out.add(n.id)
      elif depth < 4:
        defs = [a.value for a in ast.walk(fn) if isinstance(a, ast.Assign)
                and any(isinstance(t, ast.Name) and t.id == n.id for t in a.targets)]
        for d in defs:
          out |= _depends_on(fn, d, params, depth + 1)
  return out


@rule("R4.9", "C04", floor=2)
def r4_9(ctx):
  """The builtins cache is keyed by the options its content depends on."""
  mod = get_module(ctx, BS)
  fn = mod.func("GetBuiltinsAndTyping")
  params = {a.arg for a in fn.args.args}
  caches = {n for n in mod.assigns if isinstance(mod.assigns[n], (ast.List, ast.Dict, ast.Set))
            or (isinstance(mod.assigns[n], ast.Call) and dotted(mod.assigns[n].func) in ("dict", "list", "set"))}
  used = {n.id for n in ast.walk(fn) if isinstance(n, ast.Name) and n.id in caches}
  if len(used) != 1:
    raise AnalysisError(f"GetBuiltinsAndTyping: cache variable not identified ({sorted(used)})")
  cache = used.pop()
  # what the cached value is computed from
  stores = [n for n in ast.walk(fn) if (isinstance(n, ast.Assign) and any(
      isinstance(t, ast.Subscript) and dotted(t.value) == cache for t in n.targets))
      or (isinstance(n, ast.Call) and dotted(n.func) in (f"{cache}.append", f"{cache}.setdefault"))]
  if not stores:
    raise AnalysisError("GetBuiltinsAndTyping: no store into the cache")
  need = set()
  for st in stores:
    val = st.value if isinstance(st, ast.Assign) else st.args[-1]
    need |= _depends_on(fn, val, params)
  if not need:
    raise AnalysisError("GetBuiltinsAndTyping: cached value does not depend on a parameter")
  # every access to the cache must be keyed by an expression depending on `need`
  accesses = []
  for n in ast.walk(fn):
    if isinstance(n, ast.Subscript) and dotted(n.value) == cache:
      accesses.append((n, n.slice))
    elif isinstance(n, ast.Compare) and any(dotted(c) == cache for c in n.comparators) \
        and isinstance(n.ops[0], (ast.In, ast.NotIn)):
      accesses.append((n, n.left))
    elif isinstance(n, ast.UnaryOp) and isinstance(n.op, ast.Not) and dotted(n.operand) == cache:
      accesses.append((n, None))
    elif isinstance(n, (ast.If, ast.While)) and dotted(n.test) == cache:
      accesses.append((n, None))
  if not accesses:
    raise AnalysisError("GetBuiltinsAndTyping: no cache access found")
  for i, (node, key) in enumerate(accesses):
    dep = _depends_on(fn, key, params) if key is not None else set()
    ctx.check(need <= dep, f"GetBuiltinsAndTyping:{cache}:access#{i}:{src(node)[:40]}", BS, node.lineno,
              f"the cached stubs are computed from {sorted(need)} but this "
              f"access `{src(node)}` is keyed by "
              f"{'nothing' if key is None else src(key)} (depends on {sorted(dep)}): "
              "an analysis with other options gets the stubs parsed for the first one",
              {"value_depends_on": sorted(need), "key_depends_on": sorted(dep)})


VARIANTS = [
    {"name": "revert-D48-single-slot-cache", "rule": "R4.9", "file": BS, "expect": "fire",
     "old": "  key = dataclasses.astuple(options)\n  if key not in _cached_builtins_pytd:\n    _cached_builtins_pytd[key] = BuiltinsAndTyping().load(options)\n  return _cached_builtins_pytd[key]\n",
     "new": "  if not _cached_builtins_pytd:\n    _cached_builtins_pytd[0] = BuiltinsAndTyping().load(options)\n  return _cached_builtins_pytd[0]\n"},
    {"name": "twin-key-by-field-tuple", "rule": "R4.9", "file": BS, "expect": "silent",
     "old": "  key = dataclasses.astuple(options)\n",
     "new": "  key = (options.python_version, options.platform, options.strict_primitive_comparisons)\n"},
]
