"""C03 - a disable comment silences exactly that error.

Decides: own-line registration, single writer + filter on the error log,
filter semantics, per-line over range precedence, no directive lost while line
ranges merge, directive syntax, and that a trailing directive registers only
its own line (D16 = known finding).  Does NOT decide which line the VM
attributes an error to.
"""
import ast
import itertools
import re
import re._constants as sc
import re._parser as sp

from sa.core import rule, AnalysisError
from sa.pyindex import (get_module, dotted, src, calls_in, fold, Unfoldable,
                        walk_no_nested, all_py_files)
from sa import flow

EXPLANATION = (
    "Static necessary conditions for 'a disable comment silences exactly that "
    "error', on the AST of directors/directors.py, directors/parser.py, "
    "errors/errors.py and vm.py: R3.1 on every path a trailing directive "
    "registers the comment's own line on the line set of the named error with "
    "the stated polarity (an open-ended one starts a range there), and reaching "
    "that code does not depend on the position; R3.2 ErrorLog._add is the only "
    "writer of ErrorLog._errors, the append is control-dependent on the filter, "
    "CheckPoint only truncates, every Error built in the log classes flows into "
    "_add, and run_program installs director.filter_error before run_bytecode; "
    "R3.3 filter_error returns true iff the line is in none of _ignore, "
    "_disables['*'], _disables[error.name] (truth-table comparison); R3.4 a "
    "per-line entry wins over the range list and set_line stores the polarity; "
    "R3.5 every raw structured comment seeds a base LineRange group, merged "
    "groups are extended before they are deleted, base ranges are never "
    "skipped, every comment of every group is dispatched; R3.6 regex ASTs of "
    "_DIRECTIVE_RE / IGNORE_RE and the disable/enable wiring; R3.7 a trailing "
    "directive registers only its own line (violated by design today: D16). "
    "Not decided: which line the VM attributes an error to, the semantics of "
    "the line adjustment tables, the tokenizer.")
ASSUMPTIONS = [
    "the VM reports an error through ctx.errorlog (VmErrorLog) with the line "
    "CPython's line table gives the opcode; line attribution is out of scope",
    "_LineSet.set_line is only ever given bool memberships (so `is not None` "
    "separates 'entry present' from 'no entry')",
    "python semantics of re.match/finditer and collections.OrderedDict; the "
    "tokenize module delivers every comment token",
]

DIR = "pytype/directors/directors.py"
PAR = "pytype/directors/parser.py"
ERR = "pytype/errors/errors.py"
VM = "pytype/vm.py"
_REG = ("set_line", "start_range")
_POSITIONAL = {"line", "line_range", "open_ended", "disable", "final_line"}
GROUPS = "self.structured_comment_groups"


# -- small helpers ------------------------------------------------------------

def _stored(node):
  return {n.id for n in ast.walk(node) if isinstance(n, ast.Name)
          and isinstance(n.ctx, (ast.Store, ast.Del))}


def _params(fn):
  a = fn.args
  return [x.arg for x in a.posonlyargs + a.args + a.kwonlyargs]


def _single_def(fn, name):
  """Value of the only binding of local `name` (None: never bound in fn)."""
  vals, stores = [], 0
  for n in walk_no_nested(fn):
    if isinstance(n, ast.Name) and n.id == name and not isinstance(n.ctx, ast.Load):
      stores += 1
    if isinstance(n, ast.Assign) and any(dotted(t) == name for t in n.targets):
      vals.append(n.value)
  if stores == 0:
    return None
  if stores != 1 or len(vals) != 1:
    raise AnalysisError(f"{fn.name}: local {name} is not bound exactly once")
  return vals[0]


def _resolve(fn, node):
  """Source of the expression `node` denotes; once-bound locals are inlined."""
  if isinstance(node, ast.Name) and node.id not in _params(fn):
    v = _single_def(fn, node.id)
    if v is not None:
      return src(v)
  return src(node)


def _bind(call, fn):
  """Parameter name -> argument node (self/cls dropped)."""
  names = [a.arg for a in fn.args.posonlyargs + fn.args.args]
  if names and names[0] in ("self", "cls"):
    names = names[1:]
  if any(isinstance(a, ast.Starred) for a in call.args) or len(call.args) > len(names) \
      or any(k.arg is None for k in call.keywords):
    raise AnalysisError(f"cannot bind arguments of {src(call)}")
  out = dict(zip(names, call.args))
  out.update({k.arg: k.value for k in call.keywords})
  return out


def _qual(mod, node):
  parts = []
  while node in mod.parent:
    node = mod.parent[node]
    if isinstance(node, (ast.FunctionDef, ast.AsyncFunctionDef, ast.ClassDef)):
      parts.append(node.name)
  return ".".join(reversed(parts)) or "<module>"


def _gtxt(mod, node, fn):
  return [(src(t), p) for t, p in flow.guards(mod.parent, mod.enclosing_stmt(node))]


def try_const(mod, name):
  try:
    return fold(mod.const(name), mod=mod)
  except Unfoldable:
    return None


def _returns(fn):
  return [n for n in walk_no_nested(fn) if isinstance(n, ast.Return)]


_SIMPLE = (ast.Expr, ast.Assign, ast.AnnAssign, ast.AugAssign, ast.Pass,
           ast.Assert, ast.Delete)


def _paths(block, acc=()):
  """(events, how) per path; events are ("cond", test, pol) / ("stmt", node)."""
  if not block:
    yield acc, "fall"
    return
  st, rest = block[0], block[1:]
  if isinstance(st, ast.If):
    for pol, sub in ((True, st.body), (False, st.orelse)):
      for ev, how in _paths(sub, acc + (("cond", st.test, pol),)):
        if how == "fall":
          yield from _paths(rest, ev)
        else:
          yield ev, how
  elif isinstance(st, (ast.Return, ast.Raise, ast.Continue, ast.Break)):
    yield acc + (("stmt", st),), type(st).__name__.lower()
  elif isinstance(st, _SIMPLE):
    yield from _paths(rest, acc + (("stmt", st),))
  else:
    raise AnalysisError(f"path enumeration: unsupported {type(st).__name__}")


def _eq_test(test, pol, a, b):
  """Does `test` with polarity `pol` establish a == b (two local names)?"""
  while isinstance(test, ast.UnaryOp) and isinstance(test.op, ast.Not):
    test, pol = test.operand, not pol
  return (isinstance(test, ast.Compare) and len(test.ops) == 1
          and isinstance(test.ops[0], (ast.Eq, ast.NotEq))
          and {dotted(test.left), dotted(test.comparators[0])} == {a, b} and a != b
          and isinstance(test.ops[0], ast.Eq) == pol)


def _path_equal(events, upto, name):
  ok = False
  for ev in events[:upto]:
    if ev[0] == "cond":
      ok = ok or _eq_test(ev[1], ev[2], name, "line")
    elif name in _stored(ev[1]):
      ok = False
  return ok


def _reg_args(ctx, call):
  b = _bind(call, get_module(ctx, DIR).func(f"_LineSet.{call.func.attr}"))
  if set(b) != {"line", "membership"}:
    raise AnalysisError(f"{src(call)}: not (line, membership)")
  return b["line"], b["membership"]


def _registers(ctx, fn, events, meth, recv, memb):
  """Does this path call <recv>.<meth>(line, <memb>)?"""
  for i, ev in enumerate(events):
    if ev[0] != "stmt":
      continue
    for c in flow.unconditional_calls(ev[1]):
      if not (isinstance(c.func, ast.Attribute) and c.func.attr == meth):
        continue
      a, m = _reg_args(ctx, c)
      if _resolve(fn, c.func.value) == recv and src(m) == memb and isinstance(a, ast.Name) \
          and (a.id == "line" or _path_equal(events, i, a.id)):
        return True
  return False


def _arms(mod, qual):
  """(fn, if-stmt, open-ended arm, trailing arm, expected receiver, membership)."""
  fn = mod.func(qual)
  if not {"line", "open_ended"} <= set(_params(fn)) or {"line", "open_ended"} & _stored(fn):
    raise AnalysisError(f"{qual}: parameters line/open_ended missing or rebound")
  ifs = [n for n in walk_no_nested(fn) if isinstance(n, ast.If)
         and "open_ended" in flow.names_in(n.test)]
  if len(ifs) != 1 or src(ifs[0].test) not in ("open_ended", "not open_ended"):
    raise AnalysisError(f"{qual}: expected one `if open_ended` split")
  st = ifs[0]
  arms = (st.body, st.orelse) if src(st.test) == "open_ended" else (st.orelse, st.body)
  if qual.endswith("_process_disable"):
    loop = st
    while loop is not fn and not isinstance(loop, ast.For):
      loop = mod.parent[loop]
    if not (isinstance(loop, ast.For) and isinstance(loop.target, ast.Name)
            and src(loop.iter) in ("values", "sorted(values)", "list(values)")):
      raise AnalysisError(f"{qual}: the split is not inside `for <name> in values`")
    return fn, st, arms[0], arms[1], f"self._disables[{loop.target.id}]", "disable", loop.target.id
  return fn, st, arms[0], arms[1], "self._ignore", "True", None


_PROCS = ("Director._process_disable", "Director._process_type")


# -- R3.1 -----------------------------------------------------------------------

@rule("R3.1", "C03", floor=6)
def r3_1(ctx):
  """The comment's own line is always registered."""
  mod = get_module(ctx, DIR)
  for qual in _PROCS:
    fn, st, open_arm, trail, recv, memb, loopvar = _arms(mod, qual)
    for arm, meth, tag in ((trail, "set_line", "own-line"), (open_arm, "start_range", "open-ended-range")):
      todo = [ev for ev, how in _paths(arm) if how != "raise"]
      missing = [[src(e[1]) for e in ev if e[0] == "cond"] for ev in todo
                 if not _registers(ctx, fn, ev, meth, recv, memb)]
      ctx.check(not missing, f"{qual}:{tag}", DIR, st.lineno,
                f"a path through the {tag} arm (conditions {missing[:1]}) does not call "
                f"{recv}.{meth}(line, {memb})", {"paths": len(todo), "receiver": recv})
    # reaching the split must not depend on where the comment is
    flag = None
    if loopvar is None:
      cand = [n for n in flow.names_in(mod.parent[st].test)] if isinstance(mod.parent[st], ast.If) else []
      flag = cand[0] if len(cand) == 1 else None
      v = _single_def(fn, flag) if flag else None
      if v is None or "IGNORE_RE" not in src(v):
        raise AnalysisError(f"{qual}: the ignore flag guarding the split was not found")
    wrong = []
    for t, p in flow.guards(mod.parent, st):
      if flag and ((p and src(t) == flag) or (not p and (src(t) == f"not {flag}" or (
          isinstance(t, ast.BoolOp) and isinstance(t.op, ast.And)
          and f"not {flag}" in [src(v) for v in t.values])))):
        continue
      names = flow.names_in(t)
      if not flag and names <= {loopvar, "values", "keep", "self", "_ALL_ERRORS"}:
        continue
      if names & _POSITIONAL or flag:
        wrong.append((src(t), p))
      else:
        raise AnalysisError(f"{qual}: unrecognised guard {src(t)}")
    ctx.check(not wrong, f"{qual}:arm-guards", DIR, st.lineno,
              f"registration is conditional on {wrong}: a directive at some "
              "position is silently not registered", {"guards": _gtxt(mod, st, fn)})


# -- R3.7 -----------------------------------------------------------------------

def _canon(fn, node):
  s = _resolve(fn, node) if isinstance(node, ast.Name) and node.id != "line" else src(node)
  if s == "line_range.start_line" or s.startswith("self._adjust_line_number_for_pytype_directive("):
    return "final_line"   # the range start line (D16 mechanism), whatever the local is called
  return src(node)


@rule("R3.7", "C03", floor=7)
def r3_7(ctx):
  """A trailing directive registers only its own line (D16 known finding)."""
  mod = get_module(ctx, DIR)
  adj = mod.func("Director._adjust_line_number_for_pytype_directive")
  rets = sorted({src(r.value) if r.value else "None" for r in _returns(adj)})
  ctx.check(set(rets) <= {"line", "line_range.start_line"} and _params(adj)[1:2] == ["line"]
            and "line_range" in _params(adj) and flow.terminates(adj.body),
            "Director._adjust_line_number_for_pytype_directive:returns", DIR, adj.lineno,
            f"returns {rets}; only the own line or the range start line are expected",
            {"returns": rets})
  for qual in _PROCS:
    fn, st, open_arm, trail, recv, memb, _ = _arms(mod, qual)
    opens = {id(n) for s in open_arm for n in ast.walk(s)}
    for c in calls_in(fn):
      if not (isinstance(c.func, ast.Attribute) and c.func.attr in _REG):
        continue
      a, m = _reg_args(ctx, c)
      got = _resolve(fn, c.func.value)
      name = f"{qual}:{c.func.attr}({_canon(fn, a)})" + ("" if got == recv else f"@{got}")
      g = flow.guards(mod.parent, mod.enclosing_stmt(c))
      own = isinstance(a, ast.Name) and (a.id == "line" or any(
          _eq_test(t, p, a.id, "line") for t, p in g))
      why = []
      if got != recv:
        why.append(f"writes line set {got}, expected {recv}")
      if src(m) != memb:
        why.append(f"membership {src(m)}, expected {memb}")
      if not own:
        why.append(f"registers line `{src(a)}`, which is not the comment's own line")
      if c.func.attr == "start_range" and id(c) not in opens:
        why.append("starts a range for a trailing (not open-ended) directive")
      ctx.check(not why, name, DIR, c.lineno, "; ".join(why),
                {"receiver": got, "line": src(a), "membership": src(m)})


# -- R3.2 -----------------------------------------------------------------------

_MUT = {"append", "extend", "insert", "remove", "pop", "clear", "sort", "reverse",
        "__setitem__", "__delitem__", "__iadd__", "__imul__"}
_READERS = {"len", "iter", "sorted", "any", "all", "list", "tuple", "enumerate",
            "reversed", "bool", "sum"}


def _uses(mod, attr):
  """Classifies every `<x>.<attr>` occurrence: read / rebind / mutate:* / escape."""
  out = []
  for n in ast.walk(mod.tree):
    if not (isinstance(n, ast.Attribute) and n.attr == attr):
      continue
    p = mod.parent[n]
    gp = mod.parent.get(p)
    if not isinstance(n.ctx, ast.Load):
      kind = "rebind"
    elif isinstance(p, ast.Attribute) and isinstance(gp, ast.Call) and gp.func is p:
      kind = "mutate:" + p.attr if p.attr in _MUT else "read"
    elif isinstance(p, ast.Subscript) and p.value is n:
      kind = "read" if isinstance(p.ctx, ast.Load) else "mutate:setitem"
    elif isinstance(p, ast.Call) and n in p.args and dotted(p.func) in _READERS:
      kind = "read"
    elif isinstance(p, (ast.For, ast.comprehension)) and p.iter is n:
      kind = "read"
    else:
      kind = "escape"
    out.append((kind, _qual(mod, n), n))
  return out


def _writers(uses):
  return sorted({(q, k) for k, q, _ in uses if k not in ("read", "escape")})


def _filter_test(t, err):
  """Is `t` true only if the filter is absent or accepted `err`?"""
  call, none = f"self._filter({err})", ("self._filter is None", "not self._filter")
  if isinstance(t, ast.BoolOp) and isinstance(t.op, ast.Or):
    ops = [src(v) for v in t.values]
    return call in ops and all(o == call or o in none for o in ops)
  if isinstance(t, ast.BoolOp):
    return any(_filter_test(v, err) for v in t.values)
  return src(t) == call


@rule("R3.2", "C03", floor=15)
def r3_2(ctx):
  """Single writer of the error list, behind the filter; the filter is installed."""
  mod = get_module(ctx, ERR)
  uses = _uses(mod, "_errors")
  init = [src(mod.parent[n].value) for k, q, n in uses if k == "rebind"
          and isinstance(mod.parent[n], ast.Assign)]
  w = _writers(uses)
  ctx.check(w == [("ErrorLog.__init__", "rebind"), ("ErrorLog._add", "mutate:append")]
            and init == ["[]"], "ErrorLog._errors:writers", ERR, 0,
            f"writers of _errors are {w} (initial value {init}); only ErrorLog._add "
            "may append", {"writers": w})
  esc = [(q, src(mod.parent[n]), mod.parent[n], n) for k, q, n in uses if k == "escape"]
  bad = [e[:2] for e in esc if not (isinstance(e[2], ast.Call) and dotted(e[2].func) == "CheckPoint"
                                    and e[2].args[:1] == [e[3]])]
  ctx.check(not bad, "ErrorLog._errors:escapes", ERR, 0,
            f"the error list escapes to {bad}; only CheckPoint(self._errors) is understood",
            {"escapes": [e[:2] for e in esc]})
  cp = _uses(mod, "_errorlog_errors")
  w = _writers(cp)
  trunc = [mod.parent[mod.parent[n]] for k, q, n in cp if k == "mutate:setitem"]
  pos = [src(mod.parent[n].value) for k, q, n in _uses(mod, "_position") if k == "rebind"
         and isinstance(mod.parent[n], ast.Assign)]
  cinit = mod.func("CheckPoint.__init__")
  ok = (w == [("CheckPoint.__init__", "rebind"), ("CheckPoint.revert", "mutate:setitem")]
        and not [1 for k, _, _ in cp if k == "escape"] and len(trunc) == 1
        and isinstance(trunc[0], ast.Assign)
        and src(trunc[0].targets[0]) == "self._errorlog_errors[:]"
        and src(trunc[0].value) == "self._errorlog_errors[:self._position]"
        and pos == [f"len({_params(cinit)[1]})"])
  ctx.check(ok, "CheckPoint:truncate-only", ERR, cinit.lineno,
            f"CheckPoint writes {w}, {[src(t) for t in trunc]}, _position={pos}; it may "
            "only cut the list back to the recorded length", {"writers": w, "position": pos})
  # _add: append(error) is control-dependent on the filter accepting error
  add = mod.func("ErrorLog._add")
  err = _params(add)[1]
  apps = [c for c in calls_in(add) if dotted(c.func) == "self._errors.append"]
  g = [flow.guards(mod.parent, mod.enclosing_stmt(c)) for c in apps]
  ok = bool(apps) and all(
      [src(a) for a in c.args] == [err] and any(p and _filter_test(t, err) for t, p in gs)
      for c, gs in zip(apps, g)) and err not in _stored(add)
  ctx.check(ok, "ErrorLog._add:filter-guard", ERR, add.lineno,
            "append must be guarded by `self._filter is None or self._filter(error)` "
            f"for the appended error; guards={[[(src(t), p) for t, p in gs] for gs in g]}",
            {"guards": [[(src(t), p) for t, p in gs] for gs in g]})
  fw = sorted((q, src(mod.parent[n].value)) for k, q, n in _uses(mod, "_filter")
              if k == "rebind" and isinstance(mod.parent[n], ast.Assign))
  sef = mod.func("ErrorLog.set_error_filter")
  ctx.check(fw == [("ErrorLog.__init__", "None"), ("ErrorLog.set_error_filter", _params(sef)[1])]
            and not [1 for k, _, _ in _uses(mod, "_filter") if k.startswith("mutate")],
            "ErrorLog._filter:writers", ERR, sef.lineno,
            f"_filter is assigned in {fw}; only __init__ and set_error_filter may", {"writers": fw})
  # every Error built in the log classes flows into _add
  for cls in ("ErrorLog", "VmErrorLog"):
    for name, fn in sorted(mod.methods(cls).items()):
      made = [c for c in calls_in(fn) if dotted(c.func) in ("Error", "Error.with_stack")]
      for i, c in enumerate(made):
        st = mod.enclosing_stmt(c)
        var = dotted(st.targets[0]) if isinstance(st, ast.Assign) and st.value is c else None

        def adds(u, c=c, var=var):
          return any(dotted(k.func) == "self._add" and len(k.args) == 1 and (
              k.args[0] is c or (var and dotted(k.args[0]) == var))
                     for k in flow.unconditional_calls(u))
        f = flow.flow(fn, mode="may",
                      gen=lambda u, c=c: {"pending"} if any(n is c for n in flow.unconditional_nodes(u))
                      and not adds(u) else (),
                      kill=lambda u: {"pending"} if adds(u) else ())
        lost = [k for k, _, s in f.exits if k != "raise" and s and "pending" in s]
        direct = adds(st)
        ctx.check(not lost and (direct or var), f"{cls}.{name}:Error->_add" + (f"#{i}" if i else ""),
                  ERR, c.lineno, "an Error is created here but does not reach self._add "
                  "on every path (it would bypass the filter or be dropped)",
                  {"via": "direct" if direct else var})
  # vm.run_program installs the director's filter before any bytecode runs
  vm = get_module(ctx, VM)
  run = vm.func("VirtualMachine.run_program")
  inst = calls_in(run, suffix="set_error_filter")
  dirs = [n for n in walk_no_nested(run) if isinstance(n, ast.Assign)
          and isinstance(n.value, ast.Call) and dotted(n.value.func) == "directors.Director"]
  if len(dirs) != 1 or not isinstance(dirs[0].targets[0], ast.Name):
    raise AnalysisError("run_program: `<name> = directors.Director(...)` not found")
  dname = dirs[0].targets[0].id
  good = [c for c in inst if dotted(c.func) == "self.ctx.errorlog.set_error_filter"
          and [src(a) for a in c.args] == [f"{dname}.filter_error"]]
  ctx.check(len(good) == 1 and len(inst) == 1, "VirtualMachine.run_program:installs-filter",
            VM, run.lineno, f"set_error_filter calls: {[src(c) for c in inst]}; expected exactly "
            f"self.ctx.errorlog.set_error_filter({dname}.filter_error)",
            {"calls": [src(c) for c in inst]})
  b = {k: src(v) for k, v in _bind(dirs[0].value, get_module(ctx, DIR).func("Director.__init__")).items()}
  ctx.check(b.get("errorlog") == "self.ctx.errorlog" and b.get("filename") in ("filename", "self.filename")
            and "filename" not in _stored(run), "VirtualMachine.run_program:director-wiring", VM,
            dirs[0].lineno, f"Director is built with {b}; the filter compares error.filename "
            "with this filename and must see the analysed file", {"args": b})
  f = flow.flow(run, gen=lambda u: {"installed"} if any(c in good for c in flow.unconditional_calls(u)) else ())
  runs = calls_in(run, suffix="run_bytecode")
  if not runs:
    raise AnalysisError("run_program: run_bytecode call not found")
  ok = all("installed" in (f.before.get(vm.enclosing_stmt(c)) or ()) for c in runs)
  ctx.check(ok, "VirtualMachine.run_program:filter-dominates-run_bytecode", VM, runs[0].lineno,
            "run_bytecode is reachable before the director's filter is installed", {"runs": len(runs)})
  if ctx.tier == "thorough":   # who-may-write over the whole package
    foreign, setters, n = [], [], 0
    for rel in all_py_files(ctx):
      text = ctx.read(rel)
      if "_errors" not in text and "set_error_filter" not in text:
        continue
      m = get_module(ctx, rel)
      n += 1
      if rel != ERR:
        foreign += [(rel, q, k) for a in ("_errors", "_errorlog_errors")
                    for k, q, _ in _uses(m, a) if k != "read"]
      setters += [(rel, _qual(m, c)) for c in calls_in(m.tree, suffix="set_error_filter")]
    ctx.check(not foreign, "package:_errors-foreign-writers", ERR, 0,
              f"the error list is written outside errors.py: {foreign}", {"files": n})
    ctx.check(setters == [(VM, "VirtualMachine.run_program")], "package:set_error_filter-callers",
              VM, 0, f"set_error_filter is called from {setters}; only run_program may",
              {"callers": setters})


# -- R3.3 -----------------------------------------------------------------------

def _atoms(node, out):
  if isinstance(node, ast.BoolOp):
    for v in node.values:
      _atoms(v, out)
  elif isinstance(node, ast.UnaryOp) and isinstance(node.op, ast.Not):
    _atoms(node.operand, out)
  elif isinstance(node, ast.Compare) and len(node.ops) == 1 and isinstance(node.ops[0], (ast.In, ast.NotIn)):
    out.add((src(node.left), src(node.comparators[0])))
  else:
    raise AnalysisError(f"filter_error: not a membership combination: {src(node)}")
  return out


def _beval(node, val):
  if isinstance(node, ast.BoolOp):
    vs = [_beval(v, val) for v in node.values]
    return all(vs) if isinstance(node.op, ast.And) else any(vs)
  if isinstance(node, ast.UnaryOp):
    return not _beval(node.operand, val)
  r = val[(src(node.left), src(node.comparators[0]))]
  return r if isinstance(node.ops[0], ast.In) else not r


@rule("R3.3", "C03", floor=4)
def r3_3(ctx):
  """filter_error = line in none of _ignore, _disables['*'], _disables[name]."""
  mod = get_module(ctx, DIR)
  fn = mod.func("Director.filter_error")
  err = _params(fn)[1]
  final = fn.body[-1]
  if not isinstance(final, ast.Return) or final.value is None:
    raise AnalysisError("filter_error does not end in a return")
  atoms = sorted(_atoms(final.value, set()))
  want = {"self._ignore", "self._disables[_ALL_ERRORS]", f"self._disables[{err}.name]"}
  table_ok = all(_beval(final.value, dict(zip(atoms, bits))) == (not any(bits))
                 for bits in itertools.product((False, True), repeat=len(atoms)))
  lefts = {a for a, _ in atoms}
  ctx.check(table_ok and {c for _, c in atoms} == want and len(lefts) == 1,
            "Director.filter_error:conjunction", DIR, final.lineno,
            f"returns {src(final.value)}: must be true iff one and the same line is in none of {sorted(want)}",
            {"atoms": atoms})
  left = sorted(lefts)[0]
  v = _single_def(fn, left) if left.isidentifier() else None
  s = src(v) if v is not None else left
  ctx.check(f"{err}.line" in (flow.attrs_in(v) if v is not None else {left}),
            "Director.filter_error:line-source", DIR, final.lineno,
            f"the tested line is `{s}`; it must be the error's line", {"line": s})
  allowed = {f"{err}.filename != self._filename", f"{err}.line is None"}
  odd = []
  for r in _returns(fn):
    if r is final:
      continue
    g = flow.guards(mod.parent, r)
    ops = [src(x) for x in g[0][0].values] if len(g) == 1 and isinstance(g[0][0], ast.BoolOp) \
        and isinstance(g[0][0].op, ast.Or) else [src(t) for t, _ in g]
    if not (src(r.value) == "True" and len(g) == 1 and g[0][1] and set(ops) <= allowed):
      odd.append((src(r), [(src(t), p) for t, p in g]))
  ctx.check(not odd, "Director.filter_error:early-returns", DIR, fn.lineno,
            f"early exits {odd} bypass the ignore/disable tests; only errors of another "
            "file or without a line may", {"allowed": sorted(allowed)})
  init = mod.func("Director.__init__")
  sets = {dotted(n.targets[0]): src(n.value) for n in walk_no_nested(init)
          if isinstance(n, ast.Assign) and dotted(n.targets[0]) in ("self._ignore", "self._disables")}
  ctx.check(sets == {"self._ignore": "_LineSet()", "self._disables": "collections.defaultdict(_LineSet)"},
            "Director.__init__:line-sets", DIR, init.lineno,
            f"_ignore/_disables are {sets}; membership must be _LineSet.__contains__", {"sets": sets})
  if try_const(mod, "_ALL_ERRORS") != "*":
    raise AnalysisError("_ALL_ERRORS is not the wildcard string")


# -- R3.4 -----------------------------------------------------------------------

@rule("R3.4", "C03", floor=3)
def r3_4(ctx):
  """A per-line entry takes precedence over the range list."""
  mod = get_module(ctx, DIR)
  fn = mod.func("_LineSet.__contains__")
  key = _params(fn)[1]
  rets = _returns(fn)
  spec = [r for r in rets if isinstance(r.value, ast.Name)
          and _resolve(fn, r.value) == f"self._lines.get({key})"]
  if len(spec) != 1:
    if "self._lines" in flow.attrs_in(fn):
      raise AnalysisError("__contains__: per-line lookup has an unknown shape")
    ctx.bad("_LineSet.__contains__:specific-first", DIR, fn.lineno,
            "per-line entries (_lines) are not consulted at all")
    return
  v = spec[0].value.id
  hit, miss = [(f"{v} is not None", True), (f"{v} is None", False)], \
      [(f"{v} is not None", False), (f"{v} is None", True)]
  g = _gtxt(mod, spec[0], fn)
  ctx.check(len(g) == 1 and g[0] in hit, "_LineSet.__contains__:specific-first", DIR, spec[0].lineno,
            f"the per-line entry is returned under {g}; it must be returned exactly when it is not None",
            {"guards": g})
  others = [r for r in rets if r is not spec[0]]
  if len(others) != 1:
    raise AnalysisError("__contains__: expected one range fall-back return")
  r = others[0]
  g = _gtxt(mod, r, fn)
  val = r.value
  shape = (isinstance(val, ast.Compare) and len(val.ops) == 1 and isinstance(val.left, ast.BinOp)
           and isinstance(val.left.op, ast.Mod) and src(val.left.right) == "2"
           and isinstance(val.ops[0], (ast.Eq, ast.NotEq)) and src(val.comparators[0]) in ("0", "1"))
  if not shape:
    raise AnalysisError(f"__contains__: range parity test has unknown shape {src(val)}")
  pos = _resolve(fn, val.left.left)
  odd = isinstance(val.ops[0], ast.Eq) == (src(val.comparators[0]) == "1")
  ctx.check(any(x in miss for x in g) and odd and pos in (
      f"bisect.bisect(self._transitions, {key})", f"bisect.bisect_right(self._transitions, {key})"),
            "_LineSet.__contains__:range-fallback", DIR, r.lineno,
            f"range answer `{src(val)}` (pos={pos}) under {g}: it must be consulted only when "
            "there is no per-line entry and be true for an odd bisect_right position",
            {"guards": g, "pos": pos})
  sl = mod.func("_LineSet.set_line")
  a, b = _params(sl)[1:3]
  st = [(src(n.targets[0]), src(n.value)) for n in sl.body if isinstance(n, ast.Assign)]
  if any(not isinstance(n, (ast.Assign, ast.Expr)) for n in sl.body):
    raise AnalysisError("_LineSet.set_line: body is not straight-line")
  ctx.check(st == [(f"self._lines[{a}]", b)], "_LineSet.set_line:stores", DIR, sl.lineno,
            f"set_line performs {st}; it must store the given membership under the given line",
            {"stores": st})


# -- R3.5 -----------------------------------------------------------------------

@rule("R3.5", "C03", floor=7)
def r3_5(ctx):
  """No directive is lost between the tokenizer and the Director."""
  mod = get_module(ctx, PAR)
  init = mod.func("_ParseVisitor.__init__")
  raw = _params(init)[1]
  seeds = [n for n in walk_no_nested(init) if isinstance(n, ast.Assign) and dotted(n.targets[0]) == GROUPS]
  if len(seeds) != 1:
    raise AnalysisError("_ParseVisitor.__init__: structured_comment_groups seed not found")
  val = seeds[0].value
  comp = val.args[0] if isinstance(val, ast.Call) and dotted(val.func) in (
      "collections.OrderedDict", "OrderedDict", "dict") and len(val.args) == 1 else val
  if isinstance(comp, (ast.GeneratorExp, ast.ListComp)) and isinstance(comp.elt, ast.Tuple) \
      and len(comp.elt.elts) == 2:
    k, v = comp.elt.elts
  elif isinstance(comp, ast.DictComp):
    k, v = comp.key, comp.value
  else:
    raise AnalysisError(f"structured_comment_groups seed has unknown shape: {src(val)[:60]}")
  gen = comp.generators[0]
  if len(comp.generators) != 1 or src(gen.iter) not in (f"{raw}.items()", f"self._{raw}.items()") \
      or not (isinstance(gen.target, ast.Tuple) and len(gen.target.elts) == 2):
    raise AnalysisError("structured_comment_groups seed does not iterate the raw comments")
  ln, cs = (src(e) for e in gen.target.elts)
  copies = (f"list({cs})", cs, f"{cs}[:]", f"[*{cs}]", f"{cs}.copy()")
  if src(v) not in copies and cs in flow.names_in(v):
    raise AnalysisError(f"seed group value has unknown shape: {src(v)}")
  why = []
  if gen.ifs:
    why.append(f"raw comments are filtered by {[src(i) for i in gen.ifs]}")
  if src(k) != f"LineRange({ln}, {ln})":
    why.append(f"group key is {src(k)}, not the never-skipped base LineRange({ln}, {ln})")
  if src(v) not in copies:
    why.append(f"group value {src(v)} does not hold the comments")
  ctx.check(not why, "_ParseVisitor.__init__:seed", PAR, seeds[0].lineno, "; ".join(why),
            {"key": src(k), "value": src(v), "ifs": len(gen.ifs)})
  # merging: extend before delete, and the extended list is the stored one
  q = "_ParseVisitor._add_structured_comment_group"
  fn = mod.func(q)
  new = [n for n in walk_no_nested(fn) if isinstance(n, ast.Assign) and len(n.targets) == 2
         and src(n.value) == "[]" and {type(t) for t in n.targets} == {ast.Name, ast.Subscript}]
  if len(new) != 1:
    raise AnalysisError(f"{q}: `groups[key] = new_group = []` not found")
  ng = [t.id for t in new[0].targets if isinstance(t, ast.Name)][0]
  sub = [t for t in new[0].targets if isinstance(t, ast.Subscript)][0]
  ctx.check(src(sub.value) == GROUPS and isinstance(fn.body[-1], ast.Return)
            and src(fn.body[-1].value) == ng and _single_def(fn, ng) is new[0].value,
            f"{q}:new-group-stored", PAR, new[0].lineno,
            "the list that absorbs merged groups must be the one stored in "
            "structured_comment_groups and returned", {"name": ng, "stored_in": src(sub)})

  def gen_ext(u):
    return {("ext", c.args[0].slice.id) for c in flow.unconditional_calls(u)
            if dotted(c.func) == f"{ng}.extend" and len(c.args) == 1
            and isinstance(c.args[0], ast.Subscript) and src(c.args[0].value) == GROUPS
            and isinstance(c.args[0].slice, ast.Name)}

  def kill(u):
    names = _stored(u)
    return (lambda f: f[1] in names or ng in names) if names else None
  f = flow.flow(fn, gen_ext, kill)
  removers = set()
  for n in ast.walk(mod.cls("_ParseVisitor")):
    if isinstance(n, ast.Delete):
      for t in n.targets:
        if isinstance(t, ast.Subscript) and src(t.value) == GROUPS:
          removers.add(_qual(mod, n))
          if mod.enclosing_function(n) is fn:
            key = src(t.slice)
            ctx.check(("ext", key) in (f.before.get(n) or ()), f"{q}:del[{key}]", PAR, n.lineno,
                      f"group {key} is deleted without `{ng}.extend({GROUPS}[{key}])` on every "
                      "path before it: its directives are lost", {"before": sorted(f.before.get(n) or ())})
    elif isinstance(n, ast.Call) and isinstance(n.func, ast.Attribute) and src(n.func.value) == GROUPS \
        and n.func.attr in ("pop", "popitem", "clear"):
      par = mod.parent[n]
      if not (isinstance(par, ast.Call) and dotted(par.func) == f"{ng}.extend"):
        removers.add(_qual(mod, n) + ":" + n.func.attr)
    elif isinstance(n, ast.Attribute) and src(n) == GROUPS and not isinstance(n.ctx, ast.Load) \
        and _qual(mod, n) != "_ParseVisitor.__init__":
      removers.add(_qual(mod, n) + ":rebind")
  ctx.check(removers <= {q}, "structured_comment_groups:removers", PAR, fn.lineno,
            f"groups are removed in {sorted(removers)}; only {q} (extend-then-delete) may",
            {"removers": sorted(removers)})
  # Director side: base ranges are never skipped, every comment is dispatched
  dmod = get_module(ctx, DIR)
  keep = dmod.func("Director._process_disable.keep")
  wrong = []
  for r in _returns(keep):
    g = flow.guards(dmod.parent, r)
    is_call = any(p and isinstance(t, ast.Call) and dotted(t.func) == "isinstance" and len(t.args) == 2
                  and src(t.args[0]) == "line_range" and src(t.args[1]).endswith("Call") for t, p in g)
    if not is_call and src(r.value) != "True":
      wrong.append(src(r))
  ctx.check(not wrong and flow.terminates(keep.body), "Director._process_disable.keep:base-range", DIR,
            keep.lineno, f"keep() answers {wrong} for a base LineRange; only Call ranges may be skipped",
            {"returns": [src(r) for r in _returns(keep)]})
  fn = dmod.func("Director._parse_src_tree")
  for target in ("_process_type", "_process_pytype"):
    calls = calls_in(fn, name=f"self.{target}")
    if len(calls) != 1:
      raise AnalysisError(f"_parse_src_tree: expected one call of {target}")
    c = calls[0]
    loops, node = [], c
    while node is not fn:
      node = dmod.parent[node]
      if isinstance(node, ast.For):
        loops.append(node)
    it = loops[1].iter if len(loops) == 2 else None
    if not (isinstance(it, ast.Call) and isinstance(it.func, ast.Attribute) and it.func.attr == "items"
            and isinstance(it.func.value, ast.Attribute) and not it.args
            and it.func.value.attr == "structured_comment_groups"
            and _resolve(fn, it.func.value.value).startswith("parser.visit_src_tree(")
            and isinstance(loops[1].target, ast.Tuple) and len(loops[1].target.elts) == 2):
      raise AnalysisError("_parse_src_tree: group/comment loops have an unknown shape")
    rng, grp = (src(e) for e in loops[1].target.elts)
    cm = src(loops[0].target)
    b = {k: src(v) for k, v in _bind(c, dmod.func(f"Director.{target}")).items()}
    want = {"line": f"{cm}.line", "data": f"{cm}.data", "open_ended": f"{cm}.open_ended", "line_range": rng}
    g = _gtxt(dmod, c, fn)
    tool = (f"{cm}.tool == 'type'", target == "_process_type")
    extra = [x for x in g if x != tool and x != (f"{cm}.tool == 'pytype'", True)
             and not flow.names_in(ast.parse(x[0], mode="eval")) <= {"visitor"}]
    ctx.check(b == want and src(loops[0].iter) == grp and tool in g and not extra,
              f"Director._parse_src_tree:dispatch:{target}", DIR, c.lineno,
              f"{target} receives {b} under {g}; expected {want} for every comment of every group",
              {"args": b, "guards": g})


# -- R3.6 -----------------------------------------------------------------------

def _plain(x):
  if isinstance(x, sp.SubPattern):
    return [_plain(i) for i in x.data]
  if isinstance(x, (tuple, list)):
    return type(x)(_plain(i) for i in x)
  return x


def _pattern(mod, name):
  node = mod.const(name)
  if not (isinstance(node, ast.Call) and dotted(node.func) == "re.compile"
          and len(node.args) == 1 and not node.keywords):
    raise AnalysisError(f"{name} is not re.compile(<pattern>)")
  try:
    text = fold(node.args[0], mod=mod)
    return text, _plain(sp.parse(text))
  except (Unfoldable, re.error) as e:
    raise AnalysisError(f"{name}: pattern not foldable/parsable: {e}") from e


def _lang(items):
  """The finite set of strings a literal/branch/optional-only pattern matches."""
  out = {""}
  for op, av in items:
    if op is sc.LITERAL:
      alts = {chr(av)}
    elif op is sc.BRANCH:
      alts = set().union(*(_lang(b) for b in av[1]))
    elif op is sc.SUBPATTERN:
      alts = _lang(av[3])
    elif op in (sc.MAX_REPEAT, sc.MIN_REPEAT) and av[1] <= 2:
      inner, alts = _lang(av[2]), set()
      for n in range(av[0], av[1] + 1):
        alts |= {"".join(p) for p in itertools.product(inner, repeat=n)}
    else:
      raise AnalysisError(f"regex group is not a finite literal language: {op}")
    out = {a + b for a in out for b in alts}
    if len(out) > 64:
      raise AnalysisError("regex group language too large")
  return out


_WS = [(sc.IN, [(sc.CATEGORY, sc.CATEGORY_SPACE)])]


def _ws(item):
  """(min, max) if item is a repeat of \\s, else None."""
  return item[1][:2] if item[0] in (sc.MAX_REPEAT, sc.MIN_REPEAT) and item[1][2] == _WS else None


@rule("R3.6", "C03", floor=10)
def r3_6(ctx):
  """Directive syntax and the disable/enable wiring."""
  mod = get_module(ctx, PAR)
  text, items = _pattern(mod, "_DIRECTIVE_RE")
  gi = [i for i, (op, av) in enumerate(items) if op is sc.SUBPATTERN and av[0] == 1]
  if len(gi) != 1:
    raise AnalysisError("_DIRECTIVE_RE: group 1 is not a top-level group")
  gi = gi[0]
  loc = mod.const("_DIRECTIVE_RE").lineno
  tools = sorted(_lang(items[gi][1][3]))
  ctx.check(tools == ["pytype", "type"], "_DIRECTIVE_RE:tool-group", PAR, loc,
            f"group 1 matches {tools}; the tools are exactly pytype and type", {"tools": tools})
  pre, post = items[:gi], items[gi + 1:]
  if any(_ws(i) is None and i[0] is not sc.LITERAL for i in pre + post[:2]):
    raise AnalysisError(f"_DIRECTIVE_RE: unknown items around the tool group in {text!r}")
  ctx.check(len(pre) == 2 and pre[0] == (sc.LITERAL, ord("#")) and _ws(pre[1]) == (0, sc.MAXREPEAT),
            "_DIRECTIVE_RE:prefix", PAR, loc, f"{text!r}: the tool must be preceded by `#\\s*`",
            {"pattern": text})
  ctx.check(len(post) >= 2 and _ws(post[0]) == (0, sc.MAXREPEAT) and post[1] == (sc.LITERAL, ord(":")),
            "_DIRECTIVE_RE:separator", PAR, loc, f"{text!r}: the tool must be followed by `\\s*:`",
            {"pattern": text})
  data = [av for op, av in post if op is sc.SUBPATTERN]
  pc = mod.func("_process_comment")
  unpack = [n for n in walk_no_nested(pc) if isinstance(n, ast.Assign) and isinstance(n.targets[0], ast.Tuple)
            and src(n.value).endswith(".groups()")]
  if len(unpack) != 1 or len(unpack[0].targets[0].elts) != 2:
    raise AnalysisError("_process_comment: `tool, data = m.groups()` not found")
  ctx.check(len(data) == 1 and data[0][0] == 2 and data[0][3] == [
      (sc.MAX_REPEAT, (0, sc.MAXREPEAT, [(sc.NOT_LITERAL, ord("#"))]))] and post[-1][0] is sc.SUBPATTERN,
            "_DIRECTIVE_RE:data-group", PAR, loc,
            f"{text!r}: group 2 (the data) must be `[^#]*` directly after the colon",
            {"groups": 1 + len(data)})
  t_name, d_name = (src(e) for e in unpack[0].targets[0].elts)
  mk = calls_in(pc, name="_StructuredComment")
  if len(mk) != 1 or mk[0].keywords:
    raise AnalysisError("_process_comment: _StructuredComment(...) call not found")
  fields = [s.target.id for s in mod.cls("_StructuredComment").body if isinstance(s, ast.AnnAssign)]
  got = dict(zip(fields, (src(a) for a in mk[0].args)))
  oe = _single_def(pc, got.get("open_ended", "?")) if got.get("open_ended", "").isidentifier() else None
  want = {"line": _params(pc)[1], "tool": t_name, "data": d_name, "open_ended": got.get("open_ended")}
  ctx.check(got == want and oe is not None and isinstance(oe, ast.UnaryOp) and src(oe).endswith(".strip()"),
            "_StructuredComment:field-order", PAR, mk[0].lineno,
            f"_StructuredComment is built as {got}; fields are {fields}", {"got": got})
  # IGNORE_RE
  text, items = _pattern(mod, "IGNORE_RE")
  start = bool(items) and items[0] == (sc.AT, sc.AT_BEGINNING)
  end = bool(items) and items[-1] in ((sc.AT, sc.AT_END), (sc.AT, sc.AT_END_STRING))
  core = items[start:len(items) - end]
  word = "".join(chr(av) for op, av in core if op is sc.LITERAL)
  rest = [i for i in core if i[0] is not sc.LITERAL]
  if rest and not (len(rest) == 1 and rest[0] is core[-1] and rest[0][0] is sc.MAX_REPEAT
                   and rest[0][1][:2] == (0, 1) and rest[0][1][2][0][0] is sc.SUBPATTERN):
    raise AnalysisError(f"IGNORE_RE: unknown shape {text!r}")
  br = rest[0][1][2][0][1][3] if rest else None
  ctx.check(word == "ignore" and (br is None or (br[0] == (sc.LITERAL, ord("[")) and br[-1] == (sc.LITERAL, ord("]")))),
            "IGNORE_RE:pattern", PAR, mod.const("IGNORE_RE").lineno,
            f"{text!r} must accept `ignore` with an optional [..] group", {"word": word})
  for rel in (PAR, DIR):
    m = get_module(ctx, rel)
    for n in ast.walk(m.tree):
      if isinstance(n, ast.Attribute) and (dotted(n.value) or "").split(".")[-1] == "IGNORE_RE":
        how = n.attr
        ok = how == "fullmatch" or (how == "match" and end) or (how == "search" and start and end)
        ctx.check(ok, f"IGNORE_RE:use@{_qual(m, n)}", rel, n.lineno,
                  f"IGNORE_RE.{how} with pattern {text!r} accepts text after `ignore`", {"method": how})
  # disable/enable wiring
  dmod = get_module(ctx, DIR)
  fn = dmod.func("Director._process_pytype")
  table = {}
  for n in walk_no_nested(fn):
    if isinstance(n, ast.If) and isinstance(n.test, ast.Compare) and src(n.test.left) == "command" \
        and isinstance(n.test.ops[0], ast.Eq) and isinstance(n.test.comparators[0], ast.Constant):
      table[n.test.comparators[0].value] = n
  if not table:
    raise AnalysisError("_process_pytype: command dispatch chain not found")
  callee = dmod.func("Director._process_disable")
  for cmd, flag in (("disable", "True"), ("enable", "False")):
    calls = [c for s in table[cmd].body for c in calls_in(s)] if cmd in table else []
    pd = [c for c in calls if dotted(c.func) == "self._process_disable"]
    b = {k: src(v) for k, v in _bind(pd[0], callee).items()} if len(pd) == 1 else {}
    ctx.check(len(calls) == len(pd) == 1 and b.get("disable") == flag and set(b) == set(_params(callee)[1:])
              and all(b[p] == p for p in ("line", "line_range", "open_ended")),
              f"Director._process_pytype:{cmd}", DIR, table[cmd].lineno if cmd in table else fn.lineno,
              f"command {cmd!r} runs {[src(c) for c in calls]}; expected one "
              f"_process_disable(line, line_range, open_ended, <names>, disable={flag})", {"args": b})


# -- sensitivity suite -------------------------------------------------------------

def _v(name, rid, file, old, new, expect="fire"):
  return {"name": name, "rule": rid, "file": file, "old": old, "new": new, "expect": expect}


VARIANTS = [
    _v("disable-own-line-dropped", "R3.1", DIR, "            lines.set_line(line, disable)\n", "            pass\n"),
    _v("ignore-own-line-dropped", "R3.1", DIR, "        self._ignore.set_line(line, True)\n", ""),
    _v("own-line-guard-inverted", "R3.1", DIR, "if final_line != line:", "if final_line == line:"),
    _v("open-ended-arms-swapped", "R3.1", DIR, "        if open_ended:\n          lines.start_range",
       "        if not open_ended:\n          lines.start_range"),
    _v("own-line-wrong-polarity", "R3.1", DIR, "lines.set_line(line, disable)", "lines.set_line(line, True)"),
    _v("registration-depends-on-position", "R3.1", DIR, "        if not keep(error_name):",
       "        if not keep(error_name) or line == line_range.end_line:"),
    _v("ignore-registered-on-wildcard-set", "R3.1", DIR, "self._ignore.set_line(line, True)",
       "self._disables[data].set_line(line, True)"),
    _v("filter-bypassed-for-one-class", "R3.2", ERR, "if self._filter is None or self._filter(error):",
       "if self._filter is None or error.name == 'pyi-error' or self._filter(error):"),
    _v("filter-not-consulted", "R3.2", ERR, "if self._filter is None or self._filter(error):",
       "if self._filter is not None:"),
    _v("extra-append-in-error", "R3.2", ERR, "    self._add(err)\n", "    self._errors.append(err)\n"),
    _v("warn-drops-error", "R3.2", ERR, "    self._add(\n        Error.with_stack(stack, SEVERITY_WARNING,",
       "    _log.info(\n        Error.with_stack(stack, SEVERITY_WARNING,"),
    _v("revert-keeps-an-error", "R3.2", ERR, "self._errorlog_errors[: self._position]\n",
       "self._errorlog_errors[: self._position] + self.errors[:1]\n"),
    _v("filter-reset-elsewhere", "R3.2", ERR, "    checkpoint = CheckPoint(self._errors)\n",
       "    checkpoint = CheckPoint(self._errors)\n    self._filter = None\n"),
    _v("filter-never-installed", "R3.2", VM, "    self.ctx.errorlog.set_error_filter(director.filter_error)\n", ""),
    {"name": "filter-installed-after-run", "rule": "R3.2", "expect": "fire", "edits": [
        (VM, "    self.ctx.errorlog.set_error_filter(director.filter_error)\n", ""),
        (VM, "    logging.info(\"Done running bytecode, postprocessing globals\")\n",
         "    self.ctx.errorlog.set_error_filter(director.filter_error)\n")]},
    _v("director-gets-other-filename", "R3.2", VM, "src_tree, self.ctx.errorlog, filename, self.ctx.options.disable",
       "src_tree, self.ctx.errorlog, src, self.ctx.options.disable"),
    _v("wildcard-disable-not-consulted", "R3.3", DIR, "        and line not in self._disables[_ALL_ERRORS]\n", ""),
    _v("conjunction-becomes-disjunction", "R3.3", DIR, "        and line not in self._disables[error.name]",
       "        or line not in self._disables[error.name]"),
    _v("ignore-tested-on-unadjusted-line", "R3.3", DIR, "        line not in self._ignore",
       "        error.line not in self._ignore"),
    _v("membership-not-negated", "R3.3", DIR, "        line not in self._ignore", "        line in self._ignore"),
    _v("early-exit-for-one-class", "R3.3", DIR, "    # Treat line=0 as below the file, so we can filter it.\n",
       "    if error.name == 'name-error':\n      return True\n"),
    _v("disables-use-plain-sets", "R3.3", DIR, "self._disables = collections.defaultdict(_LineSet)",
       "self._disables = collections.defaultdict(set)"),
    _v("per-line-entry-only-when-true", "R3.4", DIR, "if specific is not None:", "if specific:"),
    {"name": "range-consulted-first", "rule": "R3.4", "expect": "fire", "edits": [
        (DIR, "    specific = self._lines.get(line)\n    if specific is not None:\n      return specific\n", ""),
        (DIR, "    return (pos % 2) == 1\n",
         "    if (pos % 2) == 1:\n      return True\n    specific = self._lines.get(line)\n"
         "    if specific is not None:\n      return specific\n    return False\n")]},
    _v("range-parity-inverted", "R3.4", DIR, "return (pos % 2) == 1", "return (pos % 2) == 0"),
    _v("set_line-ignores-polarity", "R3.4", DIR, "self._lines[line] = membership", "self._lines[line] = True"),
    _v("seed-skips-open-ended", "R3.5", PAR, "in raw_structured_comments.items()\n    )",
       "in raw_structured_comments.items()\n        if not structured_comments[0].open_ended\n    )"),
    _v("seed-as-call-range", "R3.5", PAR, "(LineRange(lineno, lineno), list(structured_comments))",
       "(Call(lineno, lineno), list(structured_comments))"),
    _v("merge-drops-absorbed-group", "R3.5", PAR, "      new_group.extend(self.structured_comment_groups[k])\n", ""),
    _v("merge-extends-other-list", "R3.5", PAR, "      new_group.extend(self.structured_comment_groups[k])\n",
       "      keys_to_move.extend(self.structured_comment_groups[k])\n"),
    _v("moved-groups-deleted", "R3.5", PAR, "      self.structured_comment_groups.move_to_end(k)\n",
       "      del self.structured_comment_groups[k]\n"),
    _v("base-range-skipped", "R3.5", DIR, "      else:\n        return True\n\n    if not values:",
       "      else:\n        return error_name in _ALL_ADJUSTABLE_ERRORS\n\n    if not values:"),
    _v("type-comment-fields-swapped", "R3.5", DIR,
       "self._process_type(\n              comment.line, comment.data, comment.open_ended, line_range",
       "self._process_type(\n              comment.line, comment.data, line_range, comment.open_ended"),
    _v("open-ended-pytype-not-dispatched", "R3.5", DIR, "          assert comment.tool == \"pytype\"\n",
       "          assert comment.tool == \"pytype\"\n          if comment.open_ended:\n            continue\n"),
    _v("tool-group-loses-type", "R3.6", PAR, "(pytype|type)", "(pytype)"),
    _v("tool-requires-space-before-colon", "R3.6", PAR, r"(pytype|type)\s*:", r"(pytype|type)\s+:"),
    _v("data-group-greedy", "R3.6", PAR, r"([^#]*)", r"(.*)"),
    _v("ignore-not-anchored-at-end", "R3.6", PAR, r'r"^ignore(\[.+\])?$"', r'r"^ignore(\[.+\])?"'),
    _v("enable-wired-to-disable", "R3.6", DIR, "values, disable=False", "values, disable=True"),
    _v("tool-and-data-swapped", "R3.6", PAR, "_StructuredComment(lineno, tool, data, open_ended)",
       "_StructuredComment(lineno, data, tool, open_ended)"),
    _v("extra-line-registered", "R3.7", DIR, "          lines.set_line(final_line, disable)\n",
       "          lines.set_line(final_line, disable)\n          lines.set_line(line_range.end_line, disable)\n"),
    _v("ignore-also-disables-wildcard", "R3.7", DIR, "        self._ignore.set_line(final_line, True)\n",
       "        self._ignore.set_line(final_line, True)\n        self._disables[_ALL_ERRORS].set_line(line, True)\n"),
    _v("adjusted-to-range-end", "R3.7", DIR, "    return line_range.start_line\n", "    return line_range.end_line\n"),
    _v("trailing-ignore-starts-range", "R3.7", DIR, "        self._ignore.set_line(line, True)\n",
       "        self._ignore.set_line(line, True)\n        self._ignore.start_range(line, True)\n"),
    # benign twins
    {"name": "twin-rename-lines-local", "rule": "R3.1", "expect": "silent", "edits": [
        (DIR, "lines = self._disables[error_name]", "lineset = self._disables[error_name]"),
        (DIR, "lines.start_range(line, disable)", "lineset.start_range(line, disable)"),
        (DIR, "lines.set_line(line, disable)", "lineset.set_line(line, disable)"),
        (DIR, "lines.set_line(final_line, disable)", "lineset.set_line(final_line, disable)")]},
    {"name": "twin-rename-final_line", "rule": "R3.7", "expect": "silent", "edits": [
        (DIR, "    final_line = line_range.start_line\n", "    first = line_range.start_line\n"),
        (DIR, "self._ignore.set_line(final_line, True)", "self._ignore.set_line(first, True)"),
        (DIR, "if final_line in self._variable_annotations", "if first in self._variable_annotations"),
        (DIR, "add_type_comment(final_line, data)", "add_type_comment(first, data)")]},
    _v("twin-own-line-test-flipped", "R3.1", DIR,
       "          if final_line != line:\n", "          if not line == final_line:\n", "silent"),
    _v("twin-filter-truthiness", "R3.2", ERR, "if self._filter is None or self._filter(error):",
       "if not self._filter or self._filter(error):", "silent"),
    _v("twin-de-morgan", "R3.3", DIR,
       "    return (\n        line not in self._ignore\n        and line not in self._disables[_ALL_ERRORS]\n"
       "        and line not in self._disables[error.name]\n    )",
       "    return not (\n        line in self._disables[error.name]\n        or line in self._ignore\n"
       "        or line in self._disables[_ALL_ERRORS]\n    )", "silent"),
    _v("twin-is-none-else", "R3.4", DIR, "    if specific is not None:\n      return specific\n",
       "    if specific is None:\n      pass\n    else:\n      return specific\n", "silent"),
    _v("twin-seed-dict-comprehension", "R3.5", PAR,
       "collections.OrderedDict(\n        (LineRange(lineno, lineno), list(structured_comments))\n"
       "        for lineno, structured_comments in raw_structured_comments.items()\n    )",
       "collections.OrderedDict({\n        LineRange(n, n): list(cs)\n"
       "        for n, cs in raw_structured_comments.items()\n    })", "silent"),
    _v("twin-alternation-reordered", "R3.6", PAR, "(pytype|type)", "(type|pytype)", "silent"),
    _v("twin-optional-prefix", "R3.6", PAR, "(pytype|type)", "((?:py)?type)", "silent"),
    _v("twin-ignore-start-anchor-redundant", "R3.6", PAR, r'r"^ignore(\[.+\])?$"', r'r"ignore(\[.+\])?$"', "silent"),
]
