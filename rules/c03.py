"""C03 - a disable comment silences exactly that error.

Decides: own-line registration, single writer + filter on the error log, filter
semantics, per-line over range precedence, no directive lost while line ranges
merge, directive syntax, that a trailing directive registers only its own
line (D16 = known finding), that filter_error looks up the line the error is
reported at (after its own set_line adjustment), and that the tokenizer side
(_process_comments/_process_comment) hands every directive of every comment
token to the visitor.  Does NOT decide which line the VM blames.
"""
import ast
import itertools
import re
import re._constants as sc
import re._parser as sp

from sa.core import rule, AnalysisError
from sa.pyindex import (get_module, dotted, src, calls_in, fold, Unfoldable,
                        walk_no_nested, all_py_files)
from sa import flow

EXPLANATION = (
    "Static necessary conditions for 'a disable comment silences exactly that error' on the AST of "
    "directors/directors.py, directors/parser.py, errors/errors.py, vm.py: R3.1 every path of a trailing "
    "directive registers the comment's own line on the named error's line set with the stated polarity "
    "(open-ended: starts a range there), independent of position; R3.2 ErrorLog._add is the only writer of "
    "_errors, behind the filter; CheckPoint only truncates; every Error built in the log classes reaches "
    "_add; run_program installs director.filter_error before run_bytecode; R3.3 filter_error is true iff "
    "the line is in none of _ignore, _disables['*'], _disables[error.name] (truth table over the verdict "
    "expression; a verdict that delegates to single-expression methods of the Director, e.g. `not "
    "self._is_suppressed(line, error.name)`, is judged with those methods inlined); R3.4 per-line "
    "entries win over ranges (the range answer is `<bisect_right position> % 2 == 1`, the position written "
    "inline or bound once); R3.5 every raw comment seeds a base LineRange group, groups are extended "
    "before deletion (or popped straight into the absorbing list), base ranges are never skipped (every "
    "path condition of the registration in _process_disable - once-bound locals and local predicate closures "
    "expanded - is implied by 'not a Call range, a valid error name, values non-empty': decided by a truth "
    "table over the atoms, so a nested keep() closure, a hoisted `isinstance(line_range, parser.Call)` local "
    "and guard-clause spellings are the same thing), every comment is dispatched; R3.6 regex ASTs of "
    "_DIRECTIVE_RE / IGNORE_RE and the disable/enable wiring; R3.7 a trailing directive registers only its "
    "own line: the line argument of every set_line/start_range is evaluated to the set of values it may "
    "have (all plain assignments of a local, both arms of if/else and conditional expressions, return values "
    "of Director helper methods with the call's arguments substituted) and that set must be {line}; the "
    "own-line-or-range-start adjustment is keyed `final_line` whether a helper method or inline code computes "
    "it (violated by design: D16), any other value is a separate violation; "
    "R3.8 nothing is logged before the filter exists (known finding); "
    "R3.9 def-use over filter_error: every membership test on a _LineSet table of the Director is keyed by "
    "a value read from error.line after the last statement that can move the error (methods of "
    "errors.Error that store _line, derived from errors.py) on every path - a key computed before "
    "error.set_line(end) looks up the pre-adjustment line; a Director method that is handed the error counts "
    "as a mover iff it (or a Director method it hands it to) calls a line writer on it / stores its line, as "
    "harmless iff it only reads it, else unsure; membership tests inside a single-expression Director method "
    "called from filter_error are judged at the call with the arguments substituted; "
    "R3.10 tokenizer side: _process_comments hands "
    "every COMMENT token (no other guard) with token.line/start to _process_comment and files the result "
    "under the token's row in the mapping it returns; _process_comment loops over all finditer matches of "
    "_DIRECTIVE_RE in line[col:] (once-bound locals such as `comment = line[col:]` inlined), may leave before "
    "the loop only when there is no match at all (empty match list, or _DIRECTIVE_RE.search(line[col:]) is "
    "None - match()/fullmatch() are not equivalent), leaves the loop only by continue/fall-through (or the "
    "skip-file raise), produces - by `yield`, or by appending to a fresh list that is touched nowhere else and "
    "returned after the loop - _StructuredComment(row, group 1, group 2, open_ended) with open_ended = 'only blanks before "
    "the comment', and every path that does not yield has `open_ended` and `tool == \"type\"` in its path "
    "condition (only a type: comment nested in a stand-alone comment may be dropped); parse_src/"
    "visit_src_tree pass that mapping to _ParseVisitor, and run_program parses the text it compiles.  "
    "Blind spots: which line the VM attributes an error to, the values in the line-adjustment tables "
    "(return_lines, function ranges), whether is_nested is computed correctly (dropping *every* type "
    "comment of a stand-alone comment would not break C03), tokenize itself.")
ASSUMPTIONS = [
    "the VM reports errors through ctx.errorlog (VmErrorLog) at the line CPython's line table gives "
    "the opcode; line attribution is out of scope",
    "_LineSet.set_line is only given bool memberships (so `is not None` means 'entry present')",
    "Python semantics of re.match/finditer and OrderedDict; tokenize delivers every comment token",
    "R3.9: the only ways to move an existing error are the methods of errors.Error that store self._line "
    "and direct stores to <err>._line/.line; a call that merely receives the error as an argument is "
    "'unsure' (analysis error if it separates the key from its test), not a violation",
    "R3.5/R3.7/R3.9: helper methods are followed only inside class Director (self.<method>), two to three "
    "levels; a local closure used in a path condition must be a pure predicate (if/return only)",
    "R3.7: 'every plain assignment of the local' over-approximates the values that reach the call (flow-"
    "insensitive); the target of a loop over a literal tuple/list may be any of its elements; a local bound by "
    "anything else (other loop targets, augmented assignment) is an analysis error",
    "R3.10: the accepted spellings of 'stand-alone' (open_ended) are an enumerated list; an unknown "
    "spelling is an analysis error; one comment token per physical line (so extend/+=/= list(..) agree)",
]

EXPLANATION += (
    "  R3.10 follows a `_process_comment` that only hands its parameters on to one module-level function "
    "(directly, wrapped in tuple()/list(), by `yield from`, or through a memo) into that function.  "
    "R3.21 (rules/c03_position_final.py) who-may-write + ordering for the error's position: the fields the "
    "filter reads from the error (derived from Director.filter_error through the properties of errors.Error) "
    "may only be changed - by a method of Error storing them, or a store through anything but `self` - on an "
    "error that has not been filtered yet on any path: a local bound to a fresh Error (constructor, or a log "
    "method all of whose returns are fresh) before it is handed to the filter point (`self._filter(<param>)`, "
    "found by role) or to a log method that hands its parameter on; a parameter makes the function a mover "
    "whose callers are judged in turn (package-wide for public names; the director's filter may be referenced "
    "only as the argument of set_error_filter); the result of a log method that returns what it logged, an "
    "element of the log or of a checkpoint record, a local after `_add(<local>)` are filtered objects: "
    "violation.  Move sites are searched in every non-test module (text prefilter on the writer / field names).  "
    "R3.22 (rules/c03_memo_keys.py) every memo in directors/parser.py and directors/directors.py - a "
    "container that outlives the call (module level, class attribute, mutable default) which one function both "
    "looks up and fills - is keyed by every parameter the stored value is computed from (once-bound locals "
    "inlined; an argument a module-level callee never reads does not count); functools caches on generator "
    "functions hand out an exhausted iterator.  Blind spots of R3.21: setattr/__dict__ stores, errors moved "
    "through an alias (analysis error), subclasses of Error defined outside errors.py, what happens to a "
    "parameter before it is moved (judged at the callers only); of R3.22: memos spread over two functions, "
    "keys built from values derived from parameters in more than one assignment (analysis error), whether a "
    "complete key is also cheap.")
ASSUMPTIONS += [
    "R3.21: names decide what counts as 'the contents of a log' when an error is taken from an iterable "
    "(`_errors`, `errors`, `errorlog`, unique_sorted_errors()); a logger call (`_log.*`, `logging.*`) and "
    "str/repr/len/isinstance do not hand an error on; the filter slot of the log is the attribute "
    "set_error_filter stores its argument in",
    "R3.22: a function reads a parameter iff its name is loaded somewhere in the function's body",
]

EXPLANATION += (
    "  R3.23 (rules/c03_sibling_lines.py) agreement of the two sibling directive kinds on the lines a trailing "
    "comment covers: the trailing (not open-ended) arm of Director._process_type and Director._process_disable "
    "(plus whatever follows the split up to the end of the loop body / function) is executed symbolically path "
    "by path - locals substituted, methods of the Director and module-level functions that register lines or "
    "compute a value inlined with their arguments, conditional expressions forked, loops over literal tuples "
    "unrolled, `a != b` / `a == b` tests on the path turned into (in)equalities of the line numbers, a test "
    "repeated with the opposite polarity pruned - and the lines written by set_line(.., <the kind's polarity>) "
    "on the kind's own line set are collected.  Every path that does not raise must cover the comment's own "
    "line (R3.1's own-line instance is decided by the same execution), and whether it also covers the start "
    "line of the enclosing range (`<param>.start_line`) may depend only on conditions over the error class the "
    "directive names (the loop variable of _process_disable: today `error_name in _ALL_ADJUSTABLE_ERRORS`): two "
    "paths that agree on those conditions must agree on the start line, so no test of the range's kind or of "
    "the comment's position may guard one of the two writes.  `# type: ignore` names no error class, hence "
    "must cover the start line on every path iff `# pytype: disable=` does for some class, and both must while "
    "the Director moves function ends to `<range>.start_line` (adjust_end in the dispatch loop: the "
    "implicit-return error is re-reported there).  Blind spots of R3.23: that the start line is the *right* "
    "line for a given error (R3.7 reports the over-approximation as D16), line sets written through an alias "
    "handed to a function outside directors.py, registrations placed before the open_ended split.")
ASSUMPTIONS += [
    "R3.23: a condition counts as 'about the error class' iff the only local it mentions is the loop variable "
    "over `values`; helper calls are inlined up to six levels, generators and *args/**kwargs helpers are an "
    "analysis error; a `for` on the way of a trailing directive must iterate over a literal tuple/list",
]

DIR = "pytype/directors/directors.py"
PAR = "pytype/directors/parser.py"
ERR = "pytype/errors/errors.py"
VM = "pytype/vm.py"
GROUPS = "self.structured_comment_groups"
_PROCS = ("Director._process_disable", "Director._process_type")
_POSITIONAL = {"line", "line_range", "open_ended", "disable", "final_line"}


def _stored(node):
  return {n.id for n in ast.walk(node) if isinstance(n, ast.Name) and not isinstance(n.ctx, ast.Load)}


def _params(fn):
  return [x.arg for x in fn.args.posonlyargs + fn.args.args + fn.args.kwonlyargs]


def _single_def(fn, name):
  """Value of the only binding of local `name` in fn (None: never bound there)."""
  vals = [n.value for n in walk_no_nested(fn) if isinstance(n, ast.Assign)
          and any(dotted(t) == name for t in n.targets)]
  stores = sum(1 for n in walk_no_nested(fn) if isinstance(n, ast.Name) and n.id == name
               and not isinstance(n.ctx, ast.Load))
  if stores == 0:
    return None
  if stores != 1 or len(vals) != 1:
    raise AnalysisError(f"{fn.name}: local {name} is not bound exactly once")
  return vals[0]


def _resolve(fn, node):
  """Source of the expression `node` denotes; once-bound locals are inlined."""
  if isinstance(node, ast.Name) and node.id not in _params(fn):
    v = _single_def(fn, node.id)
    if v is not None:
      return src(v)
  return src(node)


def _bind(call, fn):
  """Parameter name -> argument source (self dropped)."""
  names = [a.arg for a in fn.args.posonlyargs + fn.args.args][1:]
  if any(isinstance(a, ast.Starred) for a in call.args) or len(call.args) > len(names) \
      or any(k.arg is None for k in call.keywords):
    raise AnalysisError(f"cannot bind arguments of {src(call)}")
  return {**{n: src(a) for n, a in zip(names, call.args)}, **{k.arg: src(k.value) for k in call.keywords}}


def _qual(mod, node):
  parts = []
  while node in mod.parent:
    node = mod.parent[node]
    if isinstance(node, (ast.FunctionDef, ast.AsyncFunctionDef, ast.ClassDef)):
      parts.append(node.name)
  return ".".join(reversed(parts)) or "<module>"


def _guards(mod, node):
  # no stop=: flow.guards(stop=fn) would drop the early exits of the function's own body
  return flow.guards(mod.parent, mod.enclosing_stmt(node))


_gtxt = lambda mod, node: [(src(t), p) for t, p in _guards(mod, node)]


def _returns(fn):
  return [n for n in walk_no_nested(fn) if isinstance(n, ast.Return)]


def _paths(block, acc=()):
  """(events, how) per path; events are ("cond", test, pol) / ("stmt", node)."""
  if not block:
    yield acc, "fall"
    return
  st, rest = block[0], block[1:]
  if isinstance(st, ast.If):
    for pol, sub in ((True, st.body), (False, st.orelse)):
      if isinstance(st.test, ast.Constant) and bool(st.test.value) != pol:
        continue   # infeasible branch of a constant test
      for ev, how in _paths(sub, acc + (("cond", st.test, pol),)):
        if how == "fall":
          yield from _paths(rest, ev)
        else:
          yield ev, how
  elif isinstance(st, (ast.Return, ast.Raise, ast.Continue, ast.Break)):
    yield acc + (("stmt", st),), type(st).__name__.lower()
  elif isinstance(st, (ast.Expr, ast.Assign, ast.AnnAssign, ast.AugAssign, ast.Pass, ast.Assert)):
    yield from _paths(rest, acc + (("stmt", st),))
  else:
    raise AnalysisError(f"path enumeration: unsupported {type(st).__name__}")


def _eq_test(test, pol, name):
  """Does `test` with polarity `pol` establish <name> == line?"""
  while isinstance(test, ast.UnaryOp) and isinstance(test.op, ast.Not):
    test, pol = test.operand, not pol
  return (isinstance(test, ast.Compare) and len(test.ops) == 1 and name != "line"
          and isinstance(test.ops[0], (ast.Eq, ast.NotEq)) and isinstance(test.ops[0], ast.Eq) == pol
          and {dotted(test.left), dotted(test.comparators[0])} == {name, "line"})


def _reg_args(ctx, call):
  b = _bind(call, get_module(ctx, DIR).func(f"_LineSet.{call.func.attr}"))
  if set(b) != {"line", "membership"}:
    raise AnalysisError(f"{src(call)}: not (line, membership)")
  return b["line"], b["membership"]


def _is_reg(c, meths=("set_line", "start_range")):
  return isinstance(c.func, ast.Attribute) and c.func.attr in meths


def _registers(ctx, fn, events, meth, recv, memb):
  """Does this path call <recv>.<meth>(line, <memb>) (line: directly or by path condition)?"""
  equal = set()   # locals the path condition has established to equal `line`
  for ev in events:
    if ev[0] == "cond":
      equal |= {n for n in flow.names_in(ev[1]) if _eq_test(ev[1], ev[2], n)}
      continue
    for c in flow.unconditional_calls(ev[1]):
      if _is_reg(c, (meth,)) and _resolve(fn, c.func.value) == recv:
        a, m = _reg_args(ctx, c)
        if m == memb and (a == "line" or a in equal):
          return True
    equal -= _stored(ev[1])
  return False


def _arms(mod, qual):
  """(fn, if-stmt, open-ended arm, trailing arm, expected receiver, membership, loop var)."""
  fn = mod.func(qual)
  if not {"line", "open_ended"} <= set(_params(fn)) or {"line", "open_ended"} & _stored(fn):
    raise AnalysisError(f"{qual}: parameters line/open_ended missing or rebound")
  ifs = [n for n in walk_no_nested(fn) if isinstance(n, ast.If) and "open_ended" in flow.names_in(n.test)]
  if len(ifs) != 1 or src(ifs[0].test) not in ("open_ended", "not open_ended"):
    raise AnalysisError(f"{qual}: expected one `if open_ended` split")
  st = ifs[0]
  body, orelse = st.body, st.orelse
  if not orelse and flow.terminates(body):
    # guard-clause form: `if c: ...; continue` followed by the other arm
    par = mod.parent[st]
    for blk in (getattr(par, f, None) for f in ("body", "orelse", "finalbody")):
      if isinstance(blk, list) and st in blk:
        orelse = blk[blk.index(st) + 1:]
  arms = (body, orelse) if src(st.test) == "open_ended" else (orelse, body)
  if not qual.endswith("_process_disable"):
    return fn, st, arms[0], arms[1], "self._ignore", "True", None
  loop = st
  while loop is not fn and not isinstance(loop, ast.For):
    loop = mod.parent[loop]
  if not (isinstance(loop, ast.For) and isinstance(loop.target, ast.Name)
          and src(loop.iter) in ("values", "sorted(values)", "list(values)")):
    raise AnalysisError(f"{qual}: the split is not inside `for <name> in values`")
  return fn, st, arms[0], arms[1], f"self._disables[{loop.target.id}]", "disable", loop.target.id


@rule("R3.1", "C03", floor=6)
def r3_1(ctx):
  """The comment's own line is always registered."""
  mod = get_module(ctx, DIR)
  for qual in _PROCS:
    fn, st, open_arm, trail, recv, memb, lv = _arms(mod, qual)
    for arm, meth, tag in ((trail, "set_line", "own-line"), (open_arm, "start_range", "open-ended-range")):
      if tag == "own-line":
        # path-sensitive execution shared with R3.23 (helpers inlined, literal loops unrolled, equalities
        # between line numbers taken from the whole path condition)
        from rules import c03_sibling_lines as sib
        todo = sib._trailing_paths(ctx, mod, qual)[2]
        missing = [[t for t, _ in p["other"]] + sorted(p["cls"]) for p in todo if not p["own"]]
      else:
        todo = [ev for ev, how in _paths(arm) if how != "raise"]
        missing = [[src(e[1]) for e in ev if e[0] == "cond"] for ev in todo
                   if not _registers(ctx, fn, ev, meth, recv, memb)]
      ctx.check(not missing, f"{qual}:{tag}", DIR, st.lineno,
                f"a path through the {tag} arm (conditions {missing[:1]}) does not call "
                f"{recv}.{meth}(line, {memb})", {"paths": len(todo), "receiver": recv})
    # reaching the split must not depend on where the comment is (except through the ignore flag)
    flag = src(mod.parent[st].test) if lv is None and isinstance(mod.parent[st], ast.If) else None
    if lv is None and not (flag and flag.isidentifier() and "IGNORE_RE" in _resolve(fn, mod.parent[st].test)):
      raise AnalysisError(f"{qual}: the ignore flag guarding the split was not found")
    wrong = [(src(t), p) for t, p in _guards(mod, st) if flow.names_in(t) & _POSITIONAL and not (
        flag and not p and f"not {flag}" in [src(v) for v in getattr(t, "values", [t])])]
    ctx.check(not wrong, f"{qual}:arm-guards", DIR, st.lineno,
              f"registration is conditional on {wrong}: a directive at some position is not registered",
              {"guards": _gtxt(mod, st)})


def _subst(node, env):
  """Copy of expression `node` with the names in env (name -> expression) replaced."""
  class T(ast.NodeTransformer):
    def visit_Name(self, n):
      return env[n.id] if n.id in env and isinstance(n.ctx, ast.Load) else n
  import copy
  return T().visit(copy.deepcopy(node))


def _line_values(mod, cls, fn, node, depth=0):
  """Every value (source text over fn's parameters) the expression `node` may denote inside `fn`.

  Locals are followed through all their plain assignments (both arms of an if/else, conditional
  expressions), calls of methods of `cls` through their return values (one or two levels).  An
  over-approximation: a binding that is not a plain `<name> = <expr>` is an analysis error.
  """
  if depth > 6:
    raise AnalysisError(f"{fn.name}: value of {src(node)} is defined recursively")
  if isinstance(node, ast.IfExp):
    return _line_values(mod, cls, fn, node.body, depth + 1) | _line_values(mod, cls, fn, node.orelse, depth + 1)
  if isinstance(node, ast.Name) and node.id not in _params(fn):
    vals = [n.value for n in walk_no_nested(fn) if isinstance(n, ast.Assign) and len(n.targets) == 1
            and dotted(n.targets[0]) == node.id]
    stores = sum(1 for n in walk_no_nested(fn) if isinstance(n, ast.Name) and n.id == node.id
                 and not isinstance(n.ctx, ast.Load))
    if stores == 0:
      return {node.id}
    # target of a loop over a literal tuple/list: any of its elements
    loops = [n for n in walk_no_nested(fn) if isinstance(n, ast.For) and dotted(n.target) == node.id
             and isinstance(n.iter, (ast.Tuple, ast.List)) and not any(isinstance(e, ast.Starred) for e in n.iter.elts)]
    vals += [e for n in loops for e in n.iter.elts]
    if stores != len(vals) - sum(len(n.iter.elts) - 1 for n in loops):
      raise AnalysisError(f"{fn.name}: local {node.id} is bound by something other than a plain assignment")
    return set().union(*(_line_values(mod, cls, fn, v, depth + 1) for v in vals))
  if isinstance(node, ast.Call) and isinstance(node.func, ast.Attribute) and dotted(node.func.value) == "self" \
      and node.func.attr in mod.methods(cls):
    callee = mod.methods(cls)[node.func.attr]
    if callee.args.vararg or callee.args.kwarg or callee.decorator_list:
      raise AnalysisError(f"{callee.name}: signature not understood")
    bound = _bind(node, callee)
    out = set() if flow.terminates(callee.body) else {"None"}
    for r in _returns(callee):
      for v in (_line_values(mod, cls, callee, r.value, depth + 1) if r.value is not None else {"None"}):
        tree = ast.parse(v, mode="eval").body
        free = flow.names_in(tree) & set(_params(callee)[1:])
        if free - set(bound):
          raise AnalysisError(f"{src(node)}: parameter {sorted(free - set(bound))} of {callee.name} is not bound")
        # a parameter is replaced by each value its argument may have
        texts = {v}
        for p in sorted(free):
          argvals = _line_values(mod, cls, fn, ast.parse(bound[p], mode="eval").body, depth + 1)
          texts = {src(_subst(ast.parse(t, mode="eval").body, {p: ast.parse(a, mode="eval").body}))
                   for t in texts for a in argvals}
        out |= texts
    return out
  return {src(node)}


def _expr_body(fn):
  """The expression of a method whose body is `return <expr>` (after a docstring), else None."""
  body = fn.body[1:] if fn.body and isinstance(fn.body[0], ast.Expr) and isinstance(
      fn.body[0].value, ast.Constant) and isinstance(fn.body[0].value.value, str) else fn.body
  return body[0].value if len(body) == 1 and isinstance(body[0], ast.Return) and body[0].value is not None else None


def _inline_self_calls(mod, cls, expr, depth=0):
  """`expr` with calls `self.m(<simple args>)` of single-expression methods of cls replaced by their value."""
  ms = mod.methods(cls)

  class T(ast.NodeTransformer):
    def visit_Call(self, n):
      self.generic_visit(n)
      if isinstance(n.func, ast.Attribute) and dotted(n.func.value) == "self" and n.func.attr in ms and depth < 3:
        callee = ms[n.func.attr]
        body = _expr_body(callee)
        simple = all(dotted(a) is not None or isinstance(a, ast.Constant)
                     for a in list(n.args) + [k.value for k in n.keywords])
        if body is not None and simple and not callee.decorator_list and not callee.args.vararg \
            and not callee.args.kwarg and not any(isinstance(a, ast.Starred) for a in n.args) \
            and all(k.arg for k in n.keywords):
          names = _params(callee)[1:]
          env = {**dict(zip(names, n.args)), **{k.arg: k.value for k in n.keywords}}
          if set(env) == set(names) and len(n.args) <= len(names):
            return _inline_self_calls(mod, cls, _subst(body, env), depth + 1)
      return n
  import copy
  return T().visit(copy.deepcopy(expr))


_OWN, _START = "line", "line_range.start_line"


@rule("R3.7", "C03", floor=8)
def r3_7(ctx):
  """A trailing directive registers only its own line (D16 known finding)."""
  mod = get_module(ctx, DIR)
  seen = set()
  for qual in _PROCS:
    fn, st, open_arm, _, recv, memb, _ = _arms(mod, qual)
    opens = {id(n) for s in open_arm for n in ast.walk(s)}
    for c in calls_in(fn):
      if not _is_reg(c):
        continue
      a0, m = _reg_args(ctx, c)
      got = _resolve(fn, c.func.value)
      # the target of a loop over a literal tuple stands for one registration per element
      loops = [n for n in walk_no_nested(fn) if isinstance(n, ast.For) and dotted(n.target) == a0
               and isinstance(n.iter, (ast.Tuple, ast.List))
               and not any(isinstance(e, ast.Starred) for e in n.iter.elts)]
      for a in ([src(e) for e in loops[0].iter.elts] if len(loops) == 1 else [a0]):
        _r3_7_call(ctx, mod, qual, fn, c, a, m, got, recv, memb, opens, seen)


def _r3_7_call(ctx, mod, qual, fn, c, a, m, got, recv, memb, opens, seen):
  """R3.7 for one registration call `c` with line argument `a`."""
  anode = ast.parse(a, mode="eval").body
  vals = _line_values(mod, "Director", fn, anode)
  own = vals == {_OWN} or (a.isidentifier() and any(_eq_test(t, p, a) for t, p in _guards(mod, c)))
  # the line adjustment (the D16 mechanism: own line or the start line of the enclosing range) is keyed
  # final_line whatever the local is called and whether a helper method or inline code computes it
  if vals <= {_OWN, _START} and _START in vals:
    canon = "final_line"
  elif own or not a.isidentifier():
    canon = a
  else:
    canon = f"{a}={'|'.join(sorted(vals))}"
  if _START in vals:
    # where the adjusted line comes from: a helper method of the Director (one instance per helper)
    # or inline code (one per directive kind)
    helpers = sorted({k.func.attr for v in [anode] + [n.value for n in walk_no_nested(fn)
                      if isinstance(n, ast.Assign)] for k in calls_in(v)
                      if isinstance(k.func, ast.Attribute) and dotted(k.func.value) == "self"
                      and k.func.attr in mod.methods("Director")
                      and _START in _line_values(mod, "Director", fn, k)})
    for key, line in [(f"Director.{h}:returns", mod.methods("Director")[h].lineno) for h in helpers] or [
        (f"{qual}:adjusted-line", c.lineno)]:
      if key not in seen:
        seen.add(key)
        ctx.check(vals <= {_OWN, _START}, key, DIR, line,
                  f"the adjusted line is one of {sorted(vals)}; only the own line or the range start line "
                  "are expected", {"returns": sorted(vals)})
  why = []
  if got != recv:
    why.append(f"writes line set {got}, expected {recv}")
  if m != memb:
    why.append(f"membership {m}, expected {memb}")
  if not own:
    why.append(f"registers line `{a}` (one of {sorted(vals)}), which is not the comment's own line")
  if c.func.attr == "start_range" and id(c) not in opens:
    why.append("starts a range for a trailing (not open-ended) directive")
  ctx.check(not why, f"{qual}:{c.func.attr}({canon})" + ("" if got == recv else f"@{got}"), DIR,
            c.lineno, "; ".join(why), {"receiver": got, "line": a, "values": sorted(vals), "membership": m})


_MUT = {"append", "extend", "insert", "remove", "pop", "clear", "sort", "reverse",
        "__setitem__", "__delitem__", "__iadd__", "__imul__"}
_READERS = {"len", "iter", "sorted", "any", "all", "list", "tuple", "enumerate", "reversed", "bool", "sum"}


def _uses(mod, attr):
  """Classifies every `<x>.<attr>` occurrence: (read|rebind|mutate:*|escape, function, node)."""
  out = []
  for n in ast.walk(mod.tree):
    if not (isinstance(n, ast.Attribute) and n.attr == attr):
      continue
    p = mod.parent[n]
    if not isinstance(n.ctx, ast.Load):
      kind = "rebind"
    elif isinstance(p, ast.Attribute) and getattr(mod.parent.get(p), "func", None) is p:
      kind = "mutate:" + p.attr if p.attr in _MUT else "read"
    elif isinstance(p, ast.Subscript) and p.value is n:
      kind = "read" if isinstance(p.ctx, ast.Load) else "mutate:setitem"
    elif (isinstance(p, ast.Call) and n in p.args and dotted(p.func) in _READERS) or (
        isinstance(p, (ast.For, ast.comprehension)) and p.iter is n):
      kind = "read"
    else:
      kind = "escape"
    out.append((kind, _qual(mod, n), n))
  return out


def _writers(mod, uses):
  """(function, kind, assigned value) of every non-read, non-escape use."""
  return sorted((q, k, src(mod.parent[n].value) if isinstance(mod.parent[n], ast.Assign) else "")
                for k, q, n in uses if k not in ("read", "escape"))


def _filter_test(t, p, err, rec=()):
  """Does `t` with polarity `p` imply that the filter is absent or accepted `err`?

  `rec`: flags that are only set while ErrorLog.checkpoint() is recording; what is appended then is
  cut off again by CheckPoint.revert (checked separately), so it need not pass the filter.
  """
  call, none, some = f"self._filter({err})", ("self._filter is None", "not self._filter") + tuple(rec), (
      "self._filter is not None", "self._filter") + tuple(f"not {r}" for r in rec)
  ops = [src(v) for v in getattr(t, "values", [t])]
  if not p:   # early exit `if <filter present> and not filter(err): return`
    return f"not {call}" in ops and all(o == f"not {call}" or o in some for o in ops) and not isinstance(
        getattr(t, "op", None), ast.Or)
  if isinstance(t, ast.BoolOp) and isinstance(t.op, ast.And):
    return any(_filter_test(v, True, err, rec) for v in t.values)
  return call in ops and all(o == call or o in none for o in ops)


@rule("R3.2", "C03", floor=13)
def r3_2(ctx):
  """Single writer of the error list, behind the filter; the filter is installed."""
  mod = get_module(ctx, ERR)
  uses = _uses(mod, "_errors")
  w = _writers(mod, uses)
  ctx.check(w == [("ErrorLog.__init__", "rebind", "[]"), ("ErrorLog._add", "mutate:append", "")],
            "ErrorLog._errors:writers", ERR, 0, f"writers of _errors are {w}; only ErrorLog._add may append",
            {"writers": w})
  # the list escapes only into CheckPoint, which may only cut it back to the recorded length
  esc = [(q, src(mod.parent[n])) for k, q, n in uses if k == "escape"]
  cp = _uses(mod, "_errorlog_errors")
  cw = _writers(mod, cp)
  trunc = [mod.parent[mod.parent[n]] for k, q, n in cp if k == "mutate:setitem"]
  pos = _writers(mod, _uses(mod, "_position"))
  cinit = mod.func("CheckPoint.__init__")
  prm = _params(cinit)[1]
  ok = (esc == [("ErrorLog.checkpoint", "CheckPoint(self._errors)")] and not [1 for k, _, _ in cp if k == "escape"]
        and cw == [("CheckPoint.__init__", "rebind", prm), ("CheckPoint.revert", "mutate:setitem", "")]
        and len(trunc) == 1 and isinstance(trunc[0], ast.Assign)
        and src(trunc[0].targets[0]) == "self._errorlog_errors[:]"
        and src(trunc[0].value) == "self._errorlog_errors[:self._position]"
        and pos == [("CheckPoint.__init__", "rebind", f"len({prm})")])
  ctx.check(ok, "CheckPoint:truncate-only", ERR, cinit.lineno,
            f"_errors escapes to {esc}; CheckPoint writes {cw} / {[src(t) for t in trunc]}, _position={pos}; "
            "it may only cut the list back to the recorded length", {"escapes": esc, "writers": cw})
  # _add: append(error) is control-dependent on the filter accepting error
  add = mod.func("ErrorLog._add")
  err = _params(add)[1]
  apps = [c for c in calls_in(add) if dotted(c.func) == "self._errors.append"]
  g = [_gtxt(mod, c) for c in apps]
  # attributes checkpoint() sets around its yield; they only count if the recorded errors are always cut off
  # again (revert in a finally clause; CheckPoint:truncate-only above)
  cpf = mod.func("ErrorLog.checkpoint")
  reverts = any(isinstance(c.func, ast.Attribute) and c.func.attr == "revert" for t in walk_no_nested(cpf)
                if isinstance(t, ast.Try) for s in t.finalbody for c in calls_in(s))
  rec = sorted({dotted(t) for n in walk_no_nested(cpf) if isinstance(n, ast.Assign) for t in n.targets
                if (dotted(t) or "").startswith("self.")}) if reverts else []
  ok = bool(apps) and err not in _stored(add) and all(
      [src(a) for a in c.args] == [err] and any(_filter_test(t, p, err, rec) for t, p in _guards(mod, c))
      for c in apps)
  ctx.check(ok, "ErrorLog._add:filter-guard", ERR, add.lineno, "append must be guarded by `self._filter is "
            f"None or self._filter({err})` for the appended error; guards={g}", {"guards": g})
  fu = _uses(mod, "_filter")
  fw = _writers(mod, fu)
  sef = mod.func("ErrorLog.set_error_filter")
  ctx.check(fw == [("ErrorLog.__init__", "rebind", "None"), ("ErrorLog.set_error_filter", "rebind", _params(sef)[1])],
            "ErrorLog._filter:writers", ERR, sef.lineno,
            f"_filter is written in {fw}; only __init__ and set_error_filter may", {"writers": fw})
  # every Error built in the log classes flows into _add
  for cls in ("ErrorLog", "VmErrorLog"):
    for name, fn in sorted(mod.methods(cls).items()):
      for i, c in enumerate(k for k in calls_in(fn) if dotted(k.func) in ("Error", "Error.with_stack")):
        st = mod.enclosing_stmt(c)
        var = dotted(st.targets[0]) if isinstance(st, ast.Assign) and st.value is c else None

        def adds(u, c=c, var=var):
          return any(dotted(k.func) == "self._add" and len(k.args) == 1 and (
              k.args[0] is c or (var and dotted(k.args[0]) == var)) for k in flow.unconditional_calls(u))
        f = flow.flow(fn, mode="may", kill=lambda u: {"pending"} if adds(u) else (),
                      gen=lambda u, c=c: {"pending"} if not adds(u) and any(
                          n is c for n in flow.unconditional_nodes(u)) else ())
        lost = [k for k, _, s in f.exits if k != "raise" and s and "pending" in s]
        ctx.check(not lost and (adds(st) or var), f"{cls}.{name}:Error->_add" + (f"#{i}" if i else ""),
                  ERR, c.lineno, "an Error is created here but does not reach self._add on every path "
                  "(it would bypass the filter or be dropped)", {"via": var or "direct"})
  # vm.run_program installs the director's filter before any bytecode runs
  vm = get_module(ctx, VM)
  run = vm.func("VirtualMachine.run_program")
  dirs = [n for n in walk_no_nested(run) if isinstance(n, ast.Assign) and isinstance(n.value, ast.Call)
          and dotted(n.value.func) == "directors.Director" and isinstance(n.targets[0], ast.Name)]
  runs = calls_in(run, suffix="run_bytecode")
  if len(dirs) != 1 or not runs:
    raise AnalysisError("run_program: `<name> = directors.Director(...)` or run_bytecode not found")
  want = f"self.ctx.errorlog.set_error_filter({dirs[0].targets[0].id}.filter_error)"
  norm = lambda c: src(c).replace(src(c.func.value), _resolve(run, c.func.value), 1) if _is_reg(
      c, ("set_error_filter",)) else ""
  inst = [norm(c) for c in calls_in(run, suffix="set_error_filter")]
  b = _bind(dirs[0].value, get_module(ctx, DIR).func("Director.__init__"))
  log = b.get("errorlog", "")
  ctx.check(inst == [want] and (_resolve(run, ast.Name(id=log)) if log.isidentifier() else log) == "self.ctx.errorlog"
            and b.get("filename") == "filename" and "filename" not in _stored(run),
            "VirtualMachine.run_program:installs-filter", VM, run.lineno,
            f"set_error_filter calls {inst} (expected exactly {want}) with Director({b}): the filter must "
            "be the one of the Director built for this file and log", {"director": b})
  f = flow.flow(run, gen=lambda u: {"on"} if any(norm(c) == want for c in flow.unconditional_calls(u)) else ())
  ctx.check(all("on" in (f.before.get(vm.enclosing_stmt(c)) or ()) for c in runs),
            "VirtualMachine.run_program:filter-dominates-run_bytecode", VM, runs[0].lineno,
            "run_bytecode is reachable before the director's filter is installed", {"runs": len(runs)})
  ctx._cache["c03.director_before_filter"] = "on" not in (f.before.get(dirs[0]) or ())
  if ctx.tier == "thorough":   # who-may-write over the whole package
    foreign, setters, n = [], [], 0
    for rel in all_py_files(ctx):
      text = ctx.read(rel)
      if "_errors" in text or "set_error_filter" in text:
        m, n = get_module(ctx, rel), n + 1
        foreign += [(rel, q, k) for a in ("_errors", "_errorlog_errors") for k, q, _ in _uses(m, a)
                    if k != "read" and rel != ERR]
        setters += [(rel, _qual(m, c)) for c in calls_in(m.tree, suffix="set_error_filter")]
    ctx.check(not foreign, "package:_errors-foreign-writers", ERR, 0,
              f"the error list is written outside errors.py: {foreign}", {"files": n})
    ctx.check(setters == [(VM, "VirtualMachine.run_program")], "package:set_error_filter-callers", VM, 0,
              f"set_error_filter is called from {setters}; only run_program may", {"callers": setters})


def _beval(node, val, atoms):
  """Evaluates a not/and/or combination of `x in c` / `x not in c` under `val`; collects the atoms."""
  if isinstance(node, ast.BoolOp):
    vs = [_beval(v, val, atoms) for v in node.values]
    return all(vs) if isinstance(node.op, ast.And) else any(vs)
  if isinstance(node, ast.UnaryOp) and isinstance(node.op, ast.Not):
    return not _beval(node.operand, val, atoms)
  if isinstance(node, ast.Compare) and len(node.ops) == 1 and isinstance(node.ops[0], (ast.In, ast.NotIn)):
    key = (src(node.left), src(node.comparators[0]))
    atoms.add(key)
    return val.get(key, False) == isinstance(node.ops[0], ast.In)
  raise AnalysisError(f"filter_error: not a membership combination: {src(node)}")


@rule("R3.3", "C03", floor=3)
def r3_3(ctx):
  """filter_error = line in none of _ignore, _disables['*'], _disables[name]."""
  mod = get_module(ctx, DIR)
  fn = mod.func("Director.filter_error")
  err = _params(fn)[1]
  final = fn.body[-1]
  if not isinstance(final, ast.Return) or final.value is None:
    raise AnalysisError("filter_error does not end in a return")
  # the verdict may delegate to single-expression methods of the Director (`not self._is_suppressed(..)`)
  verdict = _inline_self_calls(mod, "Director", final.value)
  atoms = set()
  _beval(verdict, {}, atoms)
  atoms = sorted(atoms)
  want = {"self._ignore", "self._disables[_ALL_ERRORS]", f"self._disables[{err}.name]"}
  table_ok = all(_beval(verdict, dict(zip(atoms, bits)), set()) == (not any(bits))
                 for bits in itertools.product((False, True), repeat=len(atoms)))
  lefts = sorted({a for a, _ in atoms})
  v = _single_def(fn, lefts[0]) if lefts[0].isidentifier() else None
  line = src(v) if v is not None else lefts[0]
  # the key is a once-bound local or an expression written out in the tests
  keyexpr = v if v is not None else ast.parse(lefts[0], mode="eval").body
  ctx.check(table_ok and {c for _, c in atoms} == want and len(lefts) == 1
            and f"{err}.line" in flow.attrs_in(keyexpr),
            "Director.filter_error:conjunction", DIR, final.lineno, f"returns {src(verdict)} with line = "
            f"{line}: must be true iff the error's line is in none of {sorted(want)}", {"atoms": atoms, "line": line})
  allowed = {f"{err}.filename != self._filename", f"{err}.line is None"}
  odd = []
  for r in _returns(fn):
    g = _guards(mod, r)
    ops = [src(x) for x in g[0][0].values] if len(g) == 1 and isinstance(g[0][0], ast.BoolOp) \
        and isinstance(g[0][0].op, ast.Or) else [src(t) for t, _ in g]
    if r is not final and not (src(r.value) == "True" and len(g) == 1 and g[0][1] and set(ops) <= allowed):
      odd.append((src(r), _gtxt(mod, r)))
  ctx.check(not odd, "Director.filter_error:early-returns", DIR, fn.lineno, f"early exits {odd} bypass the "
            "ignore/disable tests; only errors of another file or without a line may", {"allowed": sorted(allowed)})
  init = mod.func("Director.__init__")
  sets = {dotted(n.targets[0]): src(n.value) for n in walk_no_nested(init) if isinstance(n, ast.Assign)
          and dotted(n.targets[0]) in ("self._ignore", "self._disables")}
  ctx.check(sets == {"self._ignore": "_LineSet()", "self._disables": "collections.defaultdict(_LineSet)"},
            "Director.__init__:line-sets", DIR, init.lineno,
            f"_ignore/_disables are {sets}; membership must be _LineSet.__contains__", {"sets": sets})


@rule("R3.4", "C03", floor=3)
def r3_4(ctx):
  """A per-line entry takes precedence over the range list."""
  mod = get_module(ctx, DIR)
  fn = mod.func("_LineSet.__contains__")
  key = _params(fn)[1]
  rets = _returns(fn)
  spec = [r for r in rets if isinstance(r.value, ast.Name) and _resolve(fn, r.value) == f"self._lines.get({key})"]
  if len(spec) != 1:
    if "self._lines" in flow.attrs_in(fn):
      raise AnalysisError("__contains__: per-line lookup has an unknown shape")
    return ctx.bad("_LineSet.__contains__:specific-first", DIR, fn.lineno,
                   "per-line entries (_lines) are not consulted at all")
  v = spec[0].value.id
  hit = [(f"{v} is not None", True), (f"{v} is None", False)]
  miss = [(f"{v} is not None", False), (f"{v} is None", True)]
  g = _gtxt(mod, spec[0])
  ctx.check(len(g) == 1 and g[0] in hit, "_LineSet.__contains__:specific-first", DIR, spec[0].lineno,
            f"the per-line entry is returned under {g}; it must be returned exactly when it is not None",
            {"guards": g})
  others = [r for r in rets if r is not spec[0]]
  if len(others) != 1:
    raise AnalysisError("__contains__: expected one range fall-back return")
  val, g = others[0].value, _gtxt(mod, others[0])
  # `<position> % 2 == 1` (or `!= 0`, operands swapped); the position is a once-bound local or written inline
  cmp_ = val
  a, b = (cmp_.left, cmp_.comparators[0]) if isinstance(cmp_, ast.Compare) and len(cmp_.ops) == 1 else (None, None)
  if isinstance(a, ast.Constant):
    a, b = b, a
  if not (isinstance(cmp_, ast.Compare) and isinstance(cmp_.ops[0], (ast.Eq, ast.NotEq)) and isinstance(a, ast.BinOp)
          and isinstance(a.op, ast.Mod) and isinstance(a.right, ast.Constant) and a.right.value == 2
          and isinstance(b, ast.Constant) and b.value in (0, 1) and not isinstance(b.value, bool)):
    raise AnalysisError(f"__contains__: range parity test has unknown shape {src(val)}")
  pos, odd = _resolve(fn, a.left), isinstance(cmp_.ops[0], ast.Eq) == (b.value == 1)
  ctx.check(any(x in miss for x in g) and odd and pos in (
      f"bisect.bisect(self._transitions, {key})", f"bisect.bisect_right(self._transitions, {key})"),
            "_LineSet.__contains__:range-fallback", DIR, others[0].lineno,
            f"range answer `{src(val)}` (pos={pos}) under {g}: it must be consulted only when there is no "
            "per-line entry and be true for an odd bisect_right position", {"guards": g, "pos": pos})
  sl = mod.func("_LineSet.set_line")
  a, b = _params(sl)[1:3]
  if any(not isinstance(n, (ast.Assign, ast.Expr)) for n in sl.body):
    raise AnalysisError("_LineSet.set_line: body is not straight-line")
  st = [(src(n.targets[0]), src(n.value)) for n in sl.body if isinstance(n, ast.Assign)]
  ctx.check(st == [(f"self._lines[{a}]", b)], "_LineSet.set_line:stores", DIR, sl.lineno,
            f"set_line performs {st}; it must store the given membership under the given line", {"stores": st})


_IS_CALL_RANGE = re.compile(r"isinstance\(line_range, (\w+\.)?Call\)")


def _bindings(fn, name):
  """(values of the plain assignments to local `name`, other binding constructs) in fn."""
  vals = [n.value for n in walk_no_nested(fn) if isinstance(n, ast.Assign) and len(n.targets) == 1
          and dotted(n.targets[0]) == name]
  others = [n for n in walk_no_nested(fn) if not (isinstance(n, ast.Assign) and len(n.targets) == 1
                                                  and dotted(n.targets[0]) == name)
            and not isinstance(n, (ast.FunctionDef, ast.AsyncFunctionDef, ast.Lambda))
            and any(isinstance(x, ast.Name) and x.id == name and not isinstance(x.ctx, ast.Load)
                    for x in ast.iter_child_nodes(n) for x in ([x] + ([e for e in x.elts] if isinstance(
                        x, (ast.Tuple, ast.List)) else [])))]
  return vals, others


def _formula(fn, closures, node, depth=0):
  """`node` as a formula over atoms: once-bound locals and calls of local closures are expanded."""
  if depth > 6:
    raise AnalysisError(f"{fn.name}: `{src(node)}` is defined recursively")
  rec = lambda n: _formula(fn, closures, n, depth + 1)
  if isinstance(node, ast.UnaryOp) and isinstance(node.op, ast.Not):
    return ast.UnaryOp(op=ast.Not(), operand=rec(node.operand))
  if isinstance(node, ast.BoolOp):
    return ast.BoolOp(op=node.op, values=[rec(v) for v in node.values])
  if isinstance(node, ast.IfExp):
    return ast.IfExp(test=rec(node.test), body=rec(node.body), orelse=rec(node.orelse))
  if isinstance(node, ast.Name) and node.id not in _params(fn) and node.id not in closures:
    vals, others = _bindings(fn, node.id)
    if len(vals) == 1 and not others:
      return rec(vals[0])
  if isinstance(node, ast.Call) and isinstance(node.func, ast.Name) and node.func.id in closures:
    # OR over the closure's returning paths of (path condition AND returned value), arguments substituted
    cl = closures[node.func.id]
    names = _params(cl)
    if node.keywords or len(node.args) != len(names) or any(isinstance(x, ast.Starred) for x in node.args) \
        or set(names) & _stored(cl) or not all(dotted(x) or isinstance(x, ast.Constant) for x in node.args):
      raise AnalysisError(f"{fn.name}: call `{src(node)}` of a local closure not understood")
    env, alts = dict(zip(names, node.args)), []
    for ev, how in _paths(cl.body):
      if how == "raise":
        continue
      if any(e[0] == "stmt" and not isinstance(e[1], (ast.Return, ast.Pass)) and not (
          isinstance(e[1], ast.Expr) and isinstance(e[1].value, ast.Constant)) for e in ev):
        raise AnalysisError(f"{fn.name}: closure {cl.name} is not a pure predicate")
      conds = [rec(_subst(e[1], env)) if e[2] else ast.UnaryOp(op=ast.Not(), operand=rec(_subst(e[1], env)))
               for e in ev if e[0] == "cond"]
      ret = ev[-1][1] if how == "return" else None
      value = rec(_subst(ret.value, env)) if ret is not None and ret.value is not None else ast.Constant(value=False)
      alts.append(ast.BoolOp(op=ast.And(), values=conds + [value]))
    return ast.BoolOp(op=ast.Or(), values=alts) if alts else ast.Constant(value=False)
  return node


def _atom(node):
  """(canonical text of the positive atom, polarity)."""
  if isinstance(node, ast.Compare) and len(node.ops) == 1 and isinstance(
      node.ops[0], (ast.Eq, ast.NotEq, ast.In, ast.NotIn, ast.Is, ast.IsNot)):
    l, r, op = src(node.left), src(node.comparators[0]), node.ops[0]
    if isinstance(op, (ast.Eq, ast.NotEq)):
      l, r = sorted((l, r))
      return f"{l} == {r}", isinstance(op, ast.Eq)
    if isinstance(op, (ast.In, ast.NotIn)):
      return f"{l} in {r}", isinstance(op, ast.In)
    return f"{l} is {r}", isinstance(op, ast.Is)
  return src(node), True


def _feval(node, val, atoms):
  """Truth value of a formula under the atom assignment `val`; collects the atoms."""
  if isinstance(node, ast.Constant):
    return bool(node.value)
  if isinstance(node, ast.UnaryOp) and isinstance(node.op, ast.Not):
    return not _feval(node.operand, val, atoms)
  if isinstance(node, ast.BoolOp):
    vs = [_feval(v, val, atoms) for v in node.values]
    return all(vs) if isinstance(node.op, ast.And) else any(vs)
  if isinstance(node, ast.IfExp):
    c, x, y = (_feval(n, val, atoms) for n in (node.test, node.body, node.orelse))
    return x if c else y
  key, pol = _atom(node)
  atoms.add(key)
  return val.get(key, False) == pol


@rule("R3.5", "C03", floor=6)
def r3_5(ctx):
  """No directive is lost between the tokenizer and the Director."""
  mod = get_module(ctx, PAR)
  init = mod.func("_ParseVisitor.__init__")
  raw = _params(init)[1]
  seeds = [n for n in walk_no_nested(init) if isinstance(n, ast.Assign) and dotted(n.targets[0]) == GROUPS]
  if len(seeds) != 1:
    raise AnalysisError("_ParseVisitor.__init__: structured_comment_groups seed not found")
  val = seeds[0].value
  comp = val.args[0] if isinstance(val, ast.Call) and dotted(val.func) in (
      "collections.OrderedDict", "OrderedDict", "dict") and len(val.args) == 1 else val
  if isinstance(comp, (ast.GeneratorExp, ast.ListComp)) and isinstance(comp.elt, ast.Tuple) \
      and len(comp.elt.elts) == 2:
    k, v = comp.elt.elts
  elif isinstance(comp, ast.DictComp):
    k, v = comp.key, comp.value
  else:
    raise AnalysisError(f"structured_comment_groups seed has unknown shape: {src(val)[:60]}")
  gen = comp.generators[0]
  if len(comp.generators) != 1 or src(gen.iter) not in (f"{raw}.items()", f"self._{raw}.items()") \
      or not (isinstance(gen.target, ast.Tuple) and len(gen.target.elts) == 2):
    raise AnalysisError("structured_comment_groups seed does not iterate the raw comments")
  ln, cs = (src(e) for e in gen.target.elts)
  copies = (f"list({cs})", cs, f"{cs}[:]", f"[*{cs}]", f"{cs}.copy()")
  if src(v) not in copies and cs in flow.names_in(v):
    raise AnalysisError(f"seed group value has unknown shape: {src(v)}")
  why = [f"raw comments are filtered by {[src(i) for i in gen.ifs]}"] if gen.ifs else []
  if src(k) != f"LineRange({ln}, {ln})":
    why.append(f"group key is {src(k)}, not the never-skipped base LineRange({ln}, {ln})")
  if src(v) not in copies:
    why.append(f"group value {src(v)} does not hold the comments")
  ctx.check(not why, "_ParseVisitor.__init__:seed", PAR, seeds[0].lineno, "; ".join(why),
            {"key": src(k), "value": src(v), "ifs": len(gen.ifs)})
  # merging: extend before delete, and the extended list is the stored one
  q = "_ParseVisitor._add_structured_comment_group"
  fn = mod.func(q)
  new = [n for n in walk_no_nested(fn) if isinstance(n, ast.Assign) and len(n.targets) == 2
         and src(n.value) == "[]" and {type(t) for t in n.targets} == {ast.Name, ast.Subscript}]
  if len(new) != 1:
    raise AnalysisError(f"{q}: `groups[key] = new_group = []` not found")
  ng = [t.id for t in new[0].targets if isinstance(t, ast.Name)][0]
  sub = [t for t in new[0].targets if isinstance(t, ast.Subscript)][0]
  ctx.check(src(sub.value) == GROUPS and isinstance(fn.body[-1], ast.Return) and src(fn.body[-1].value) == ng
            and _single_def(fn, ng) is new[0].value, f"{q}:new-group-stored", PAR, new[0].lineno,
            "the list that absorbs merged groups must be the one stored in structured_comment_groups "
            "and returned", {"name": ng, "stored_in": src(sub)})

  def kill(u):
    names = _stored(u)
    return (lambda f: f in names or ng in names) if names else None
  f = flow.flow(fn, kill=kill, gen=lambda u: {
      c.args[0].slice.id for c in flow.unconditional_calls(u) if dotted(c.func) == f"{ng}.extend"
      and len(c.args) == 1 and isinstance(c.args[0], ast.Subscript) and src(c.args[0].value) == GROUPS
      and isinstance(c.args[0].slice, ast.Name)})
  dels = [(n, src(t.slice)) for n in walk_no_nested(fn) if isinstance(n, ast.Delete) for t in n.targets
          if isinstance(t, ast.Subscript) and src(t.value) == GROUPS]
  for n, key in dels:
    ctx.check(key in (f.before.get(n) or ()), f"{q}:del[{key}]", PAR, n.lineno,
              f"group {key} is deleted without `{ng}.extend({GROUPS}[{key}])` on every path before it: "
              "its directives are lost", {"extended": sorted(f.before.get(n) or ())})
  # `<new>.extend(groups.pop(k))` removes and keeps in one step; any other pop loses the group
  for c in calls_in(fn, name=f"{GROUPS}.pop"):
    if len(c.args) != 1 or c.keywords:
      raise AnalysisError(f"{q}: `{src(c)}` - pop with a default is not understood")
    key, par = src(c.args[0]), mod.parent.get(c)
    kept = isinstance(par, ast.Call) and dotted(par.func) == f"{ng}.extend" and par.args == [c] \
        or isinstance(par, ast.AugAssign) and isinstance(par.op, ast.Add) and dotted(par.target) == ng \
        and par.value is c
    ctx.check(kept, f"{q}:del[{key}]", PAR, c.lineno,
              f"group {key} is popped from {GROUPS} but its comments are not added to `{ng}`: "
              "its directives are lost", {"popped_into": src(par)[:80] if par is not None else None})
  # Director side: base ranges are never skipped, every comment is dispatched
  dmod = get_module(ctx, DIR)
  pd, split = _arms(dmod, "Director._process_disable")[:2]
  closures = {n.name: n for n in pd.body if isinstance(n, ast.FunctionDef)}
  lv = _arms(dmod, "Director._process_disable")[6]
  # what is known about a directive that must be registered: a base range, at least one name, a valid name
  is_call = [src(n) for n in ast.walk(pd) if isinstance(n, ast.Call) and _IS_CALL_RANGE.fullmatch(src(n))]
  valid = ast.parse(f"{lv} == _ALL_ERRORS or self._errorlog.is_valid_error_name({lv})", mode="eval").body
  assume = [(ast.parse(t, mode="eval").body, False) for t in sorted(set(is_call))] + [
      (valid, True), (ast.Name(id="values"), True)]
  known = set()
  for t, _ in assume:
    _feval(t, {}, known)
  gs = [(t, _formula(pd, closures, t), p) for t, p in _guards(dmod, split)]
  atoms = set(known)
  for _, f, _ in gs:
    _feval(f, {}, atoms)
  atoms = sorted(atoms)
  if len(atoms) > 12:
    raise AnalysisError("_process_disable: too many conditions before the registration")
  wrong = {}
  for bits in itertools.product((False, True), repeat=len(atoms)):
    val = dict(zip(atoms, bits))
    if all(_feval(t, val, set()) == p for t, p in assume):
      for t, f, p in gs:
        if _feval(f, val, set()) != p:
          mine = set()
          _feval(f, {}, mine)
          wrong.setdefault((src(t), p), set()).update(mine - known)
  modconst = set(dmod.assigns) | {lv}
  for (t, p), free in wrong.items():
    odd = sorted(x for x in free if not flow.names_in(ast.parse(x, mode="eval")) <= modconst)
    if odd:
      raise AnalysisError(f"_process_disable: guard `{t}` before the registration depends on {odd}: not understood")
  ctx.check(not wrong, "Director._process_disable" + (".keep" if "keep" in closures else "") + ":base-range",
            DIR, split.lineno, "a valid error name in a base LineRange (not a Call range) is registered only if "
            f"{sorted(wrong)} hold(s), which depends on {sorted(set().union(*wrong.values())) if wrong else []}: "
            "only Call ranges may be skipped", {"guards": [(src(t), p) for t, _, p in gs], "assumed": [
                (src(t), p) for t, p in assume]})
  fn = dmod.func("Director._parse_src_tree")
  for target in ("_process_type", "_process_pytype"):
    calls = calls_in(fn, name=f"self.{target}")
    if not calls_in(dmod.cls("Director"), name=f"self.{target}"):
      # definite: the handler exists (anchor above) but nothing in the Director calls it
      dmod.func(f"Director.{target}")
      ctx.bad(f"Director._parse_src_tree:dispatch:{target}", DIR, fn.lineno,
              f"Director.{target} is never called: no `{target[9:]}:` comment is processed at all", {"calls": 0})
      continue
    loops, node = [], calls[0] if len(calls) == 1 else fn
    while node is not fn:
      node = dmod.parent[node]
      loops += [node] if isinstance(node, ast.For) else []
    if not (len(loops) == 2 and src(loops[1].iter) == "visitor.structured_comment_groups.items()"
            and _resolve(fn, ast.Name(id="visitor")).startswith("parser.visit_src_tree(")
            and isinstance(loops[1].target, ast.Tuple) and len(loops[1].target.elts) == 2):
      raise AnalysisError(f"_parse_src_tree: one {target} call inside the group/comment loops expected")
    rng, grp = (src(e) for e in loops[1].target.elts)
    cm = src(loops[0].target)
    b = _bind(calls[0], dmod.func(f"Director.{target}"))
    want = {"line": f"{cm}.line", "data": f"{cm}.data", "open_ended": f"{cm}.open_ended", "line_range": rng}
    g = _gtxt(dmod, calls[0])
    tool = (f"{cm}.tool == 'type'", target == "_process_type")
    extra = [x for x in g if x not in (tool, (f"{cm}.tool == 'pytype'", True), ("not visitor", False))]
    ctx.check(b == want and src(loops[0].iter) == grp and tool in g and not extra,
              f"Director._parse_src_tree:dispatch:{target}", DIR, calls[0].lineno,
              f"{target} receives {b} under {g}; expected {want} for every comment of every group",
              {"args": b, "guards": g})


def _plain(x):
  if isinstance(x, sp.SubPattern):
    return [_plain(i) for i in x.data]
  return type(x)(_plain(i) for i in x) if isinstance(x, (tuple, list)) else x


def _pattern(mod, name):
  node = mod.const(name)
  if not (isinstance(node, ast.Call) and dotted(node.func) == "re.compile"
          and len(node.args) == 1 and not node.keywords):
    raise AnalysisError(f"{name} is not re.compile(<pattern>)")
  try:
    text = fold(node.args[0], mod=mod)
    return text, _plain(sp.parse(text))
  except (Unfoldable, re.error) as e:
    raise AnalysisError(f"{name}: pattern not foldable/parsable: {e}") from e


def _lang(items):
  """The finite set of strings a literal/branch/optional-only pattern matches."""
  out = {""}
  for op, av in items:
    if op is sc.LITERAL:
      alts = {chr(av)}
    elif op is sc.BRANCH:
      alts = set().union(*(_lang(b) for b in av[1]))
    elif op is sc.SUBPATTERN:
      alts = _lang(av[3])
    elif op in (sc.MAX_REPEAT, sc.MIN_REPEAT) and av[1] <= 2:
      alts = {"".join(p) for n in range(av[0], av[1] + 1) for p in itertools.product(_lang(av[2]), repeat=n)}
    else:
      raise AnalysisError(f"regex group is not a finite literal language: {op}")
    out = {a + b for a in out for b in alts}
    if len(out) > 64:
      raise AnalysisError("regex group language too large")
  return out


def _ws(item):
  """(min, max) if item is a repeat of \\s, else None."""
  return item[1][:2] if item[0] in (sc.MAX_REPEAT, sc.MIN_REPEAT) and item[1][2] == [
      (sc.IN, [(sc.CATEGORY, sc.CATEGORY_SPACE)])] else None


class _NoValue(Exception):
  pass


def _ceval(node, env):
  """Value of a constant expression over the names in env (comparisons, not/and/or)."""
  if isinstance(node, ast.Constant):
    return node.value
  if isinstance(node, ast.Name) and node.id in env:
    return env[node.id]
  if isinstance(node, (ast.Tuple, ast.List, ast.Set)):
    return tuple(_ceval(e, env) for e in node.elts)
  if isinstance(node, ast.UnaryOp) and isinstance(node.op, ast.Not):
    return not _ceval(node.operand, env)
  if isinstance(node, ast.BoolOp):
    vals = [_ceval(v, env) for v in node.values]
    return all(vals) if isinstance(node.op, ast.And) else any(vals)
  if isinstance(node, ast.IfExp):
    return _ceval(node.body if _ceval(node.test, env) else node.orelse, env)
  if isinstance(node, ast.Compare):
    left = _ceval(node.left, env)
    for op, right in zip(node.ops, node.comparators):
      right = _ceval(right, env)
      if isinstance(op, (ast.Eq, ast.NotEq)):
        r = (left == right) == isinstance(op, ast.Eq)
      elif isinstance(op, (ast.In, ast.NotIn)):
        r = (left in right) == isinstance(op, ast.In)
      elif isinstance(op, (ast.Is, ast.IsNot)) and (left is None or right is None or
                                                    isinstance(left, bool) or isinstance(right, bool)):
        r = (left is right) == isinstance(op, ast.Is)
      else:
        raise _NoValue(src(node))
      if not r:
        return False
      left = right
    return True
  raise _NoValue(src(node))


@rule("R3.6", "C03", floor=8)
def r3_6(ctx):
  """Directive syntax and the disable/enable wiring."""
  mod = get_module(ctx, PAR)
  text, items = _pattern(mod, "_DIRECTIVE_RE")
  gi = [i for i, (op, av) in enumerate(items) if op is sc.SUBPATTERN and av[0] == 1]
  if len(gi) != 1:
    raise AnalysisError("_DIRECTIVE_RE: group 1 is not a top-level group")
  loc, pre, post = mod.const("_DIRECTIVE_RE").lineno, items[:gi[0]], items[gi[0] + 1:]
  tools = sorted(_lang(items[gi[0]][1][3]))
  ctx.check(tools == ["pytype", "type"], "_DIRECTIVE_RE:tool-group", PAR, loc,
            f"group 1 matches {tools}; the tools are exactly pytype and type", {"tools": tools})
  if any(_ws(i) is None and i[0] is not sc.LITERAL for i in pre + post[:2]):
    raise AnalysisError(f"_DIRECTIVE_RE: unknown items around the tool group in {text!r}")
  ctx.check(len(pre) == 2 and pre[0] == (sc.LITERAL, ord("#")) and _ws(pre[1]) == (0, sc.MAXREPEAT),
            "_DIRECTIVE_RE:prefix", PAR, loc, f"{text!r}: the tool must be preceded by `#\\s*`", {"pattern": text})
  ctx.check(len(post) >= 2 and _ws(post[0]) == (0, sc.MAXREPEAT) and post[1] == (sc.LITERAL, ord(":")),
            "_DIRECTIVE_RE:separator", PAR, loc, f"{text!r}: the tool must be followed by `\\s*:`",
            {"pattern": text})
  # IGNORE_RE: `ignore` + optional [..], nothing after it at every use
  text, items = _pattern(mod, "IGNORE_RE")
  start = bool(items) and items[0] == (sc.AT, sc.AT_BEGINNING)
  end = bool(items) and items[-1] in ((sc.AT, sc.AT_END), (sc.AT, sc.AT_END_STRING))
  core = items[start:len(items) - end]
  word = "".join(chr(av) for op, av in core if op is sc.LITERAL)
  rest = [i for i in core if i[0] is not sc.LITERAL]
  if rest and not (len(rest) == 1 and rest[0] is core[-1] and rest[0][0] is sc.MAX_REPEAT
                   and rest[0][1][:2] == (0, 1) and rest[0][1][2][0][0] is sc.SUBPATTERN):
    raise AnalysisError(f"IGNORE_RE: unknown shape {text!r}")
  br = rest[0][1][2][0][1][3] if rest else [(sc.LITERAL, ord("[")), (sc.LITERAL, ord("]"))]
  ctx.check(word == "ignore" and br[0] == (sc.LITERAL, ord("[")) and br[-1] == (sc.LITERAL, ord("]")),
            "IGNORE_RE:pattern", PAR, mod.const("IGNORE_RE").lineno,
            f"{text!r} must accept `ignore` with an optional [..] group", {"word": word})
  for m in (mod, get_module(ctx, DIR)):
    for n in ast.walk(m.tree):
      if isinstance(n, ast.Attribute) and (dotted(n.value) or "").split(".")[-1] == "IGNORE_RE":
        ok = n.attr == "fullmatch" or (n.attr == "match" and end) or (n.attr == "search" and start and end)
        ctx.check(ok, f"IGNORE_RE:use@{_qual(m, n)}", m.rel, n.lineno,
                  f"IGNORE_RE.{n.attr} with pattern {text!r} accepts text after `ignore`", {"method": n.attr})
  # disable/enable wiring
  dmod = get_module(ctx, DIR)
  fn = dmod.func("Director._process_pytype")
  callee = dmod.func("Director._process_disable")
  if "command" not in flow.names_in(fn) or "command" in _params(fn):
    raise AnalysisError("_process_pytype: the `command` local was not found")
  pds = [c for c in calls_in(fn) if dotted(c.func) == "self._process_disable"]
  if not pds:
    raise AnalysisError("_process_pytype: no call of self._process_disable")
  for cmd, flag in (("disable", True), ("enable", False)):
    env = {"command": cmd}
    reached = []
    for c in pds:
      sat = True
      for t, pol in _guards(dmod, c):
        if "command" not in flow.names_in(t):
          continue
        try:
          sat = sat and bool(_ceval(t, env)) == pol
        except _NoValue:
          raise AnalysisError(f"_process_pytype: guard `{src(t)}` on the command not understood")
      if sat:
        reached.append(c)
    b = _bind(reached[0], callee) if len(reached) == 1 else {}
    got = None
    if "disable" in b:
      try:
        got = _ceval(ast.parse(b["disable"], mode="eval").body, env)
      except _NoValue:
        raise AnalysisError(f"_process_pytype: disable={b['disable']} not understood")
    ctx.check(len(reached) == 1 and got is flag and set(b) == set(_params(callee)[1:])
              and all(b[p] == p for p in ("line", "line_range", "open_ended")),
              f"Director._process_pytype:{cmd}", DIR, reached[0].lineno if reached else fn.lineno,
              f"command {cmd!r} runs {[src(c) for c in reached]}; expected one "
              f"_process_disable(line, line_range, open_ended, <names>, disable={flag})", {"args": b})


@rule("R3.8", "C03", floor=1)
def r3_8(ctx):
  """No error may be logged before the director's filter is installed.

  The filter (director.filter_error) can only exist once the Director has been
  built, so every error the Director logs while it is being constructed
  reaches ErrorLog._add with no filter: neither a trailing nor a stand-alone
  directive (nor --disable) can silence it.
  """
  vm = get_module(ctx, VM)
  run = vm.func("VirtualMachine.run_program")
  dirs = [n for n in walk_no_nested(run) if isinstance(n, ast.Assign) and isinstance(n.value, ast.Call)
          and dotted(n.value.func) == "directors.Director"]
  if len(dirs) != 1:
    raise AnalysisError("run_program: directors.Director(...) construction not found")
  filt = [c for c in calls_in(run, suffix="set_error_filter")]
  if len(filt) > 1:
    raise AnalysisError("run_program: more than one set_error_filter call")
  # no set_error_filter call at all: definitely no filter when the Director is built (R3.2 reports
  # the missing installation itself)
  f = flow.flow(run, gen=lambda u: {"on"} if any(c in filt for c in flow.unconditional_calls(u)) else ())
  before = "on" not in (f.before.get(dirs[0]) or ())
  dm = get_module(ctx, DIR)
  ms = dm.methods("Director")
  seen, todo, logged = set(), ["__init__"], {}
  while todo:
    m = todo.pop()
    if m in seen or m not in ms:
      continue
    seen.add(m)
    for c in calls_in(ms[m]):
      d = dotted(c.func) or ""
      if d.startswith("self._errorlog."):
        logged.setdefault(d.split(".")[-1], m)
      elif d.startswith("self.") and d.count(".") == 1:
        todo.append(d.split(".")[1])
  ctx.check(not (before and logged), "Director.__init__:logs-before-filter", DIR,
            ms["__init__"].lineno,
            f"errors {sorted(logged)} are logged while the Director is being "
            "built, before run_program installs director.filter_error: a "
            "disable directive cannot silence them",
            {"logged_by": logged, "director_built_before_filter": before})


# -- R3.9: the line key of the disable tests is the line the error is reported at ------------------

def _line_writers(ctx):
  """Methods of errors.Error that move an existing error (store self._line outside __init__)."""
  mod = get_module(ctx, ERR)
  ms = mod.methods("Error")
  prop = ms.get("line")
  if prop is None or [src(r.value) for r in _returns(prop) if r.value is not None] != ["self._line"] \
      or not any(dotted(d) == "property" for d in prop.decorator_list):
    raise AnalysisError("errors.Error.line is not a property returning self._line")
  return sorted(name for name, fn in ms.items() if name != "__init__" and any(
      isinstance(n, ast.Attribute) and dotted(n) == "self._line" and not isinstance(n.ctx, ast.Load)
      for n in ast.walk(fn)))


def _moves_param(mod, cls, callee, param, writers, depth=0):
  """Does method `callee` of `cls` move the error bound to its parameter `param`?

  "sure": it calls a line writer on it / stores its line (directly or in a method of cls it hands it to);
  "no": it only reads attributes of it or calls other methods on it; "maybe": the error escapes.
  """
  if param in _stored(callee) or depth > 2 or callee.args.vararg or callee.args.kwarg:
    return "maybe"
  parent = {c: p for p in ast.walk(callee) for c in ast.iter_child_nodes(p)}
  res = "no"
  for n in ast.walk(callee):
    if not (isinstance(n, ast.Name) and n.id == param):
      continue
    p = parent[n]
    if isinstance(p, ast.Attribute) and p.value is n:
      call = parent.get(p)
      if not isinstance(p.ctx, ast.Load) and p.attr in ("line", "_line"):
        return "sure"
      if isinstance(call, ast.Call) and call.func is p and p.attr in writers:
        return "sure"
      continue
    if isinstance(p, ast.keyword):
      p = parent[p]
    if isinstance(p, ast.Call) and (n in p.args or any(k.value is n for k in p.keywords)):
      sub = "maybe"
      if isinstance(p.func, ast.Attribute) and dotted(p.func.value) == "self" and p.func.attr in mod.methods(cls):
        callee2 = mod.methods(cls)[p.func.attr]
        try:
          b = _bind(p, callee2)
        except AnalysisError:
          b = {}
        ps = [k for k, v in b.items() if v == param]
        if len(ps) == 1 and ps[0] in _params(callee2):
          sub = _moves_param(mod, cls, callee2, ps[0], writers, depth + 1)
      if sub == "sure":
        return "sure"
      res = "maybe" if sub == "maybe" else res
      continue
    res = "maybe"   # aliased, returned, stored
  return res


class _LineKeyFlow(flow.Flow):
  """May-flow of `<tag>:<local>` facts over one function.

  fresh:N   N may hold a value computed from <err>.line that is still the error's line
  stale:N   N may hold a value computed from <err>.line before the error was moved
            (<err>.<writer>(..) or a store to <err>._line executed after the read)
  unsure:N  as stale, but the mover is only a call that receives <err> as an argument
  odd:N     N was bound by something other than an assignment statement
  """

  def __init__(self, fn, err, writers, effect=None):
    # effect(call) -> "sure" | "no" | "maybe": what a call that receives the error as an argument does to it
    self._err, self._writers, self._effect = err, writers, effect or (lambda call: "maybe")
    self._line_attrs = (f"{err}.line", f"{err}._line")
    super().__init__(fn, gen=lambda u: (), mode="may")

  def status(self, expr, st):
    out = set()
    for n in ast.walk(expr):
      if isinstance(n, ast.Attribute) and dotted(n) in self._line_attrs:
        out.add("fresh")
      elif isinstance(n, ast.Name):
        out |= {f.split(":", 1)[0] for f in st if f.split(":", 1)[1] == n.id}
    return out

  def _transfer(self, unit, st):
    if st is None or isinstance(unit, (ast.FunctionDef, ast.AsyncFunctionDef, ast.ClassDef)):
      return st
    nodes = [unit] + list(walk_no_nested(unit))
    sure = [n for n in nodes if (isinstance(n, ast.Call) and isinstance(n.func, ast.Attribute)
                                 and dotted(n.func.value) == self._err and n.func.attr in self._writers)
            or (isinstance(n, ast.Attribute) and not isinstance(n.ctx, ast.Load) and dotted(n) in self._line_attrs)]
    passed = [(n, self._effect(n)) for n in nodes if isinstance(n, ast.Call) and n not in sure and any(
        dotted(a) == self._err for a in list(n.args) + [k.value for k in n.keywords])]
    sure += [n for n, e in passed if e == "sure"]
    maybe = [n for n, e in passed if e not in ("sure", "no")]
    stored = {n.id for n in nodes if isinstance(n, ast.Name) and not isinstance(n.ctx, ast.Load)}
    reads = any(isinstance(n, ast.Attribute) and isinstance(n.ctx, ast.Load) and dotted(n) in self._line_attrs
                for n in nodes)
    if (sure or maybe) and (stored or reads):
      raise AnalysisError(f"`{src(unit)[:60]}` moves the error and reads its line / binds a local in one statement")
    facts = set(st)
    for tag, movers in (("stale", sure), ("unsure", maybe)):
      if movers:
        facts |= {f"{tag}:{f[6:]}" for f in st if f.startswith("fresh:")}
    if stored:
      if isinstance(unit, (ast.Assign, ast.AnnAssign, ast.AugAssign)) and unit.value is not None \
          and not any(isinstance(n, ast.NamedExpr) for n in nodes):
        status = self.status(unit.value, st)
        if isinstance(unit, ast.AugAssign):
          status |= self.status(unit.target, st)
      else:
        status = {"odd"}
      facts = {f for f in facts if f.split(":", 1)[1] not in stored}
      facts |= {f"{t}:{n}" for t in status for n in stored}
    return frozenset(facts)


@rule("R3.9", "C03", floor=3)
def r3_9(ctx):
  """Every disable/ignore membership test in filter_error is keyed by the line the error is reported at.

  filter_error may move the error (implicit `return None`: error.set_line(end)); the line that is looked up
  in _ignore/_disables must have been read from error.line after the last possible move on every path,
  otherwise a directive on the *reported* line is not consulted.
  """
  mod = get_module(ctx, DIR)
  fn = mod.func("Director.filter_error")
  err = _params(fn)[1]
  if err in _stored(fn):
    raise AnalysisError("filter_error rebinds its error parameter")
  writers = _line_writers(ctx)
  init = mod.func("Director.__init__")
  tables = {dotted(n.targets[0]) for n in walk_no_nested(init) if isinstance(n, ast.Assign)
            and src(n.value) in ("_LineSet()", "collections.defaultdict(_LineSet)")}
  tables.discard(None)
  if not tables:
    raise AnalysisError("Director.__init__: no _LineSet tables found")
  ms = mod.methods("Director")

  def own_method(call):
    return ms.get(call.func.attr) if isinstance(call.func, ast.Attribute) and dotted(call.func.value) == "self" else None

  def effect(call):
    """What a method of the Director does to the error it is handed (other callees: unknown)."""
    callee = own_method(call)
    if callee is None:
      return "maybe"
    try:
      ps = [k for k, v in _bind(call, callee).items() if v == err]
    except AnalysisError:
      return "maybe"
    return _moves_param(mod, "Director", callee, ps[0], writers) if len(ps) == 1 else "maybe"
  f = _LineKeyFlow(fn, err, writers, effect)

  def table_tests(expr):
    return [n for n in ast.walk(expr) if isinstance(n, ast.Compare) and len(n.ops) == 1
            and isinstance(n.ops[0], (ast.In, ast.NotIn)) and dotted(
                n.comparators[0].value if isinstance(n.comparators[0], ast.Subscript) else n.comparators[0]) in tables]

  def consults(callee, depth=0):
    """Does the method (or a method of the Director it calls) read one of the tables?"""
    return bool(flow.attrs_in(callee) & tables) or (depth < 3 and any(
        consults(ms[c.func.attr], depth + 1) for c in calls_in(callee) if own_method(c) is not None))
  tests = []   # (test, statement of filter_error it is evaluated in)
  for n in walk_no_nested(fn):
    if isinstance(n, ast.Compare):
      tests += [(t, mod.enclosing_stmt(n)) for t in table_tests(n) if t is n]
    elif isinstance(n, ast.Call) and own_method(n) is not None and consults(own_method(n)):
      # a single-expression helper is judged on its value, with the caller's arguments in place of its parameters
      inl = _inline_self_calls(mod, "Director", n)
      if isinstance(inl, ast.Call) and own_method(inl) is not None or any(
          own_method(c) is not None and consults(own_method(c)) for c in calls_in(inl)):
        raise AnalysisError(f"filter_error: {n.func.attr} consults the disable tables in a way that is not understood")
      tests += [(t, mod.enclosing_stmt(n)) for t in table_tests(inl)]
  if not tests:
    raise AnalysisError("filter_error: no membership test on the disable tables found")
  movers = sorted({src(c) for c in calls_in(fn) if isinstance(c.func, ast.Attribute)
                   and (dotted(c.func.value) == err and c.func.attr in writers
                        or own_method(c) is not None and effect(c) == "sure")})
  for t, stmt in tests:
    st = f.before.get(stmt)
    if st is None:
      continue   # unreachable
    status = f.status(t.left, st)
    key, table = src(t.left), src(t.comparators[0])
    facts = {"key": key, "status": sorted(status), "moves": movers, "line_writers": writers}
    if "stale" in status:
      ctx.bad(f"Director.filter_error:key@{table}", DIR, t.lineno,
              f"`{key}` may hold error.line as read before {movers} moved the error: the test on {table} "
              "looks up the pre-adjustment line, so a directive on the reported line is not consulted", facts)
      continue
    if status & {"unsure", "odd"} or not status:
      raise AnalysisError(f"filter_error: cannot decide where the key `{key}` of the test on {table} comes "
                          f"from (status {sorted(status)})")
    ctx.ok(f"Director.filter_error:key@{table}", DIR, t.lineno, facts)


# -- R3.10: tokenizer side - every directive of every comment token reaches the raw comments ---------

def _literals(test, pol, resolve, out):
  """Atomic facts (text, polarity) that certainly hold when `test` evaluates to `pol`."""
  while isinstance(test, ast.UnaryOp) and isinstance(test.op, ast.Not):
    test, pol = test.operand, not pol
  if isinstance(test, ast.BoolOp):
    if isinstance(test.op, ast.And) == pol:   # true conjunction / false disjunction: every operand is known
      for v in test.values:
        _literals(v, pol, resolve, out)
    return out
  if isinstance(test, ast.Compare) and len(test.ops) == 1 and isinstance(test.ops[0], (ast.Eq, ast.NotEq)):
    a, b = test.left, test.comparators[0]
    if isinstance(a, ast.Constant):
      a, b = b, a
    out.add((f"{resolve(a)} == {resolve(b)}", pol == isinstance(test.ops[0], ast.Eq)))
    return out
  out.add((resolve(test), pol))
  return out


def _path_literals(events, resolve):
  out = set()
  for ev in events:
    if ev[0] == "cond":
      _literals(ev[1], ev[2], resolve, out)
  return out


def _dc_fields(mod, name):
  return [st.target.id for st in mod.cls(name).body if isinstance(st, ast.AnnAssign) and isinstance(st.target, ast.Name)]


def _bind_fields(mod, call, cls):
  fields = _dc_fields(mod, cls)
  if any(isinstance(a, ast.Starred) for a in call.args) or len(call.args) > len(fields) \
      or any(k.arg is None for k in call.keywords):
    raise AnalysisError(f"cannot bind {src(call)[:60]} to the fields of {cls}")
  return {**dict(zip(fields, call.args)), **{k.arg: k.value for k in call.keywords}}


def _delegate(mod, fn):
  """(g, {parameter of fn: parameter of g}) when fn does nothing but hand its parameters on to the module-level
  function g and return what g produces: directly, wrapped in tuple()/list(), by `yield from`, or through a
  memo of a long-lived container (whether the memo's key is complete is R3.22's question, not R3.10's)."""
  from rules import c03_memo_keys as mk
  calls = [c for c in calls_in(fn) if dotted(c.func) in mod.functions and mod.functions[dotted(c.func)] is not fn]
  if len(calls) != 1 or any(isinstance(n, (ast.For, ast.While, ast.Yield, ast.Try, ast.With)) for n in walk_no_nested(fn)):
    return None
  c, g = calls[0], mod.functions[dotted(calls[0].func)]
  names = [a.arg for a in g.args.posonlyargs + g.args.args]
  if any(isinstance(a, ast.Starred) for a in c.args) or any(k.arg is None for k in c.keywords) \
      or len(c.args) > len(names) or g.args.vararg or g.args.kwarg:
    return None
  bound = {**dict(zip(names, c.args)), **{k.arg: k.value for k in c.keywords}}
  if not all(isinstance(v, ast.Name) for v in bound.values()) or sorted(v.id for v in bound.values()) != sorted(
      _params(fn)) or set(bound) != set(names) or set(_params(fn)) & _stored(fn):
    return None
  ren = {v.id: k for k, v in bound.items()}

  def produced(e):
    return e is c or (isinstance(e, ast.Call) and dotted(e.func) in ("tuple", "list", "iter") and e.args == [c]
                      and not e.keywords)
  memos = mk.memo_sites(mod, fn, None)
  lookups = {id(n) for m in memos.values() for n, _ in m["reads"]}
  held = {}   # local -> values assigned to it
  for n in walk_no_nested(fn):
    if isinstance(n, ast.Assign):
      for t in n.targets:
        if isinstance(t, ast.Name):
          held.setdefault(t.id, []).append(n.value)
  ok_local = {k for k, vs in held.items() if any(produced(v) for v in vs)
              and all(produced(v) or id(v) in lookups for v in vs)}
  outs = [r.value for r in _returns(fn)] + [n.value for n in walk_no_nested(fn) if isinstance(n, ast.YieldFrom)]
  if not outs or not all(o is not None and (produced(o) or id(o) in lookups or dotted(o) in ok_local) for o in outs):
    return None
  if not any(produced(o) or dotted(o) in ok_local for o in outs):
    return None
  return g, ren


_STANDALONE_OK = ("not {L}[:{C}].strip()", "not {L}[:{C}].lstrip()", "not {L}[:{C}].rstrip()",
                  "{L}[:{C}].strip() == ''", "not {L}[:{C}] or {L}[:{C}].isspace()",
                  "{L}[:{C}].isspace() or not {L}[:{C}]", "{C} == 0 or {L}[:{C}].isspace()",
                  "not {L}[0:{C}].strip()", "len({L}[:{C}].strip()) == 0")
_STANDALONE_WRONG = ("True", "False", "{L}[:{C}].strip()", "bool({L}[:{C}].strip())", "{L}[:{C}].strip() != ''",
                     "{C} == 0", "not {C}", "not {L}[{C}:].strip()", "not {L}.strip()", "{L}[:{C}].isspace()")


@rule("R3.10", "C03", floor=9)
def r3_10(ctx):
  """Every directive of every comment token reaches raw_structured_comments.

  parser._process_comments must hand every COMMENT token to _process_comment under the token's own line;
  _process_comment must yield one _StructuredComment per _DIRECTIVE_RE match of the comment text, with
  open_ended meaning 'nothing but blanks before the comment'.  A match may only be discarded when it is a
  `type:` comment inside a stand-alone (open-ended) comment: a trailing directive (the one C03 appends to
  the reported line) and every `pytype:` directive must always come out.
  """
  mod = get_module(ctx, PAR)
  # --- _process_comments: every comment token, keyed by its own line
  pcs = mod.func("_process_comments")
  calls = calls_in(pcs, name="_process_comment")
  loops = [n for n in walk_no_nested(pcs) if isinstance(n, ast.For)]
  if len(loops) != 1 or len(calls) != 1 or dotted(getattr(loops[0].iter, "func", None)) not in (
      "tokenize.generate_tokens", "tokenize.tokenize") or not isinstance(loops[0].target, ast.Name):
    raise AnalysisError("_process_comments: one token loop with one _process_comment call expected")
  loop, call, tokv = loops[0], calls[0], loops[0].target.id
  callee = mod.func("_process_comment")

  def tok_resolve(node):
    """Expression in terms of the token: locals bound once inside the loop are inlined."""
    if isinstance(node, ast.Name):
      for n in walk_no_nested(loop):
        if isinstance(n, ast.Assign) and len(n.targets) == 1:
          t = n.targets[0]
          if isinstance(t, ast.Name) and t.id == node.id:
            return src(n.value)
          if isinstance(t, ast.Tuple) and any(dotted(e) == node.id for e in t.elts):
            i = [dotted(e) for e in t.elts].index(node.id)
            if isinstance(n.value, ast.Tuple) and len(n.value.elts) == len(t.elts):
              return src(n.value.elts[i])
            return f"{src(n.value)}[{i}]"
    return src(node)
  names = [a.arg for a in callee.args.posonlyargs + callee.args.args]
  if any(isinstance(a, ast.Starred) for a in call.args) or len(call.args) > len(names):
    raise AnalysisError("_process_comment call has an unknown argument shape")
  bound = {**dict(zip(names, call.args)), **{k.arg: k.value for k in call.keywords}}
  roles = {tok_resolve(v): k for k, v in bound.items()}
  want = {f"{tokv}.line", f"{tokv}.start[0]", f"{tokv}.start[1]"}
  class _Inline(ast.NodeTransformer):
    def visit_Name(self, node):
      return ast.parse(tok_resolve(node), mode="eval").body
  g = []
  for t, p in flow.guards(mod.parent, mod.enclosing_stmt(call)):
    # a true conjunction / false disjunction is split into its operands
    g += sorted(_literals(t, p, lambda n: src(_Inline().visit(ast.parse(src(n), mode="eval").body)), set()))
  is_comment = [x for x in g if x[1] and x[0] in (
      f"{tokv}.exact_type == tokenize.COMMENT", f"{tokv}.type == tokenize.COMMENT",
      f"tokenize.COMMENT == {tokv}.exact_type", f"tokenize.COMMENT == {tokv}.type")]
  extra = [x for x in g if x not in is_comment]
  if not is_comment and any("COMMENT" in t for t, _ in g):
    raise AnalysisError(f"_process_comments: comment-token test has an unknown shape: {g}")
  if extra and not all(flow.names_in(ast.parse(t, mode="eval")) <= {tokv, "tokenize"} | set(bound) | {
      dotted(v) for v in bound.values()} for t, _ in extra):
    raise AnalysisError(f"_process_comments: extra guard(s) {extra} around _process_comment are not understood")
  ctx.check(bool(is_comment) and not extra and set(roles) == want, "_process_comments:every-comment-token", PAR,
            call.lineno, f"_process_comment({ {k: tok_resolve(v) for k, v in bound.items()} }) runs under {g}: every "
            "COMMENT token must be processed, with its physical line text, row and column",
            {"guards": g, "args": {k: tok_resolve(v) for k, v in bound.items()}})
  if set(roles) != want:
    return
  L, ROW, C = roles[f"{tokv}.line"], roles[f"{tokv}.start[0]"], roles[f"{tokv}.start[1]"]
  # the result is filed under the token's line in the mapping that is returned
  par = mod.parent[call]
  sink = key = None
  if isinstance(par, ast.Call) and isinstance(par.func, ast.Attribute) and par.func.attr == "extend" \
      and isinstance(par.func.value, ast.Subscript) and par.args == [call]:
    sink, key = par.func.value.value, par.func.value.slice
  elif isinstance(par, ast.Call) and dotted(par.func) == "list" and isinstance(mod.parent[par], ast.Assign) \
      and isinstance(mod.parent[par].targets[0], ast.Subscript):
    sink, key = mod.parent[par].targets[0].value, mod.parent[par].targets[0].slice
  elif isinstance(par, ast.AugAssign) and isinstance(par.op, ast.Add) and isinstance(par.target, ast.Subscript):
    sink, key = par.target.value, par.target.slice
  if sink is None:
    raise AnalysisError("_process_comments: what happens to _process_comment's result is not understood")
  rets = [src(r.value) for r in _returns(pcs) if r.value is not None]
  ctx.check(tok_resolve(key) == f"{tokv}.start[0]" and rets == [src(sink)] and _single_def(pcs, src(sink)) is not None
            and src(_single_def(pcs, src(sink))) == "collections.defaultdict(list)",
            "_process_comments:collects-by-line", PAR, par.lineno,
            f"directives are filed under {src(sink)}[{tok_resolve(key)}] and {rets} is returned: they must be "
            f"added to the returned defaultdict(list) under the comment's own line {tokv}.start[0]",
            {"sink": src(sink), "key": tok_resolve(key), "returns": rets})
  # --- _process_comment
  fn = callee
  if not any(isinstance(s, ast.For) for s in fn.body):
    # a wrapper that only hands its arguments on (possibly through a memo, whose key R3.22 judges)
    d = _delegate(mod, fn)
    if d is not None:
      fn, ren = d
      L, ROW, C = ren[L], ren[ROW], ren[C]
  floops = [s for s in fn.body if isinstance(s, ast.For)]
  if len(floops) != 1 or any(isinstance(n, (ast.For, ast.While)) for s in floops[0].body for n in ast.walk(s)):
    raise AnalysisError("_process_comment: one flat loop over the directive matches expected")
  mloop = floops[0]
  pre = fn.body[:fn.body.index(mloop)]

  # locals bound once before the loop (plain or element-wise tuple assignment) and not rebound in it are inlined
  cand = {}
  for n in pre:
    if isinstance(n, ast.Assign) and len(n.targets) == 1:
      t, v = n.targets[0], n.value
      if isinstance(t, ast.Name):
        cand.setdefault(t.id, []).append(v)
      elif isinstance(t, ast.Tuple) and isinstance(v, ast.Tuple) and len(t.elts) == len(v.elts) \
          and all(isinstance(e, ast.Name) for e in t.elts):
        # the right-hand sides are evaluated before any element is bound
        if {e.id for e in t.elts} & flow.names_in(v):
          raise AnalysisError(f"_process_comment: `{src(n)}` rebinds names it reads")
        for e, x in zip(t.elts, v.elts):
          cand.setdefault(e.id, []).append(x)
  rebound = {x for st in fn.body if st not in pre or not isinstance(st, ast.Assign) for x in _stored(st)}
  env = {k: v[0] for k, v in cand.items() if len(v) == 1 and k not in _params(fn) and k not in rebound
         and sum(1 for st in pre if k in _stored(st)) == 1}

  def resolve(node):
    for _ in range(6):
      if not flow.names_in(node) & set(env):
        break
      node = _subst(node, env)
    return src(node)
  # (a) the loop visits every match of _DIRECTIVE_RE in the comment text
  it, part = mloop.iter, None
  if isinstance(it, ast.Subscript) and isinstance(it.slice, ast.Slice):
    try:
      b = [None if x is None else fold(x) for x in (it.slice.lower, it.slice.upper, it.slice.step)]
    except Unfoldable as e:
      raise AnalysisError(f"_process_comment: loop over {src(it)} not understood") from e
    part = None if (b[0] in (None, 0) and b[1] is None and b[2] in (None, 1)) else src(it)
    it = it.value
  seq = resolve(it)
  whole = f"_DIRECTIVE_RE.finditer({L}[{C}:])"
  if seq not in (whole, f"list({whole})", f"tuple({whole})"):
    raise AnalysisError(f"_process_comment: the loop iterates {seq}, not the matches of _DIRECTIVE_RE in {L}[{C}:]")
  if not isinstance(mloop.target, ast.Name) or mloop.orelse:
    raise AnalysisError("_process_comment: loop target / else clause not understood")
  mv = mloop.target.id
  # "there is no match at all": the materialised match list is empty, or search() (first match anywhere in the
  # text; match()/fullmatch() only look at its start) finds nothing
  first = f"_DIRECTIVE_RE.search({L}[{C}:])"
  no_match = [{(seq, False)}, {(f"len({seq}) == 0", True)}, {(first, False)}, {(f"{first} is None", True)},
              {(f"{first} is not None", False)}] if seq != whole else [
                  {(first, False)}, {(f"{first} is None", True)}, {(f"{first} is not None", False)}]
  early = []
  for ev, how in _paths(pre):
    if how == "fall":
      continue
    lits = _path_literals(ev, resolve)
    if how == "return" and lits in no_match:
      if (src(ev[-1][1].value) if ev[-1][1].value is not None else "None") not in ("None", "[]", "()", "list()"):
        raise AnalysisError(f"_process_comment: `{src(ev[-1][1])}` for a comment without directives not understood")
      continue
    if how == "return" and lits and all(flow.names_in(ast.parse(t.split(" == ")[0], mode="eval")) <= set(_params(fn))
                                        | {n for s in pre for n in _stored(s)} | {"_DIRECTIVE_RE"} for t, _ in lits):
      early.append(sorted(lits))
    else:
      raise AnalysisError(f"_process_comment: exit before the match loop under {sorted(lits)} not understood")
  ctx.check(part is None and not early, "_process_comment:all-matches", PAR, mloop.lineno,
            (f"only {part} of the matches are visited; " if part else "") +
            (f"the comment is dropped as a whole under {early}; " if early else "") +
            "every directive of the comment must be visited", {"iterates": seq, "part": part, "early_exits": early})
  # (b) what is produced: `yield _StructuredComment(..)` (generator), or `<acc>.append(_StructuredComment(..))`
  # on a list that starts empty, is touched nowhere else and is what the function returns after the loop
  yields = [n for n in walk_no_nested(fn) if isinstance(n, (ast.Yield, ast.YieldFrom))]
  ys = [n for n in walk_no_nested(mloop) if isinstance(n, ast.Yield)]
  post = fn.body[fn.body.index(mloop) + 1:]
  if yields:
    if len(ys) != 1 or len(yields) != 1 or not (isinstance(ys[0].value, ast.Call)
                                                and dotted(ys[0].value.func) == "_StructuredComment"):
      raise AnalysisError("_process_comment: exactly one `yield _StructuredComment(..)` expected in the loop")
    emit, made = ys[0], ys[0].value
  else:
    apps = [c for c in calls_in(mloop) if isinstance(c.func, ast.Attribute) and c.func.attr == "append"
            and isinstance(c.func.value, ast.Name) and len(c.args) == 1 and isinstance(c.args[0], ast.Call)
            and dotted(c.args[0].func) == "_StructuredComment"]
    if len(apps) != 1 or not isinstance(mod.parent[apps[0]], ast.Expr):
      raise AnalysisError("_process_comment: exactly one `yield _StructuredComment(..)` or "
                          "`<list>.append(_StructuredComment(..))` expected in the loop")
    emit, made, acc = mod.parent[apps[0]], apps[0].args[0], apps[0].func.value.id
    uses = [n for n in ast.walk(fn) if isinstance(n, ast.Name) and n.id == acc]
    init = [n for n in pre if isinstance(n, ast.Assign) and len(n.targets) == 1 and dotted(n.targets[0]) == acc]
    handed_back = [r.value for r in _returns(fn) if r.value is not None and dotted(r.value) == acc]
    if not (len(uses) == 2 + len(handed_back) and len(init) == 1 and src(init[0].value) in ("[]", "list()")
            and acc not in _params(fn) and len(post) == 1 and isinstance(post[0], ast.Return)
            and dotted(post[0].value) == acc):
      raise AnalysisError(f"_process_comment: `{acc}` is not a fresh list that is only appended to in the loop "
                          "and returned after it")
  ys = [emit]
  fields = _bind_fields(mod, made, "_StructuredComment")
  if set(fields) != {"line", "tool", "data", "open_ended"}:
    raise AnalysisError(f"_StructuredComment fields {sorted(fields)} not understood")
  grp = {}   # local -> regex group number
  for n in walk_no_nested(mloop):
    if isinstance(n, ast.Assign) and len(n.targets) == 1:
      t, v = n.targets[0], n.value
      if isinstance(t, ast.Tuple) and src(v) == f"{mv}.groups()":
        grp.update({dotted(e): i + 1 for i, e in enumerate(t.elts)})
      elif isinstance(t, ast.Name) and isinstance(v, ast.Call) and dotted(v.func) == f"{mv}.group" and len(v.args) == 1:
        grp[t.id] = fold(v.args[0])
  tool_v, data_v = dotted(fields["tool"]), dotted(fields["data"])
  if tool_v not in grp or data_v not in grp:
    raise AnalysisError(f"_process_comment: tool/data fields {src(fields['tool'])}, {src(fields['data'])} are not "
                        f"bound from {mv}.groups()")
  got = {"line": src(fields["line"]), "tool": f"group {grp[tool_v]}", "data": f"group {grp[data_v]}",
         "open_ended": resolve(fields["open_ended"])}
  ctx.check(got["line"] == ROW and grp[tool_v] == 1 and grp[data_v] == 2, "_process_comment:yield-fields", PAR,
            ys[0].lineno, f"yields _StructuredComment with {got}; expected line={ROW}, tool=group 1, data=group 2",
            got)
  oe = got["open_ended"]
  ok_forms = [x.format(L=L, C=C) for x in _STANDALONE_OK]
  bad_forms = [x.format(L=L, C=C) for x in _STANDALONE_WRONG]
  if oe not in ok_forms + bad_forms:
    raise AnalysisError(f"_process_comment: open_ended is `{oe}`, an unknown spelling of 'only blanks before the comment'")
  ctx.check(oe in ok_forms, "_process_comment:open_ended-definition", PAR, ys[0].lineno,
            f"open_ended is `{oe}`: it must be true exactly when nothing but blanks precedes the comment on "
            "its line (stand-alone comment)", {"open_ended": oe})
  # (c) paths through the loop body: yield, abort the file, or discard a nested type comment of a
  #     stand-alone comment
  lost, cut, n_paths = [], [], 0
  for ev, how in _paths(mloop.body):
    n_paths += 1
    lits = _path_literals(ev, resolve)
    if how == "raise":
      if not {(f"{tool_v} == 'pytype'", True), (f"{data_v} == 'skip-file'", True)} <= lits:
        raise AnalysisError(f"_process_comment: raise under {sorted(lits)} not understood")
      continue
    if how in ("return", "break"):
      cut.append((how, sorted(lits)))
    if any(ys[0] in ast.walk(e[1]) for e in ev if e[0] == "stmt"):
      continue
    if not {(oe, True), (f"{tool_v} == 'type'", True)} <= lits:
      lost.append(sorted(lits))
  ctx.check(not lost, "_process_comment:discards", PAR, mloop.lineno,
            f"a directive is discarded under {lost[:2]}: only a `type:` comment inside a stand-alone (open-ended) "
            "comment may be dropped; a trailing directive and every `pytype:` directive must be yielded",
            {"paths": n_paths, "discarding": lost})
  ctx.check(not cut, "_process_comment:later-matches", PAR, mloop.lineno,
            f"the loop is left by {cut[:2]}: the remaining directives of the comment are lost", {"exits": cut})
  # --- wiring: parse_src -> _SourceTree.structured_comments -> _ParseVisitor(raw_structured_comments)
  ps = mod.func("parse_src")
  trees = [c for r in _returns(ps) for c in calls_in(r, name="_SourceTree")]
  if len(trees) != 1:
    raise AnalysisError("parse_src: `return _SourceTree(..)` not found")
  sc = _bind_fields(mod, trees[0], "_SourceTree").get("structured_comments")
  vst = mod.func("visit_src_tree")
  pv = calls_in(vst, name="_ParseVisitor")
  if len(pv) != 1 or len(pv[0].args) != 1:
    raise AnalysisError("visit_src_tree: `_ParseVisitor(<comments>)` not found")
  got = (src(sc) if sc is not None else None, src(pv[0].args[0]))
  ctx.check(got == (f"_process_comments({_params(ps)[0]})", f"{_params(vst)[0]}.structured_comments"),
            "parse_src:raw-comments-wiring", PAR, ps.lineno,
            f"_SourceTree.structured_comments={got[0]}, _ParseVisitor({got[1]}): the visitor must receive "
            "_process_comments of the parsed source", {"structured_comments": got[0], "visitor_arg": got[1]})
  # vm.run_program: the director reads the text that is compiled (same line numbers)
  vm = get_module(ctx, VM)
  run = vm.func("VirtualMachine.run_program")
  a = [c for c in calls_in(run) if (dotted(c.func) or "").endswith(".parse_src")]
  b = calls_in(run, name="self.compile_src")
  if len(a) != 1 or len(b) != 1 or not a[0].args or not b[0].args:
    raise AnalysisError("run_program: parse_src / compile_src calls not found")
  sa_, sb = vm.enclosing_stmt(a[0]), vm.enclosing_stmt(b[0])
  same = dotted(a[0].args[0]) is not None and dotted(a[0].args[0]) == dotted(b[0].args[0])
  if same and not (sa_ in run.body and sb in run.body):
    raise AnalysisError("run_program: parse_src / compile_src are not top-level statements")
  between = []
  if same:
    i, j = sorted((run.body.index(sa_), run.body.index(sb)))
    between = [src(s)[:50] for s in run.body[i:j + 1][1:] if dotted(a[0].args[0]) in _stored(s)]
  ctx.check(same and not between, "VirtualMachine.run_program:director-reads-compiled-text", VM, a[0].lineno,
            f"parse_src({src(a[0].args[0])}) vs compile_src({src(b[0].args[0])}), rebinding between them: {between}; "
            "the directives must be read from the text whose line numbers the bytecode carries",
            {"parse_src": src(a[0].args[0]), "compile_src": src(b[0].args[0])})


def _v(name, rid, file, old, new, expect="fire"):
  return {"name": name, "rule": rid, "file": file, "old": old, "new": new, "expect": expect}


def _vs(name, rid, expect, *edits):
  return {"name": name, "rule": rid, "expect": expect, "edits": list(edits)}


def _p(name, rid, patch, expect="fire"):
  return {"name": name, "rule": rid, "patch": patch, "expect": expect}


_FILT = "if self._filter is None or self._filter(error):"
_INSTALL = "    self.ctx.errorlog.set_error_filter(director.filter_error)\n"
_SEED = "(LineRange(lineno, lineno), list(structured_comments))"
_EXT = "      new_group.extend(self.structured_comment_groups[k])\n"
VARIANTS = [
    _v("disable-own-line-dropped", "R3.1", DIR, "            lines.set_line(line, disable)\n", "            pass\n"),
    _v("ignore-own-line-dropped", "R3.1", DIR, "        self._ignore.set_line(line, True)\n", ""),
    _v("own-line-guard-inverted", "R3.1", DIR, "if final_line != line:", "if final_line == line:"),
    _v("open-ended-arms-swapped", "R3.1", DIR, "        if open_ended:\n          lines.start_range",
       "        if not open_ended:\n          lines.start_range"),
    _v("registration-depends-on-position", "R3.1", DIR, "        if not keep(error_name):",
       "        if not keep(error_name) or line == line_range.end_line:"),
    _v("filter-bypassed-for-one-class", "R3.2", ERR, _FILT,
       "if self._filter is None or error.name == 'pyi-error' or self._filter(error):"),
    _v("extra-append-in-error", "R3.2", ERR, "    self._add(err)\n", "    self._errors.append(err)\n"),
    _v("warn-drops-error", "R3.2", ERR, "    self._add(\n        Error.with_stack(stack, SEVERITY_WARNING,",
       "    _log.info(\n        Error.with_stack(stack, SEVERITY_WARNING,"),
    _v("revert-keeps-an-error", "R3.2", ERR, "self._errorlog_errors[: self._position]\n",
       "self._errorlog_errors[: self._position] + self.errors[:1]\n"),
    _v("filter-reset-elsewhere", "R3.2", ERR, "    checkpoint = CheckPoint(self._errors)\n",
       "    checkpoint = CheckPoint(self._errors)\n    self._filter = None\n"),
    _v("filter-never-installed", "R3.2", VM, _INSTALL, ""),
    _vs("filter-installed-after-run", "R3.2", "fire", (VM, _INSTALL, ""),
        (VM, "    logging.info(\"Done running bytecode, postprocessing globals\")\n", _INSTALL)),
    _v("director-gets-other-filename", "R3.2", VM, "src_tree, self.ctx.errorlog, filename, self.ctx.options.disable",
       "src_tree, self.ctx.errorlog, src, self.ctx.options.disable"),
    _v("wildcard-disable-not-consulted", "R3.3", DIR, "        and line not in self._disables[_ALL_ERRORS]\n", ""),
    _v("ignore-tested-on-unadjusted-line", "R3.3", DIR, "        line not in self._ignore",
       "        error.line not in self._ignore"),
    _v("early-exit-for-one-class", "R3.3", DIR, "    # Treat line=0 as below the file, so we can filter it.\n",
       "    if error.name == 'name-error':\n      return True\n"),
    _v("disables-use-plain-sets", "R3.3", DIR, "self._disables = collections.defaultdict(_LineSet)",
       "self._disables = collections.defaultdict(set)"),
    _v("per-line-entry-only-when-true", "R3.4", DIR, "if specific is not None:", "if specific:"),
    _vs("range-consulted-first", "R3.4", "fire",
        (DIR, "    specific = self._lines.get(line)\n    if specific is not None:\n      return specific\n", ""),
        (DIR, "    return (pos % 2) == 1\n", "    if (pos % 2) == 1:\n      return True\n    specific = self._lines"
         ".get(line)\n    if specific is not None:\n      return specific\n    return False\n")),
    _v("range-parity-inverted", "R3.4", DIR, "return (pos % 2) == 1", "return (pos % 2) == 0"),
    _v("set_line-ignores-polarity", "R3.4", DIR, "self._lines[line] = membership", "self._lines[line] = True"),
    _v("seed-skips-open-ended", "R3.5", PAR, "in raw_structured_comments.items()\n    )",
       "in raw_structured_comments.items()\n        if not structured_comments[0].open_ended\n    )"),
    _v("seed-as-call-range", "R3.5", PAR, _SEED, "(Call(lineno, lineno), list(structured_comments))"),
    _v("merge-drops-absorbed-group", "R3.5", PAR, _EXT, ""),
    _v("merge-pops-absorbed-group-unkept", "R3.5", PAR,
       _EXT + "      del self.structured_comment_groups[k]\n",
       "      self.structured_comment_groups.pop(k)\n"),
    # the order half of this patch is C15's R15.23; R3.5 must read the pop() idiom, not give up
    {"name": "twin-seeded-C15-r2m2-pop-idiom", "rule": "R3.5", "patch": "seeded/C15-r2m2/patch.diff",
     "expect": "silent"},
    _v("twin-merge-extend-pop", "R3.5", PAR, _EXT + "      del self.structured_comment_groups[k]\n",
       "      new_group.extend(\n          self.structured_comment_groups.pop(k))\n", "silent"),
    _v("moved-groups-deleted", "R3.5", PAR, "      self.structured_comment_groups.move_to_end(k)\n",
       "      del self.structured_comment_groups[k]\n"),
    _v("base-range-skipped", "R3.5", DIR, "      else:\n        return True\n\n    if not values:",
       "      else:\n        return error_name in _ALL_ADJUSTABLE_ERRORS\n\n    if not values:"),
    _v("type-comment-fields-swapped", "R3.5", DIR,
       "self._process_type(\n              comment.line, comment.data, comment.open_ended, line_range",
       "self._process_type(\n              comment.line, comment.data, line_range, comment.open_ended"),
    _v("open-ended-pytype-not-dispatched", "R3.5", DIR, "          assert comment.tool == \"pytype\"\n",
       "          assert comment.tool == \"pytype\"\n          if comment.open_ended:\n            continue\n"),
    _v("tool-group-loses-type", "R3.6", PAR, "(pytype|type)", "(pytype)"),
    _v("tool-requires-space-before-colon", "R3.6", PAR, r"(pytype|type)\s*:", r"(pytype|type)\s+:"),
    _v("ignore-not-anchored-at-end", "R3.6", PAR, r'r"^ignore(\[.+\])?$"', r'r"^ignore(\[.+\])?"'),
    _v("enable-wired-to-disable", "R3.6", DIR, "values, disable=False", "values, disable=True"),
    _v("extra-line-registered", "R3.7", DIR, "          lines.set_line(final_line, disable)\n",
       "          lines.set_line(final_line, disable)\n          lines.set_line(line_range.end_line, disable)\n"),
    _v("ignore-also-disables-wildcard", "R3.7", DIR, "        self._ignore.set_line(final_line, True)\n",
       "        self._ignore.set_line(final_line, True)\n        self._disables[_ALL_ERRORS].set_line(line, True)\n"),
    _v("adjusted-to-range-end", "R3.7", DIR, "    return line_range.start_line\n", "    return line_range.end_line\n"),
    _v("trailing-ignore-starts-range", "R3.7", DIR, "        self._ignore.set_line(line, True)\n",
       "        self._ignore.set_line(line, True)\n        self._ignore.start_range(line, True)\n"),
    # benign twins
    _vs("twin-rename-lines-local", "R3.1", "silent",
        (DIR, "lines = self._disables[error_name]", "lineset = self._disables[error_name]"),
        (DIR, "lines.start_range(line, disable)", "lineset.start_range(line, disable)"),
        (DIR, "lines.set_line(line, disable)", "lineset.set_line(line=line, membership=disable)"),
        (DIR, "lines.set_line(final_line, disable)", "lineset.set_line(final_line, disable)")),
    _vs("twin-rename-final_line", "R3.7", "silent",
        (DIR, "    final_line = line_range.start_line\n", "    first = line_range.start_line\n"),
        (DIR, "self._ignore.set_line(final_line, True)", "self._ignore.set_line(first, True)"),
        (DIR, "if final_line in self._variable_annotations", "if first in self._variable_annotations"),
        (DIR, "add_type_comment(final_line, data)", "add_type_comment(first, data)")),
    _v("twin-own-line-test-flipped", "R3.1", DIR, "          if final_line != line:\n",
       "          if not line == final_line:\n", "silent"),
    _v("twin-filter-truthiness", "R3.2", ERR, _FILT, "if not self._filter or self._filter(error):", "silent"),
    _v("twin-de-morgan", "R3.3", DIR,
       "    return (\n        line not in self._ignore\n        and line not in self._disables[_ALL_ERRORS]\n"
       "        and line not in self._disables[error.name]\n    )",
       "    return not (\n        line in self._disables[error.name]\n        or line in self._ignore\n"
       "        or line in self._disables[_ALL_ERRORS]\n    )", "silent"),
    _v("twin-is-none-else", "R3.4", DIR, "    if specific is not None:\n      return specific\n",
       "    if specific is None:\n      pass\n    else:\n      return specific\n", "silent"),
    _v("twin-seed-dict-comprehension", "R3.5", PAR, "collections.OrderedDict(\n        " + _SEED + "\n"
       "        for lineno, structured_comments in raw_structured_comments.items()\n    )",
       "collections.OrderedDict({\n        LineRange(n, n): list(cs)\n"
       "        for n, cs in raw_structured_comments.items()\n    })", "silent"),
    _v("twin-alternation-reordered", "R3.6", PAR, "(pytype|type)", "(type|pytype)", "silent"),
    _v("twin-optional-prefix", "R3.6", PAR, "(pytype|type)", "((?:py)?type)", "silent"),
    _v("twin-ignore-start-anchor-redundant", "R3.6", PAR, r'r"^ignore(\[.+\])?$"', r'r"ignore(\[.+\])?$"', "silent"),
    # R3.9: the key of the disable tests is the reported line
    {"name": "seeded-C03-m1", "rule": "R3.9", "patch": "seeded/C03-m1/patch.diff", "expect": "fire"},
    _v("second-adjustment-after-key", "R3.9", DIR, "    line = error.line or sys.maxsize\n",
       "    line = error.line or sys.maxsize\n    if line in self._decorated_functions:\n"
       "      error.set_line(self._decorated_functions[line])\n"),
    _vs("stale-through-intermediate-local", "R3.9", "fire",
        (DIR, "    if (\n        error.name == \"bad-return-type\"", "    raw = error.line\n    if (\n        error.name == \"bad-return-type\""),
        (DIR, "line = error.line or sys.maxsize", "line = raw or sys.maxsize")),
    _vs("twin-rename-line-key", "R3.9", "silent",
        (DIR, "    line = error.line or sys.maxsize", "    key = error.line or sys.maxsize"),
        (DIR, "        line not in self._ignore", "        key not in self._ignore"),
        (DIR, "        and line not in self._disables[_ALL_ERRORS]", "        and key not in self._disables[_ALL_ERRORS]"),
        (DIR, "        and line not in self._disables[error.name]", "        and key not in self._disables[error.name]")),
    _vs("twin-pre-adjustment-line-cached-for-lookup", "R3.9", "silent",
        (DIR, "    if (\n        error.name == \"bad-return-type\"", "    orig = error.line\n    if (\n        error.name == \"bad-return-type\""),
        (DIR, "        and error.line not in self.return_lines", "        and orig not in self.return_lines"),
        (DIR, "find_outermost(error.line)", "find_outermost(orig)")),
    _vs("twin-line-key-written-out-in-the-tests", "R3.9", "silent",
        (DIR, "    line = error.line or sys.maxsize\n", ""),
        (DIR, "        line not in self._ignore", "        (error.line or sys.maxsize) not in self._ignore"),
        (DIR, "        and line not in self._disables[_ALL_ERRORS]",
         "        and (error.line or sys.maxsize) not in self._disables[_ALL_ERRORS]"),
        (DIR, "        and line not in self._disables[error.name]",
         "        and (error.line or sys.maxsize) not in self._disables[error.name]")),
    # R3.10: tokenizer side
    {"name": "seeded-C03-m2", "rule": "R3.10", "patch": "seeded/C03-m2/patch.diff", "expect": "fire"},
    _v("only-first-directive-of-a-comment", "R3.10", PAR, "  for m in matches:\n", "  for m in matches[:1]:\n"),
    _v("nested-type-comment-ends-the-comment", "R3.10", PAR,
       "      # Discard type comments embedded in larger whole-line comments.\n      continue\n",
       "      # Discard type comments embedded in larger whole-line comments.\n      return\n"),
    _v("any-nested-directive-of-stand-alone-comment-dropped", "R3.10", PAR,
       "if tool == \"type\" and open_ended and is_nested:", "if open_ended and is_nested:"),
    _v("indented-comments-not-processed", "R3.10", PAR, "if tok == tokenize.COMMENT:",
       "if tok == tokenize.COMMENT and col == 0:"),
    _v("directives-filed-under-the-column", "R3.10", PAR, "structured_comments[lineno].extend(",
       "structured_comments[col].extend("),
    _v("stand-alone-means-column-zero", "R3.10", PAR, "open_ended = not line[:col].strip()", "open_ended = col == 0"),
    _v("tool-and-data-swapped", "R3.10", PAR, "yield _StructuredComment(lineno, tool, data, open_ended)",
       "yield _StructuredComment(lineno, data, tool, open_ended)"),
    _vs("director-reads-unaugmented-source", "R3.10", "fire",
        (VM, "    src = preprocess.augment_annotations(src)\n", ""),
        (VM, "    src_tree = directors.parse_src(src, self.ctx.python_version)\n",
         "    src_tree = directors.parse_src(src, self.ctx.python_version)\n    src = preprocess.augment_annotations(src)\n")),
    _v("twin-token-type-tested-directly", "R3.10", PAR, "if tok == tokenize.COMMENT:",
       "if tokenize.COMMENT == token.type:", "silent"),
    _v("twin-discard-test-negated", "R3.10", PAR,
       "    if tool == \"type\" and open_ended and is_nested:\n"
       "      # Discard type comments embedded in larger whole-line comments.\n      continue\n"
       "    yield _StructuredComment(lineno, tool, data, open_ended)\n",
       "    if not (open_ended and is_nested and \"type\" == tool):\n"
       "      yield _StructuredComment(line=lineno, tool=tool, data=data, open_ended=open_ended)\n", "silent"),
    _v("starred-call-arguments-not-understood", "R3.10", PAR,
       "structured_comments[lineno].extend(_process_comment(line, lineno, col))",
       "structured_comments[token.start[0]] += _process_comment(token.line, *token.start)", "error"),
    _v("twin-comments-collected-with-iadd-plain", "R3.10", PAR,
       "structured_comments[lineno].extend(_process_comment(line, lineno, col))",
       "structured_comments[lineno] += _process_comment(line=line, col=col, lineno=lineno)", "silent"),
    _vs("twin-rename-open_ended-local", "R3.10", "silent",
        (PAR, "  open_ended = not line[:col].strip()\n", "  alone = not line[:col].strip()\n"),
        (PAR, "if tool == \"type\" and open_ended and is_nested:", "if tool == \"type\" and alone and is_nested:"),
        (PAR, "yield _StructuredComment(lineno, tool, data, open_ended)", "yield _StructuredComment(lineno, tool, data, alone)")),
    # behaviour-preserving refactorings (benign/<id>/patch.diff) stay silent; the same refactoring plus a defect
    # (benign/<id>/defect_*.diff) is still caught in the refactored shape
    _p("twin-benign-C03-r1-lineset-helpers-inline-bisect", "R3.4", "benign/C03-r1/patch.diff", "silent"),
    _p("C03-r1+range-parity-inverted", "R3.4", "benign/C03-r1/defect_parity_inverted.diff"),
    _p("C03-r1+bisect_left", "R3.4", "benign/C03-r1/defect_bisect_left.diff"),
    _v("twin-parity-of-inline-bisect_right", "R3.4", DIR,
       "    pos = bisect.bisect(self._transitions, line)\n    return (pos % 2) == 1\n",
       "    return 0 != bisect.bisect_right(self._transitions, line) % 2\n", "silent"),
    _v("inline-bisect-parity-inverted", "R3.4", DIR,
       "    pos = bisect.bisect(self._transitions, line)\n    return (pos % 2) == 1\n",
       "    return bisect.bisect_right(self._transitions, line) % 2 != 1\n"),
    _p("twin-benign-C03-r2-closure-and-helper-inlined-guard-clauses", "R3.7", "benign/C03-r2/patch.diff", "silent"),
    _p("C03-r2+adjusted-to-range-end", "R3.7", "benign/C03-r2/defect_adjusted_to_range_end.diff"),
    _p("C03-r2+extra-line-registered", "R3.7", "benign/C03-r2/defect_extra_line_registered.diff"),
    _p("C03-r2+own-line-dropped", "R3.1", "benign/C03-r2/defect_own_line_dropped.diff"),
    _p("C03-r2+base-range-skipped", "R3.5", "benign/C03-r2/defect_base_range_skipped.diff"),
    _p("C03-r2+range-kind-test-inverted", "R3.5", "benign/C03-r2/defect_base_range_skipped_inverted.diff"),
    _p("C03-r2+enable-wired-to-disable", "R3.6", "benign/C03-r2/defect_enable_wired_to_disable.diff"),
    _v("twin-adjustment-as-conditional-expression", "R3.7", DIR,
       "          final_line = self._adjust_line_number_for_pytype_directive(\n"
       "              line, error_name, line_range\n          )\n",
       "          final_line = line_range.start_line if error_name in _ALL_ADJUSTABLE_ERRORS else line\n", "silent"),
    _v("adjustment-inline-to-range-end", "R3.7", DIR,
       "          final_line = self._adjust_line_number_for_pytype_directive(\n"
       "              line, error_name, line_range\n          )\n",
       "          final_line = line_range.end_line if error_name in _ALL_ADJUSTABLE_ERRORS else line\n"),
    _v("adjust-helper-called-with-range-end", "R3.7", DIR,
       "          final_line = self._adjust_line_number_for_pytype_directive(\n              line, error_name,",
       "          final_line = self._adjust_line_number_for_pytype_directive(\n              line_range.end_line, "
       "error_name,"),
    _v("twin-keep-as-conditional-expression", "R3.5", DIR,
       "      if isinstance(line_range, parser.Call):\n        return error_name in _FUNCTION_CALL_ERRORS\n"
       "      else:\n        return True\n",
       "      return error_name in _FUNCTION_CALL_ERRORS if isinstance(line_range, parser.Call) else True\n", "silent"),
    _v("keep-ignores-the-range-kind", "R3.5", DIR,
       "      if isinstance(line_range, parser.Call):\n        return error_name in _FUNCTION_CALL_ERRORS\n"
       "      else:\n        return True\n",
       "      return error_name in _FUNCTION_CALL_ERRORS\n"),
    _v("skip-test-without-keep-ignores-the-range-kind", "R3.5", DIR, "        if not keep(error_name):",
       "        if error_name not in _FUNCTION_CALL_ERRORS:"),
    _p("twin-benign-C03-r3-list-builder-search-hoisted-closure", "R3.10", "benign/C03-r3/patch.diff", "silent"),
    _p("C03-r3+only-first-match", "R3.10", "benign/C03-r3/defect_only_first_match.diff"),
    _p("C03-r3+match-instead-of-search", "R3.10", "benign/C03-r3/defect_match_instead_of_search.diff"),
    _p("C03-r3+nested-discard-returns", "R3.10", "benign/C03-r3/defect_nested_discard_returns.diff"),
    _p("C03-r3+any-nested-dropped", "R3.10", "benign/C03-r3/defect_any_nested_dropped.diff"),
    _p("C03-r3+list-reset-in-loop", "R3.10", "benign/C03-r3/defect_list_reset_in_loop.diff", "error"),
    _p("C03-r3+other-list-returned", "R3.10", "benign/C03-r3/defect_other_list_returned.diff", "error"),
    _v("first-match-tested-at-start-only", "R3.10", PAR, "  if not matches:\n    return\n",
       "  if not _DIRECTIVE_RE.match(line[col:]):\n    return\n"),
    _v("twin-first-match-by-search", "R3.10", PAR, "  if not matches:\n    return\n",
       "  if _DIRECTIVE_RE.search(line[col:]) is None:\n    return\n", "silent"),
    _p("twin-benign-C03-r4-filter-split-into-helpers-early-return", "R3.9", "benign/C03-r4/patch.diff", "silent"),
    _p("C03-r4+key-before-adjustment", "R3.9", "benign/C03-r4/defect_key_before_adjustment.diff"),
    _p("C03-r4+wildcard-not-consulted", "R3.3", "benign/C03-r4/defect_wildcard_not_consulted.diff"),
    _p("C03-r4+verdict-not-negated", "R3.3", "benign/C03-r4/defect_verdict_not_negated.diff"),
    _p("C03-r4+filter-bypassed-for-one-class", "R3.2", "benign/C03-r4/defect_filter_bypassed.diff"),
    # R3.5 / R3.8: definite deviations are violations, not analysis errors
    _v("type-comments-never-dispatched", "R3.5", DIR,
       "          self._process_type(\n              comment.line, comment.data, comment.open_ended, line_range\n          )\n",
       "          pass\n"),
]
