"""C05 - emitted stubs parse back unchanged: printer <-> parser vocabulary.

Decides: that the printer has an arm for every pytd node class, and that every
spelling the printer (and output.py, for class keywords) chooses is a spelling
the stub reader recognises.  Does NOT decide the parse-then-print fixed point.
"""
import ast
import keyword as _keyword
import re
import re._parser as _sre_parser

from sa.core import rule, AnalysisError
from sa.pyindex import (get_module, dotted, src, kwarg, calls_in, try_fold,
                        walk_no_nested)
from sa import flow

EXPLANATION = (
    "Static vocabulary-agreement rules between the stub printer "
    "(pytd/printer.py, plus the class keywords output.py emits) and the stub "
    "reader (pyi/parser.py, pyi/definitions.py, pyi/classdef.py, "
    "pytd/codegen/function.py, stubs/builtins/typing.pytd), evaluated on the "
    "AST: R5.1 every concrete pytd Node class has a Visit<Class> in "
    "PrintVisitor; R5.2 every typing member the printer names "
    "(_FromTyping/_LookupTypingMember literals, typing imports, "
    "decrement_typing_count literals) is defined in typing.pytd; R5.3 each "
    "decorator the printer emits for a method kind/flag is the spelling the "
    "reader maps back to that same kind/flag, bare names are matched by base "
    "name in Definitions.matches_type, and the special spellings 'nothing', "
    "'Never' and 'None' are read back as NothingType/NoneType; R5.4 the "
    "keyword mangling f-string and the un-mangling regex describe the same "
    "language and round-trip every Python keyword; R5.5 the fixpoint witness "
    "canonical_pyi is parse -> canonical order -> verify -> Print, and "
    "generate_pyi prints exactly the verified, canonically ordered AST; R5.6 "
    "two name sets are extracted per method kind K and must be EQUAL: the "
    "names for which VisitFunction omits @staticmethod/@classmethod (negative "
    "name literals `!=` / `not in <foldable collection>` in the path "
    "condition of the `decorators +=`, over all enclosing and elif-residue "
    "guards) and the names for which merge_method_signatures infers K without "
    "a decorator (`name == lit` / `name in <literal or module constant>` "
    "disjuncts of the kind chain, earlier arms winning).  printer-only name: "
    "a K method is read back as a plain method; reader-only name: an "
    "undecorated method (kind METHOD from the inferencer) is re-read as K and "
    "re-printed with the decorator.  Not decided by R5.6: whether output.py "
    "emits kind K for those names in the first place; R5.7 class keywords "
    "output.py emits are accepted by classdef.get_keywords; R5.8 "
    "TypeVar/ParamSpec constructor names and keyword arguments the printer "
    "writes are accepted by the reader; R5.9 decisions the printer takes on "
    "already-printed child text are content-safe (no tuple-unpacked unbounded "
    "split, no substring test choosing the Callable form); R5.10 the "
    "functional TypedDict form prints the class keywords output.py emits; "
    "R5.12 no slice bound -len(X) unless X is known non-empty; R5.13 symbolic "
    "execution of PrintVisitor.VisitClass over the truth values of the member "
    "fields (node.classes/constants/methods/slots, derived from the code): on "
    "every feasible path the header gets the ' ...' suffix iff every list "
    "joined after the header is empty (suffix + indented body does not parse; "
    "no suffix + no body does not parse either).  "
    "Each is a necessary condition: "
    "breaking one makes some emitted stub fail to parse or parse to a "
    "different declaration.  The text-level details of every Visit* method "
    "and the parse-then-print fixed point itself are not decided.  Blind "
    "spots of R5.13: the text of the emitted lines (indentation, the "
    "__slots__ spelling), members printed as an empty string, and tests in "
    "VisitClass the analysis cannot evaluate are taken to be independent of "
    "the members unless they mention them (then: analysis error).")
ASSUMPTIONS = [
    "node classes are dispatched by exact class name (parse/node.py: visitors "
    "for superclasses are not triggered), so a missing Visit<Class> leaves a "
    "node unprinted",
    "typing.pytd is valid Python syntax and is read with `ast`; a typing "
    "member the loader cannot find makes the stub unloadable",
    "host CPython `keyword.kwlist`, `type(None).__name__` and the stdlib `re` "
    "engine are used as references for R5.4/R5.3",
    "only vocabulary agreement is decided; layout, import bookkeeping and "
    "ordering inside the Visit* methods are out of reach of a static argument",
    "R5.13: every printed nested class / method / constant has at least one "
    "line (so sum((m.splitlines() for m in X), []) and a comprehension over X "
    "are empty exactly when X is); loops in VisitClass do not touch the body "
    "lists (locals bound in a loop become unknown)",
]

PRINTER = "pytype/pytd/printer.py"
PYTD = "pytype/pytd/pytd.py"
PARSER = "pytype/pyi/parser.py"
DEFS = "pytype/pyi/definitions.py"
CLASSDEF = "pytype/pyi/classdef.py"
CODEGEN_FN = "pytype/pytd/codegen/function.py"
PYTD_UTILS = "pytype/pytd/pytd_utils.py"
VISITORS = "pytype/pytd/visitors.py"
IO = "pytype/io.py"
OUTPUT = "pytype/output.py"
TYPING = "pytype/stubs/builtins/typing.pytd"


# -- shared extraction helpers (also used by rules/c06.py) ---------------------

def node_classes(ctx):
  """pytd.py Node hierarchy: name -> {"bases", "node", "concrete"}."""
  def build():
    mod = get_module(ctx, PYTD)
    if dotted(mod.assigns.get("Node")) != "node.Node":
      raise AnalysisError("pytd.py: `Node = node.Node` alias not found")
    out = {}
    for name, cd in mod.classes.items():
      bases = [dotted(b) for b in cd.bases]
      if any(b is None for b in bases):
        raise AnalysisError(f"pytd.py: class {name} has a computed base")
      if any(b == "Node" or b in out for b in bases):
        out[name] = {"bases": [b for b in bases if b in out], "node": cd}
    if len(out) < 10:
      raise AnalysisError("pytd.py: Node class hierarchy not recognised")
    constructed = {dotted(c.func) for c in calls_in(mod.tree)}
    for name, info in out.items():
      cd = info["node"]
      has_sub = any(name in o["bases"] for o in out.values())
      marker = has_sub and all(
          isinstance(s, ast.Pass) or (isinstance(s, ast.Expr) and
                                      isinstance(s.value, ast.Constant))
          for s in cd.body)
      private_abstract = name.startswith("_") and name not in constructed
      info["concrete"] = not (marker or private_abstract)
    return out
  return ctx.memo("c05.node_classes", build)


def node_ancestors(ctx, name):
  """name and all its Node-class ancestors inside pytd.py."""
  classes = node_classes(ctx)
  out, todo = [], [name]
  while todo:
    n = todo.pop()
    if n in out or n not in classes:
      continue
    out.append(n)
    todo.extend(classes[n]["bases"])
  return out


def printer_visits(ctx):
  """Visit<Class> suffixes defined by PrintVisitor -> def node."""
  mod = get_module(ctx, PRINTER)
  cd = mod.cls("PrintVisitor")
  bases = [dotted(b) for b in cd.bases]
  if bases != ["base_visitor.Visitor"]:
    raise AnalysisError(f"PrintVisitor bases {bases}: inheritance not understood")
  return {n[len("Visit"):]: fn for n, fn in mod.methods("PrintVisitor").items()
          if n.startswith("Visit") and len(n) > len("Visit")}


def stub_toplevel(ctx, rel):
  """Top-level names of a .pytd stub -> value node (or True)."""
  def build():
    text = ctx.read(rel)
    try:
      tree = ast.parse(text, filename=rel)
    except SyntaxError as e:
      raise AnalysisError(f"{rel} does not parse with ast: {e}") from e
    names = {}
    def top(body):
      for st in body:
        if isinstance(st, (ast.ClassDef, ast.FunctionDef, ast.AsyncFunctionDef)):
          names[st.name] = st
        elif isinstance(st, ast.Assign):
          for tg in st.targets:
            if isinstance(tg, ast.Name):
              names[tg.id] = st.value
        elif isinstance(st, ast.AnnAssign) and isinstance(st.target, ast.Name):
          names[st.target.id] = st.value if st.value is not None else st
        elif isinstance(st, ast.If):
          top(st.body)
          top(st.orelse)
        elif isinstance(st, (ast.Import, ast.ImportFrom)):
          for a in st.names:
            names[a.asname or a.name] = st
    top(tree.body)
    if len(names) < 20:
      raise AnalysisError(f"{rel}: too few top-level names ({len(names)})")
    return names
  return ctx.memo(("c05.stub", rel), build)


def if_chain(first):
  """[(test, body)], else_body for an if/elif/else chain."""
  arms, node = [], first
  while True:
    arms.append((node.test, node.body))
    if len(node.orelse) == 1 and isinstance(node.orelse[0], ast.If):
      node = node.orelse[0]
    else:
      return arms, node.orelse


def _const_str(node):
  return node.value if isinstance(node, ast.Constant) and \
      isinstance(node.value, str) else None


def _self_calls(fn_or_tree, meth):
  return [c for c in calls_in(fn_or_tree) if dotted(c.func) == f"self.{meth}"]


# -- R5.1 ------------------------------------------------------------------------

@rule("R5.1", "C05", floor=26)
def r5_1(ctx):
  """Every concrete pytd Node class has a Visit<Class> in PrintVisitor."""
  classes = node_classes(ctx)
  visits = printer_visits(ctx)
  pmod = get_module(ctx, PRINTER)
  pv_line = pmod.cls("PrintVisitor").lineno
  for name, info in sorted(classes.items()):
    if not info["concrete"]:
      continue
    fn = visits.get(name)
    ctx.check(fn is not None, f"pytd.{name}", PRINTER,
              fn.lineno if fn is not None else pv_line,
              f"PrintVisitor has no Visit{name}: visitors dispatch on the exact "
              f"class name, so a {name} node reaches the output unprinted",
              {"class": name, "bases": info["bases"],
               "visit": f"Visit{name}" if fn is not None else None})


# -- R5.2 ------------------------------------------------------------------------

def _forwarded_typing_call_ok(pmod, call):
  """`self._FromTyping(suffix)` inside VisitNamedType under a typing prefix."""
  fn = pmod.enclosing_function(call)
  if fn is None or fn.name != "VisitNamedType" or len(call.args) != 1 or \
      not isinstance(call.args[0], ast.Name):
    return None
  var = call.args[0].id
  # var must be bound exactly once, by `prefix, _, var = node.name.rpartition(".")`
  binds = []
  for n in walk_no_nested(fn):
    if isinstance(n, ast.Assign):
      for t in n.targets:
        for sub in ast.walk(t):
          if isinstance(sub, ast.Name) and sub.id == var:
            binds.append(n)
  if len(binds) != 1:
    return None
  b = binds[0]
  if not (isinstance(b.targets[0], ast.Tuple) and len(b.targets[0].elts) == 3
          and dotted(b.targets[0].elts[2]) == var
          and isinstance(b.value, ast.Call)
          and dotted(b.value.func) == "node.name.rpartition"
          and _const_str(b.value.args[0]) == "."):
    return None
  prefix = dotted(b.targets[0].elts[0])
  g = flow.guards(pmod.parent, pmod.enclosing_stmt(call), stop=fn)
  for test, pol in g:
    if pol and isinstance(test, ast.Compare) and len(test.ops) == 1 and \
        isinstance(test.ops[0], ast.Eq) and dotted(test.left) == prefix:
      lit = _const_str(test.comparators[0])
      if lit in ("typing", "typing_extensions"):
        return lit
  return None


@rule("R5.2", "C05", floor=19)
def r5_2(ctx):
  """Typing members the printer names are defined in typing.pytd."""
  pmod = get_module(ctx, PRINTER)
  typing_names = stub_toplevel(ctx, TYPING)
  cd = pmod.cls("PrintVisitor")
  seen = {}

  def want(kind, lit, line):
    key = f"{kind}:{lit}"
    if key in seen:
      return
    seen[key] = True
    ctx.check(lit in typing_names, key, PRINTER, line,
              f"printer names typing member {lit!r} ({kind}) which typing.pytd "
              "does not define: the emitted import cannot be resolved / the "
              "bookkeeping call is a no-op", {"member": lit, "via": kind,
                                              "defined": lit in typing_names})

  for meth in ("_FromTyping", "_LookupTypingMember"):
    if meth not in pmod.methods("PrintVisitor"):
      raise AnalysisError(f"anchor PrintVisitor.{meth} not found")
    for call in _self_calls(cd, meth):
      if len(call.args) != 1 or call.keywords:
        raise AnalysisError(f"{meth} call shape not understood: {src(call)}")
      lit = _const_str(call.args[0])
      if lit is not None:
        want(meth, lit, call.lineno)
        continue
      pre = _forwarded_typing_call_ok(pmod, call)
      if pre is None:
        raise AnalysisError(
            f"non-literal {meth} call not understood: {src(call)} in "
            f"{getattr(pmod.enclosing_function(call), 'name', '?')}")
      key = f"{meth}:<suffix of {pre}.* name>"
      n = sum(k.startswith(key) for k in seen)
      seen[f"{key}#{n}"] = True
      ctx.ok(f"{key}#{n}", PRINTER, call.lineno,
             {"forwarded": src(call.args[0]), "guard": f"prefix == {pre!r}"})
  # typing imports added by full name, and counter bookkeeping by member name
  for call in calls_in(cd):
    d = dotted(call.func)
    if d == "self._imports.add" and call.args:
      lit = _const_str(call.args[0])
      if lit and lit.startswith("typing."):
        want("_imports.add", lit[len("typing."):], call.lineno)
    elif d == "self._imports.decrement_typing_count":
      if len(call.args) != 1:
        raise AnalysisError(f"decrement_typing_count shape: {src(call)}")
      lit = _const_str(call.args[0])
      if lit is not None:
        want("decrement_typing_count", lit, call.lineno)


# -- R5.3 / R5.6 -------------------------------------------------------------------

_FLAG_ATTRS = {"is_abstract": "abstract", "is_coroutine": "coroutine",
               "is_final": "final"}


def printer_decorators(ctx):
  """What VisitFunction appends to `decorators`, with the guarding fact.

  Returns a list of dicts: {"spelling", "typing": bool, "why": ("kind", K,
  [exempt names]) | ("flag", x) | ("overload",), "line"}.
  """
  def build():
    pmod = get_module(ctx, PRINTER)
    fn = pmod.func("PrintVisitor.VisitFunction")
    # names bound to node.name
    name_vars = {"node.name"}
    for n in walk_no_nested(fn):
      if isinstance(n, ast.Assign) and dotted(n.value) == "node.name":
        for t in n.targets:
          if isinstance(t, ast.Name):
            name_vars.add(t.id)
    out = []
    for n in walk_no_nested(fn):
      if not (isinstance(n, ast.AugAssign) and dotted(n.target) == "decorators"):
        continue
      if not isinstance(n.op, ast.Add):
        raise AnalysisError("VisitFunction: decorators updated with non-+=")
      v = n.value
      lit = _const_str(v)
      typing_dec = False
      if lit is not None:
        m = re.fullmatch(r"@([A-Za-z_][\w.]*)\n", lit)
        if not m:
          raise AnalysisError(f"VisitFunction: decorator text {lit!r} not understood")
        spelling = m.group(1)
      else:
        # "@" + self._FromTyping("x") + "\n"
        parts = []
        def flat(e):
          if isinstance(e, ast.BinOp) and isinstance(e.op, ast.Add):
            flat(e.left)
            flat(e.right)
          else:
            parts.append(e)
        flat(v)
        if not (len(parts) == 3 and _const_str(parts[0]) == "@"
                and _const_str(parts[2]) == "\n"
                and isinstance(parts[1], ast.Call)
                and dotted(parts[1].func) == "self._FromTyping"
                and len(parts[1].args) == 1
                and _const_str(parts[1].args[0]) is not None):
          raise AnalysisError(
              f"VisitFunction: decorator expression not understood: {src(v)}")
        spelling = _const_str(parts[1].args[0])
        typing_dec = True
      g = flow.guards(pmod.parent, n, stop=fn)
      if not any(pol for _, pol in g):
        raise AnalysisError(
            f"VisitFunction: @{spelling} is not under a positive guard")
      why = _classify_guard(g, name_vars, pmod)
      if why is None:
        raise AnalysisError(
            f"VisitFunction: guard of @{spelling} not understood: "
            + " / ".join(("" if pol else "not ") + src(t) for t, pol in g))
      out.append({"spelling": spelling, "typing": typing_dec, "why": why,
                  "line": n.lineno})
    if not out:
      raise AnalysisError("VisitFunction emits no decorators")
    return out
  return ctx.memo("c05.printer_decorators", build)


def _name_atom(c, name_vars, mod):
  """(set of names, polarity) for `N == lit`, `N != lit`, `N in S`,
  `N not in S` with N a function-name variable and S a foldable collection
  of strings (literal or module constant); else None."""
  if not (isinstance(c, ast.Compare) and len(c.ops) == 1):
    return None
  op, l, r = c.ops[0], c.left, c.comparators[0]
  if isinstance(op, (ast.Eq, ast.NotEq)):
    if dotted(r) in name_vars and _const_str(l) is not None:
      l, r = r, l
    if dotted(l) in name_vars and _const_str(r) is not None:
      return frozenset([_const_str(r)]), isinstance(op, ast.Eq)
    return None
  if isinstance(op, (ast.In, ast.NotIn)) and dotted(l) in name_vars:
    vals = try_fold(r, mod=mod)
    if isinstance(vals, (tuple, list, set, frozenset)) and vals and \
        all(isinstance(v, str) for v in vals):
      return frozenset(vals), isinstance(op, ast.In)
    if isinstance(vals, dict) and vals and all(isinstance(v, str) for v in vals):
      return frozenset(vals), isinstance(op, ast.In)
    raise AnalysisError(
        f"name test against a collection that does not fold: {src(c)}")
  return None


def _kind_atom(c):
  if isinstance(c, ast.Compare) and len(c.ops) == 1 and \
      isinstance(c.ops[0], (ast.Eq, ast.Is)):
    l, r = dotted(c.left), dotted(c.comparators[0])
    if r == "node.kind":
      l, r = r, l
    if l == "node.kind" and (r or "").startswith("pytd.MethodKind."):
      return r.rsplit(".", 1)[1]
  return None


def _classify_guard(guards, name_vars, mod=None):
  """The path condition of one `decorators += ...` as a decorator reason.

  `guards` is flow.guards() output (or, for convenience, a bare test).  The
  condition is a conjunction of literals: positive tests are flattened over
  `and`, negated tests over `or` (De Morgan).  A negated conjunction (the
  `elif` residue of an earlier arm) is redundant when it contains a
  `node.kind == K'` for a kind other than the one this path tests positively;
  any other negated conjunction that mentions the function name is outside
  the fragment."""
  if isinstance(guards, ast.AST):
    guards = [(guards, True)]
  pos, neg_conj = [], []   # [(expr, polarity)], [[expr, ...]]
  def add(t, pol):
    while isinstance(t, ast.UnaryOp) and isinstance(t.op, ast.Not):
      t, pol = t.operand, not pol
    if isinstance(t, ast.BoolOp):
      if isinstance(t.op, ast.And) == pol:
        for v in t.values:
          add(v, pol)
      elif not pol:
        neg_conj.append(list(t.values))
      else:
        pos.append((t, True))   # a positive disjunction: opaque
    else:
      pos.append((t, pol))
  for t, pol in guards:
    add(t, pol)
  kind = None
  exempt = set()
  others = []
  for t, pol in pos:
    k = _kind_atom(t)
    if k is not None:
      if pol:
        if kind not in (None, k):
          return None
        kind = k
      continue  # `kind != K'`: no information about the name
    na = _name_atom(t, name_vars, mod)
    if na is not None:
      names, npol = na
      if npol == pol:
        return None  # decorator only FOR some names: not an exemption
      exempt |= names
      continue
    others.append((t, pol))
  for conj in neg_conj:
    ks = [_kind_atom(c) for c in conj]
    if kind is not None and any(k is not None and k != kind for k in ks):
      continue
    if any(k is not None for k in ks) or any(
        dotted(n) in name_vars for c in conj for n in ast.walk(c)):
      return None
    others.append((conj, False))
  if kind is not None:
    return ("kind", kind, sorted(exempt)) if not others else None
  if exempt or len(others) != 1 or not others[0][1]:
    return None
  test = others[0][0]
  d = dotted(test)
  if d and d.startswith("node.") and d[len("node."):] in _FLAG_ATTRS:
    return ("flag", _FLAG_ATTRS[d[len("node."):]])
  if isinstance(test, ast.Compare) and len(test.ops) == 1 and \
      isinstance(test.ops[0], ast.Gt) and \
      src(test.left) == "len(node.signatures)" and \
      try_fold(test.comparators[0]) == 1:
    return ("overload",)
  return None


def reader_kinds(ctx):
  """codegen/function.py: decorator literal -> MethodKind, implicit names."""
  def build():
    mod = get_module(ctx, CODEGEN_FN)
    fn = mod.func("merge_method_signatures")
    lit_to_flag = {}
    for loop in walk_no_nested(fn):
      if not (isinstance(loop, ast.For) and dotted(loop.iter) == "fn.decorators"):
        continue
      var = dotted(loop.target)
      for st in loop.body:
        if not isinstance(st, ast.If):
          continue
        arms, _ = if_chain(st)
        for test, body in arms:
          if isinstance(test, ast.Compare) and len(test.ops) == 1 and \
              isinstance(test.ops[0], ast.Eq) and \
              dotted(test.left) == f"{var}.type.name" and \
              _const_str(test.comparators[0]) is not None:
            flags = [dotted(s.targets[0]) for s in body
                     if isinstance(s, ast.Assign) and len(s.targets) == 1
                     and isinstance(s.value, ast.Constant) and s.value.value is True]
            if len(flags) != 1:
              raise AnalysisError(
                  "merge_method_signatures: decorator arm shape not understood")
            lit_to_flag[_const_str(test.comparators[0])] = flags[0]
    if not lit_to_flag:
      raise AnalysisError(
          "merge_method_signatures: no `decorator.type.name == <lit>` arms")
    # kind chain
    flag_to_kind, implicit, prop_kind = {}, {}, None
    chains = [s for s in walk_no_nested(fn) if isinstance(s, ast.If) and any(
        isinstance(b, ast.Assign) and dotted(b.targets[0]) == "kind"
        for b in s.body)]
    heads = [c for c in chains
             if not (isinstance(mod.parent.get(c), ast.If)
                     and c in mod.parent[c].orelse)]
    if len(heads) != 1:
      raise AnalysisError("merge_method_signatures: kind chain not found")
    arms, els = if_chain(heads[0])
    def kind_of(body):
      ks = [dotted(b.value) for b in body if isinstance(b, ast.Assign)
            and dotted(b.targets[0]) == "kind"]
      if len(ks) != 1 or not (ks[0] or "").startswith("pytd.MethodKind."):
        raise AnalysisError("merge_method_signatures: kind arm not understood")
      return ks[0].rsplit(".", 1)[1]
    for test, body in arms:
      k = kind_of(body)
      disj = test.values if isinstance(test, ast.BoolOp) and \
          isinstance(test.op, ast.Or) else [test]
      for d in disj:
        if isinstance(d, ast.Name):
          flag_to_kind[d.id] = k
        elif (na := _name_atom(d, {"name", "fn.name"}, mod)) is not None:
          names, pol = na
          if not pol:
            raise AnalysisError(
                f"merge_method_signatures: negative name test in the kind "
                f"chain not understood: {src(d)}")
          # an earlier arm wins: the chain is evaluated top-down
          taken = {x for v in implicit.values() for x in v}
          implicit.setdefault(k, []).extend(sorted(names - taken))
        elif dotted(d) == "fn.properties":
          prop_kind = k
        else:
          raise AnalysisError(
              f"merge_method_signatures: kind test not understood: {src(d)}")
    if kind_of(els) != "METHOD":
      raise AnalysisError("merge_method_signatures: default kind is not METHOD")
    lit_to_kind = {lit: flag_to_kind[f] for lit, f in lit_to_flag.items()
                   if f in flag_to_kind}
    # property decorators: `fn.properties` is set from _property_decorators keys
    pfn = mod.func("_property_decorators")
    rets = [n for n in walk_no_nested(pfn) if isinstance(n, ast.Return)]
    if len(rets) != 1 or not isinstance(rets[0].value, ast.Dict):
      raise AnalysisError("_property_decorators: dict literal not found")
    prop_lits = {}
    for k, v in zip(rets[0].value.keys, rets[0].value.values):
      ks = _const_str(k)
      if ks is not None and isinstance(v, ast.Call) and v.args:
        prop_lits[ks] = _const_str(v.args[0])
    post = mod.func("_DecoratedFunction.__post_init__")
    wired = any(isinstance(n, ast.Assign) and dotted(n.targets[0]) == "self.prop_names"
                and isinstance(n.value, ast.Call)
                and dotted(n.value.func) == "_property_decorators"
                for n in walk_no_nested(post))
    if not wired:
      raise AnalysisError("_DecoratedFunction.__post_init__: prop_names wiring")
    if prop_kind is not None:
      for lit, role in prop_lits.items():
        if role == "getter":
          lit_to_kind[lit] = prop_kind
    return {"lit_to_kind": lit_to_kind, "implicit": implicit,
            "line": fn.lineno}
  return ctx.memo("c05.reader_kinds", build)


def reader_flags(ctx):
  """parser._extract_function_properties: flag var -> target names."""
  def build():
    mod = get_module(ctx, PARSER)
    fn = mod.func("_GeneratePytdVisitor._extract_function_properties")
    loops = [n for n in walk_no_nested(fn) if isinstance(n, ast.For)
             and dotted(n.iter) == "node.decorator_list"]
    if len(loops) != 1:
      raise AnalysisError("_extract_function_properties: decorator loop not found")
    var = dotted(loops[0].target)
    ifs = [s for s in loops[0].body if isinstance(s, ast.If)]
    if len(ifs) != 1:
      raise AnalysisError("_extract_function_properties: arm chain not found")
    arms, _ = if_chain(ifs[0])
    out = {}
    for test, body in arms:
      if not (isinstance(test, ast.Call)
              and dotted(test.func) == "self.defs.matches_type"
              and len(test.args) == 2 and dotted(test.args[0]) == f"{var}.name"):
        raise AnalysisError(
            f"_extract_function_properties: arm test not understood: {src(test)}")
      targets = try_fold(test.args[1], mod=mod)
      if isinstance(targets, str):
        targets = (targets,)
      if not (isinstance(targets, tuple) and all(isinstance(t, str) for t in targets)):
        raise AnalysisError(
            f"_extract_function_properties: targets not literal: {src(test.args[1])}")
      flags = [dotted(s.targets[0]) for s in body if isinstance(s, ast.Assign)
               and isinstance(s.value, ast.Constant) and s.value.value is True]
      if len(flags) != 1:
        raise AnalysisError("_extract_function_properties: arm body not understood")
      out[flags[0]] = {"targets": list(targets), "line": test.lineno}
    # the flags must reach SigProperties under their own names
    sp = [c for c in calls_in(fn) if (dotted(c.func) or "").endswith("SigProperties")]
    if len(sp) != 1:
      raise AnalysisError("_extract_function_properties: SigProperties call")
    for k in sp[0].keywords:
      if k.arg in out and dotted(k.value) != k.arg:
        raise AnalysisError(
            f"SigProperties({k.arg}={src(k.value)}): flag wiring not understood")
    return out
  return ctx.memo("c05.reader_flags", build)


@rule("R5.3", "C05", floor=11)
def r5_3(ctx):
  """Decorators and special spellings the printer emits are read back."""
  decs = printer_decorators(ctx)
  kinds = reader_kinds(ctx)
  flags = reader_flags(ctx)
  for d in decs:
    sp, why = d["spelling"], d["why"]
    if why[0] == "kind":
      got = kinds["lit_to_kind"].get(sp)
      ctx.check(got == why[1], f"decorator:@{sp}", PRINTER, d["line"],
                f"printer writes @{sp} for MethodKind.{why[1]} but "
                f"codegen/function.py reads @{sp} back as "
                f"{'MethodKind.' + got if got else 'an ordinary decorator'}",
                {"printer_kind": why[1], "reader_kind": got,
                 "reader_table": kinds["lit_to_kind"]})
    else:
      var = why[1] if why[0] == "flag" else "overload"
      if var not in flags:
        # reader_flags() understood every arm of the chain (it raises
        # otherwise), so the arm is definitely missing
        ctx.bad(f"decorator:@{sp}", PRINTER, d["line"],
                f"printer writes @{sp} for the `{var}` flag but "
                f"_extract_function_properties has no `{var} = True` arm (arms: "
                f"{sorted(flags)}): it is read back as an ordinary decorator",
                {"flag": var, "reader_arms": sorted(flags)})
        continue
      targets = flags[var]["targets"]
      if d["typing"]:
        ok = any(t == f"typing.{sp}" or
                 (t.rsplit(".", 1)[-1] == sp and
                  t.rsplit(".", 1)[0] in ("typing_extensions", "collections.abc"))
                 for t in targets)
      else:
        ok = any(t.rsplit(".", 1)[-1] == sp for t in targets)
      ctx.check(ok, f"decorator:@{sp}", PRINTER, d["line"],
                f"printer writes @{sp} for the `{var}` flag but no target of "
                f"the parser's `{var}` arm has that name: {targets}",
                {"flag": var, "targets": targets, "typing_member": d["typing"]})
  # bare names are matched by base name
  dmod = get_module(ctx, DEFS)
  mt = dmod.func("Definitions.matches_type")
  base_var = None
  for n in walk_no_nested(mt):
    if isinstance(n, ast.Assign) and isinstance(n.targets[0], ast.Tuple) and \
        isinstance(n.value, ast.Call) and dotted(n.value.func) == "target.rsplit" \
        and len(n.targets[0].elts) == 2:
      base_var = dotted(n.targets[0].elts[1])
  if base_var is None:
    raise AnalysisError("matches_type: `_, base = target.rsplit('.', 1)` not found")
  arm = None
  compares = [n for n in walk_no_nested(mt) if isinstance(n, ast.Compare)
              and len(n.ops) == 1 and isinstance(n.ops[0], ast.Eq)
              and {dotted(n.left), dotted(n.comparators[0])} == {"name", base_var}]
  for n in walk_no_nested(mt):
    if isinstance(n, ast.If) and n.test in compares and \
        isinstance(n.body[-1], ast.Return) and \
        try_fold(n.body[-1].value) is True and dmod.parent.get(n) is mt:
      arm = n
  if arm is None and compares:
    raise AnalysisError(
        "matches_type: comparison with the target's base name is present but "
        "not as a top-level `if name == base: return True`")
  ctx.check(arm is not None, "matches_type:bare-name", DEFS,
            arm.lineno if arm else mt.lineno,
            "Definitions.matches_type must accept a bare name equal to the "
            "target's base name (`@abstractmethod`, `@coroutine`, `@final` "
            "are printed without a module)", {"base_var": base_var})
  # 'nothing'
  pmod = get_module(ctx, PRINTER)
  vn = pmod.func("PrintVisitor.VisitNothingType")
  rets = [n for n in walk_no_nested(vn) if isinstance(n, ast.Return)]
  if len(rets) != 1 or _const_str(rets[0].value) is None:
    raise AnalysisError("VisitNothingType: literal return not found")
  nothing = _const_str(rets[0].value)
  rt = dmod.func("Definitions.resolve_type")
  ok = False
  for n in walk_no_nested(rt):
    if isinstance(n, ast.If) and isinstance(n.test, ast.Compare) and \
        len(n.test.ops) == 1 and isinstance(n.test.ops[0], ast.Eq) and \
        dotted(n.test.left) == "name" and \
        _const_str(n.test.comparators[0]) == nothing and \
        isinstance(n.body[-1], ast.Return) and \
        src(n.body[-1].value) == "pytd.NothingType()":
      ok = True
  if not ok and any(_const_str(n) == nothing for n in ast.walk(rt)):
    raise AnalysisError(
        f"resolve_type mentions {nothing!r} but not as "
        "`if name == <lit>: return pytd.NothingType()`")
  ctx.check(ok, "spelling:nothing", DEFS, rt.lineno,
            f"printer spells NothingType as {nothing!r}; "
            "Definitions.resolve_type must map that name to pytd.NothingType()",
            {"printer": nothing})
  # return position: Never
  vs = pmod.func("PrintVisitor.VisitSignature")
  alias = cmp_lit = None
  for n in walk_no_nested(vs):
    if isinstance(n, ast.If) and isinstance(n.test, ast.Compare) and \
        dotted(n.test.left) == "node.return_type" and \
        isinstance(n.test.ops[0], ast.Eq):
      for st in n.body:
        if isinstance(st, ast.Assign) and dotted(st.targets[0]) == "return_type" \
            and isinstance(st.value, ast.Call) and \
            dotted(st.value.func) == "self._FromTyping":
          alias = _const_str(st.value.args[0])
          cmp_lit = _const_str(n.test.comparators[0])
  if alias is None:
    raise AnalysisError("VisitSignature: return-type alias arm not found")
  tn = stub_toplevel(ctx, TYPING)
  val = tn.get(alias)
  for _ in range(5):  # NoReturn-style alias chains
    if isinstance(val, ast.Name) and val.id != nothing and \
        isinstance(tn.get(val.id), ast.Name):
      val = tn[val.id]
  ok = cmp_lit == nothing and isinstance(val, ast.Name) and val.id == nothing
  ctx.check(ok, f"spelling:{alias}", PRINTER, vs.lineno,
            f"a {cmp_lit!r} return type is printed as typing.{alias}; typing.pytd "
            f"must define `{alias} = {nothing}` and the printer must test the "
            f"NothingType spelling {nothing!r}",
            {"alias": alias, "tested": cmp_lit,
             "typing.pytd": src(val) if isinstance(val, ast.AST) else None})
  # NoneType <-> None
  vnt = pmod.func("PrintVisitor.VisitNamedType")
  none_name = None
  for n in walk_no_nested(vnt):
    if isinstance(n, ast.If) and isinstance(n.test, ast.Compare) and \
        isinstance(n.test.ops[0], ast.Eq) and \
        isinstance(n.body[-1], ast.Return) and \
        _const_str(n.body[-1].value) == "None":
      none_name = _const_str(n.test.comparators[0])
  if none_name is None:
    raise AnalysisError("VisitNamedType: `None` abbreviation arm not found")
  amod = get_module(ctx, PARSER)
  vp = amod.func("_AnnotationVisitor.visit_Pyval")
  got = None
  for n in walk_no_nested(vp):
    if isinstance(n, ast.If) and isinstance(n.test, ast.Compare) and \
        dotted(n.test.left) == "node.type" and isinstance(n.test.ops[0], ast.Eq) \
        and isinstance(n.body[-1], ast.Return) and \
        isinstance(n.body[-1].value, ast.Call) and \
        dotted(n.body[-1].value.func) == "pytd.NamedType":
      got = (_const_str(n.test.comparators[0]),
             _const_str(n.body[-1].value.args[0]))
      break
  host = type(None).__name__
  if got is None and any(_const_str(n) == host for n in ast.walk(vp)):
    raise AnalysisError(
        f"visit_Pyval mentions {host!r} but not as "
        "`if node.type == <lit>: return pytd.NamedType(<lit>)`")
  ctx.check(got == (host, none_name), "spelling:None", PARSER, vp.lineno,
            f"printer abbreviates {none_name!r} to None; the parser must turn "
            f"the constant None (Pyval type {host!r}) into "
            f"NamedType({none_name!r}); found {got}",
            {"printer": none_name, "parser": got, "host": host})


@rule("R5.6", "C05", floor=2)
def r5_6(ctx):
  """The names for which the reader infers a method kind without a decorator
  are exactly the names for which the printer omits that kind's decorator."""
  decs = printer_decorators(ctx)
  kinds = reader_kinds(ctx)
  printer = {}   # kind -> (spelling, line, exempt names)
  for d in decs:
    if d["why"][0] != "kind":
      continue
    _, k, exempt = d["why"]
    if k in printer:
      raise AnalysisError(f"VisitFunction: two decorator arms for MethodKind.{k}")
    printer[k] = (d["spelling"], d["line"], set(exempt))
  reader = {k: set(v) for k, v in kinds["implicit"].items() if v}
  if not any(p[2] for p in printer.values()) and not reader:
    raise AnalysisError("neither VisitFunction nor merge_method_signatures "
                        "treats any method name specially any more")
  for k in sorted(set(reader) - set(printer)):
    raise AnalysisError(
        f"merge_method_signatures infers MethodKind.{k} from the name for "
        f"{sorted(reader[k])} but VisitFunction has no decorator arm for {k}")
  for k in sorted(printer):
    sp, line, exempt = printer[k]
    imp = reader.get(k, set())
    for name in sorted(exempt | imp):
      facts = {"kind": k, "printer_exempt": sorted(exempt),
               "reader_implicit": sorted(imp)}
      if name in exempt and name not in imp:
        ctx.bad(f"implicit:{k}:{name}", PRINTER, line,
                f"printer omits @{sp} on {name!r} but "
                f"merge_method_signatures only infers MethodKind.{k} for "
                f"{sorted(imp)}: a {k} {name!r} is read back as a plain method",
                facts)
      elif name in imp and name not in exempt:
        ctx.bad(f"implicit:{k}:{name}", CODEGEN_FN, kinds["line"],
                f"merge_method_signatures makes every {name!r} a {k} from its "
                f"name alone, but the printer omits @{sp} only for "
                f"{sorted(exempt)}: an undecorated {name!r} (kind METHOD, e.g. "
                "from the inferencer) is re-read as "
                f"{k} and re-printed WITH @{sp}, so print/parse is not a "
                "fixed point", facts)
      else:
        ctx.ok(f"implicit:{k}:{name}", PRINTER, line, facts)


# -- R5.4 ------------------------------------------------------------------------

@rule("R5.4", "C05", floor=7)
def r5_4(ctx):
  """Keyword mangling f-string and un-mangling regex agree."""
  mod = get_module(ctx, PARSER)
  fwd = mod.func("_keyword_to_parseable_name")
  back = mod.func("_parseable_name_to_real_name")
  rets = [n for n in walk_no_nested(fwd) if isinstance(n, ast.Return)]
  if len(rets) != 1 or not isinstance(rets[0].value, ast.JoinedStr):
    raise AnalysisError("_keyword_to_parseable_name: f-string return not found")
  vals = rets[0].value.values
  param = fwd.args.args[0].arg
  fmt = [v for v in vals if isinstance(v, ast.FormattedValue)]
  if len(fmt) != 1 or dotted(fmt[0].value) != param or fmt[0].format_spec \
      or fmt[0].conversion != -1:
    raise AnalysisError("_keyword_to_parseable_name: template not understood")
  i = vals.index(fmt[0])
  prefix = "".join(str(v.value) for v in vals[:i])
  suffix = "".join(str(v.value) for v in vals[i + 1:])
  # regex
  rcalls = [c for c in calls_in(back) if (dotted(c.func) or "").startswith("re.")]
  if len(rcalls) != 1 or len(rcalls[0].args) != 2:
    raise AnalysisError("_parseable_name_to_real_name: re call not found")
  how = dotted(rcalls[0].func).split(".", 1)[1]
  if how not in ("fullmatch", "match", "search"):
    raise AnalysisError(f"_parseable_name_to_real_name: re.{how} not understood")
  pat = _const_str(rcalls[0].args[0])
  if pat is None:
    raise AnalysisError("_parseable_name_to_real_name: pattern not literal")
  try:
    parsed = _sre_parser.parse(pat)
  except re.error as e:
    raise AnalysisError(f"pattern {pat!r} does not parse: {e}") from e
  items = list(parsed)
  LIT = _sre_parser.LITERAL
  def lits(seq):
    out = ""
    for op, av in seq:
      if op is not LIT:
        break
      out += chr(av)
    return out
  rx_prefix = lits(items)
  rx_suffix = lits(reversed(items))[::-1]
  middle = items[len(rx_prefix):len(items) - len(rx_suffix)]
  groups = [g for g in calls_in(back) if isinstance(g.func, ast.Attribute)
            and g.func.attr == "group" and g.args]
  if len(groups) != 1:
    raise AnalysisError("_parseable_name_to_real_name: m.group(..) not found")
  gname = try_fold(groups[0].args[0])
  facts = {"template": f"{prefix}{{kw}}{suffix}", "pattern": pat, "re": how,
           "regex_prefix": rx_prefix, "regex_suffix": rx_suffix, "group": gname}
  ctx.check(prefix == rx_prefix, "mangle:prefix", PARSER, back.lineno,
            f"mangling writes prefix {prefix!r}, the regex expects {rx_prefix!r}",
            facts)
  ctx.check(suffix == rx_suffix, "mangle:suffix", PARSER, back.lineno,
            f"mangling writes suffix {suffix!r}, the regex expects {rx_suffix!r}",
            facts)
  gd = parsed.state.groupdict
  gindex = gd.get(gname) if isinstance(gname, str) else gname
  ok = (len(middle) == 1 and middle[0][0] is _sre_parser.SUBPATTERN
        and gindex is not None and gindex == middle[0][1][0])
  ctx.check(ok, "mangle:group", PARSER, back.lineno,
            f"the text between prefix and suffix must be exactly the group "
            f"that is returned (group {gname!r}, groups {dict(gd)})", facts)
  # semantic round trip over the host keyword list
  bad = []
  try:
    rx = re.compile(pat)
    for kw in _keyword.kwlist:
      m = getattr(rx, how)(prefix + kw + suffix)
      got = m.group(gname) if m else prefix + kw + suffix
      if got != kw:
        bad.append((kw, got))
  except (re.error, IndexError) as e:
    bad.append(("<error>", str(e)))
  ctx.check(not bad, "mangle:roundtrip", PARSER, back.lineno,
            f"un-mangling does not invert mangling for {bad[:3]}",
            {"keywords": len(_keyword.kwlist), "failures": bad[:5], **facts})
  # call sites
  sites = {
      "_fix_src": ("_keyword_to_parseable_name", "_fix_src"),
      "visit_Name": ("_parseable_name_to_real_name",
                     "_GeneratePytdVisitor.visit_Name"),
      "enter_ClassDef": ("_parseable_name_to_real_name",
                         "_GeneratePytdVisitor.enter_ClassDef"),
  }
  for label, (callee, where) in sites.items():
    fn = mod.func(where)
    n = len(calls_in(fn, name=callee))
    ctx.check(n >= 1, f"mangle:callsite:{label}", PARSER, fn.lineno,
              f"{where} no longer calls {callee}: mangled names are not "
              "produced / not mapped back", {"calls": n})


# -- R5.5 ------------------------------------------------------------------------

def _straight_defs(fn):
  """name -> [value exprs in order] for a straight-line function body."""
  order = []
  for st in fn.body:
    if isinstance(st, ast.Expr) and isinstance(st.value, ast.Constant):
      continue
    if isinstance(st, (ast.If, ast.For, ast.While, ast.Try, ast.With, ast.Match)):
      raise AnalysisError(f"{fn.name}: not straight-line any more")
    order.append(st)
  return order


def _visit_of(call, visitor_names):
  """X if call is `X.Visit(<mod>.<V>())` with V in visitor_names else None."""
  if isinstance(call, ast.Call) and isinstance(call.func, ast.Attribute) and \
      call.func.attr == "Visit" and len(call.args) == 1 and \
      isinstance(call.args[0], ast.Call):
    d = dotted(call.args[0].func) or ""
    if d.split(".")[-1] in visitor_names:
      return call.func.value, d.split(".")[-1]
  return None


@rule("R5.5", "C05", floor=8)
def r5_5(ctx):
  """Fixpoint witness wiring."""
  pmod = get_module(ctx, PARSER)
  fn = pmod.func("canonical_pyi")
  stmts = _straight_defs(fn)
  # symbolic execution of the straight-line body: name -> list of steps
  hist = {}
  verified = set()
  ret = None
  for st in stmts:
    if isinstance(st, ast.Assign) and len(st.targets) == 1 and \
        isinstance(st.targets[0], ast.Name):
      tgt, v = st.targets[0].id, st.value
      vo = _visit_of(v, {"ClassTypeToNamedType", "CanonicalOrderingVisitor"})
      if vo and isinstance(vo[0], ast.Name):
        hist[tgt] = hist.get(vo[0].id, ["?"]) + [vo[1]]
      elif isinstance(v, ast.Call) and dotted(v.func) in ("parse_string", "parse_pyi") \
          and v.args and dotted(v.args[0]) == fn.args.args[0].arg:
        hist[tgt] = ["parse"]
      else:
        hist[tgt] = hist.get(tgt, []) + [f"?{src(v)[:40]}"]
      verified.discard(tgt)
    elif isinstance(st, ast.Expr):
      vo = _visit_of(st.value, {"VerifyVisitor"})
      if vo and isinstance(vo[0], ast.Name):
        verified.add(vo[0].id)
    elif isinstance(st, ast.Return):
      ret = st
  if ret is None or not isinstance(ret.value, ast.Call):
    raise AnalysisError("canonical_pyi: return not understood")
  printed = ret.value.args[0].id if dotted(ret.value.func) == "pytd_utils.Print" \
      and ret.value.args and isinstance(ret.value.args[0], ast.Name) else None
  chain = hist.get(printed, []) if printed else []
  ok = bool(chain) and chain[0] == "parse" and "CanonicalOrderingVisitor" in chain \
      and not any(s.startswith("?") for s in chain)
  ctx.check(ok, "canonical_pyi:parse->order->print", PARSER, ret.lineno,
            f"canonical_pyi must return pytd_utils.Print of the canonically "
            f"ordered parse of its argument; chain of the printed value: {chain}",
            {"chain": chain, "returns": src(ret.value)[:80]})
  ctx.check(printed in verified, "canonical_pyi:verify", PARSER, ret.lineno,
            "the AST that canonical_pyi prints must have been passed to "
            "VerifyVisitor after its last transformation",
            {"printed": printed, "verified": sorted(verified)})
  # pytd_utils.Print uses the PrintVisitor; CanonicalOrdering the ordering visitor
  umod = get_module(ctx, PYTD_UTILS)
  pr = umod.func("Print")
  r = [n for n in walk_no_nested(pr) if isinstance(n, ast.Return)]
  ok = len(r) == 1 and isinstance(r[0].value, ast.Call) and \
      isinstance(r[0].value.func, ast.Attribute) and r[0].value.func.attr == "Visit" \
      and dotted(r[0].value.func.value) == pr.args.args[0].arg and \
      isinstance(r[0].value.args[0], ast.Call) and \
      dotted(r[0].value.args[0].func) == "printer.PrintVisitor"
  ctx.check(ok, "pytd_utils.Print:PrintVisitor", PYTD_UTILS, pr.lineno,
            "pytd_utils.Print must visit its argument with printer.PrintVisitor",
            {"returns": src(r[0].value) if r else None})
  co = umod.func("CanonicalOrdering")
  r = [n for n in walk_no_nested(co) if isinstance(n, ast.Return)]
  vo = _visit_of(r[0].value, {"CanonicalOrderingVisitor"}) if len(r) == 1 else None
  ctx.check(bool(vo) and dotted(vo[0]) == co.args.args[0].arg,
            "pytd_utils.CanonicalOrdering", PYTD_UTILS, co.lineno,
            "CanonicalOrdering must visit its argument with "
            "CanonicalOrderingVisitor", {"returns": src(r[0].value) if r else None})
  vmod = get_module(ctx, VISITORS)
  al = dotted(vmod.assigns.get("CanonicalOrderingVisitor"))
  ctx.check(al == "pytd_visitors.CanonicalOrderingVisitor",
            "visitors.CanonicalOrderingVisitor", VISITORS, 0,
            f"visitors.CanonicalOrderingVisitor is {al}; canonical_pyi and "
            "generate_pyi_ast must order with the same visitor", {"alias": al})
  # io.generate_pyi_ast: verified and canonically ordered before it is stored
  imod = get_module(ctx, IO)
  g = imod.func("generate_pyi_ast")
  def gen(unit):
    out = []
    for n in flow.unconditional_calls(unit):
      vo = _visit_of(n, {"VerifyVisitor"})
      if vo:
        out.append("verified")
    if isinstance(unit, ast.Assign) and isinstance(unit.value, ast.Call) and \
        dotted(unit.value.func) == "pytd_utils.CanonicalOrdering" and \
        len(unit.targets) == 1 and unit.value.args and \
        dotted(unit.targets[0]) == dotted(unit.value.args[0]):
      out.append("ordered:" + dotted(unit.targets[0]))
    return out
  def kill(unit):
    if isinstance(unit, ast.Assign) and not (
        isinstance(unit.value, ast.Call)
        and dotted(unit.value.func) == "pytd_utils.CanonicalOrdering"):
      names = {dotted(t) for t in unit.targets}
      return lambda f: f.startswith("ordered:") and f.split(":", 1)[1] in names
    return None
  f = flow.flow(g, gen, kill, mode="must")
  stores = [n for n in ast.walk(g) if isinstance(n, ast.Assign)
            and dotted(n.targets[0]) == "ret.ast"]
  if len(stores) != 1:
    raise AnalysisError("generate_pyi_ast: `ret.ast = ...` store not found")
  st = f.before.get(stores[0]) or frozenset()
  stored = dotted(stores[0].value)
  ctx.check("verified" in st, "generate_pyi_ast:verify", IO, stores[0].lineno,
            "every path to `ret.ast = mod` must run VerifyVisitor on the "
            "inferred AST", {"facts": sorted(st)})
  ctx.check(f"ordered:{stored}" in st, "generate_pyi_ast:canonical-order", IO,
            stores[0].lineno,
            f"`{stored}` must be the result of pytd_utils.CanonicalOrdering "
            "when it is stored as the analysis result", {"facts": sorted(st)})
  # generate_pyi prints that AST
  gp = imod.func("generate_pyi")
  oa = imod.func("_output_ast")
  prints = [c for c in calls_in(oa, name="pytd_utils.Print")
            if c.args and dotted(c.args[0]) == oa.args.args[0].arg]
  src_ok = False
  rets = [n for n in walk_no_nested(gp) if isinstance(n, ast.Return)]
  binds = {dotted(n.targets[0]): n.value for n in walk_no_nested(gp)
           if isinstance(n, ast.Assign)}
  for r in rets:
    for c in calls_in(r, name="_output_ast"):
      a0 = dotted(c.args[0]) if c.args else None
      if a0 and a0.endswith(".ast"):
        b = binds.get(a0[:-len(".ast")])
        if isinstance(b, ast.Call) and dotted(b.func) == "generate_pyi_ast":
          src_ok = True
  ctx.check(bool(prints) and src_ok, "generate_pyi:prints-result", IO, gp.lineno,
            "generate_pyi must return pytd_utils.Print of generate_pyi_ast's "
            ".ast", {"print_calls": len(prints), "wired": src_ok})


# -- R5.7 ------------------------------------------------------------------------

def emitted_class_keywords(ctx):
  """Keyword names output.py puts into pytd.Class(keywords=...)."""
  mod = get_module(ctx, OUTPUT)
  out = {}
  for call in calls_in(mod.tree, name="pytd.Class"):
    kw = kwarg(call, "keywords")
    if kw is None:
      raise AnalysisError("output.py: pytd.Class(..) without keywords=")
    fn = mod.enclosing_function(call)
    if isinstance(kw, ast.Call) and dotted(kw.func) == "tuple" and kw.args:
      kw = kw.args[0]
    if isinstance(kw, ast.Tuple) and not kw.elts:
      continue
    var = dotted(kw)
    if var is None:
      raise AnalysisError(f"output.py: keywords={src(kw)} not understood")
    found = False
    for n in walk_no_nested(fn):
      pairs = []
      if isinstance(n, ast.Assign) and any(dotted(t) == var for t in n.targets):
        found = True
        if isinstance(n.value, (ast.Tuple, ast.List)):
          pairs = n.value.elts
        else:
          raise AnalysisError(f"output.py: {var} = {src(n.value)} not understood")
      elif isinstance(n, ast.Call) and dotted(n.func) == f"{var}.append":
        pairs = n.args
      elif isinstance(n, ast.Call) and (dotted(n.func) or "").startswith(var + "."):
        raise AnalysisError(f"output.py: {src(n.func)} on class keywords")
      for p in pairs:
        if not (isinstance(p, ast.Tuple) and len(p.elts) == 2
                and _const_str(p.elts[0]) is not None):
          raise AnalysisError(f"output.py: class keyword {src(p)} not understood")
        out.setdefault(_const_str(p.elts[0]), (fn.name, p.lineno))
    if not found:
      raise AnalysisError(f"output.py: no binding of {var} in {fn.name}")
  return out


@rule("R5.7", "C05", floor=2)
def r5_7(ctx):
  """Class keywords output.py emits are accepted by the stub reader."""
  emitted = emitted_class_keywords(ctx)
  cmod = get_module(ctx, CLASSDEF)
  fn = cmod.func("get_keywords")
  accepted = None
  for n in walk_no_nested(fn):
    if isinstance(n, ast.If) and isinstance(n.test, ast.Compare) and \
        len(n.test.ops) == 1 and isinstance(n.test.ops[0], ast.NotIn) and \
        isinstance(n.body[-1], ast.Raise):
      accepted = try_fold(n.test.comparators[0], mod=cmod)
  if not isinstance(accepted, (tuple, list, set, frozenset)):
    raise AnalysisError("classdef.get_keywords: accepted-keyword test not found")
  if not emitted:
    raise AnalysisError("output.py emits no class keywords any more")
  for k, (where, line) in sorted(emitted.items()):
    ctx.check(k in accepted, f"class-keyword:{k}", OUTPUT, line,
              f"output.py ({where}) emits class keyword {k!r}, which "
              f"classdef.get_keywords rejects (accepted: {sorted(accepted)})",
              {"emitted_in": where, "accepted": sorted(accepted)})


# -- R5.8 ------------------------------------------------------------------------

@rule("R5.8", "C05", floor=4)
def r5_8(ctx):
  """TypeVar/ParamSpec declarations the printer writes are accepted."""
  pmod = get_module(ctx, PRINTER)
  fn = pmod.func("PrintVisitor._FormatTypeParams")
  kws = {}
  for n in walk_no_nested(fn):
    if isinstance(n, ast.JoinedStr) and n.values and \
        isinstance(n.values[0], ast.Constant):
      m = re.fullmatch(r"([A-Za-z_]\w*)=\[?", str(n.values[0].value))
      if m:
        kws.setdefault(m.group(1), n.lineno)
  if not kws:
    raise AnalysisError("_FormatTypeParams: no keyword arguments found")
  amod = get_module(ctx, PARSER)
  fc = amod.func("_TypeVariable.from_call")
  accepted = None
  for n in walk_no_nested(fc):
    if isinstance(n, ast.Assign) and isinstance(n.value, ast.BinOp) and \
        isinstance(n.value.op, ast.Sub) and isinstance(n.value.right, ast.Set):
      accepted = try_fold(n.value.right)
  if not isinstance(accepted, set):
    raise AnalysisError("_TypeVariable.from_call: accepted keyword set not found")
  for k, line in sorted(kws.items()):
    ctx.check(k in accepted, f"typevar-keyword:{k}", PRINTER, line,
              f"printer writes {k}= in a TypeVar/ParamSpec declaration; "
              f"_TypeVariable.from_call rejects it (accepted {sorted(accepted)})",
              {"accepted": sorted(accepted)})
  # constructor names
  ctors = {}
  for c in _self_calls(fn, "_LookupTypingMember"):
    lit = _const_str(c.args[0]) if c.args else None
    if lit is None:
      raise AnalysisError("_FormatTypeParams: constructor name not literal")
    g = flow.guards(pmod.parent, pmod.enclosing_stmt(c), stop=fn)
    is_ps = [p for t, p in g if src(t) == "isinstance(t, pytd.ParamSpec)"]
    if len(is_ps) != 1:
      raise AnalysisError("_FormatTypeParams: constructor guard not understood")
    ctors[lit] = ("ParamSpec" if is_ps[0] else "TypeParameter", c.lineno)
  vc = amod.func("_GeneratePytdVisitor.visit_Call")
  kinds = None
  for n in walk_no_nested(vc):
    if isinstance(n, ast.For) and dotted(n.target) == "tvar_kind":
      kinds = try_fold(n.iter)
  if not isinstance(kinds, (tuple, list)):
    raise AnalysisError("visit_Call: tvar_kind loop not found")
  dmod = get_module(ctx, DEFS)
  atv = dmod.func("Definitions.add_type_variable")
  kind_to_cls = {}
  for n in walk_no_nested(atv):
    if isinstance(n, ast.If) and isinstance(n.test, ast.Compare) and \
        dotted(n.test.left) == "tvar.kind" and isinstance(n.test.ops[0], ast.Eq):
      arms, els = if_chain(n)
      for test, body in arms:
        lit = _const_str(test.comparators[0]) if isinstance(test, ast.Compare) else None
        for s in body:
          if isinstance(s, ast.Assign) and dotted(s.targets[0]) == "pytd_type":
            kind_to_cls[lit] = (dotted(s.value) or "").replace("pytd.", "")
      for s in els:
        if isinstance(s, ast.Assert) and isinstance(s.test, ast.Compare) and \
            dotted(s.test.left) == "tvar.kind":
          lit = _const_str(s.test.comparators[0])
          for s2 in els:
            if isinstance(s2, ast.Assign) and dotted(s2.targets[0]) == "pytd_type":
              kind_to_cls[lit] = (dotted(s2.value) or "").replace("pytd.", "")
      break
  if not kind_to_cls:
    raise AnalysisError("add_type_variable: kind dispatch not understood")
  for lit, (cls, line) in sorted(ctors.items()):
    ok = lit in kinds and kind_to_cls.get(lit) == cls
    ctx.check(ok, f"typevar-ctor:{lit}", PRINTER, line,
              f"printer declares a pytd.{cls} with {lit}(...); the parser "
              f"recognises {list(kinds)} and builds {kind_to_cls}",
              {"parser_kinds": list(kinds), "kind_to_class": kind_to_cls})


# -- R5.9 ------------------------------------------------------------------------

def _root_name(node):
  while isinstance(node, (ast.Subscript, ast.Attribute, ast.Call)):
    node = node.func if isinstance(node, ast.Call) else node.value
  return node.id if isinstance(node, ast.Name) else None


@rule("R5.9", "C05", floor=6)
def r5_9(ctx):
  """Printer decisions taken on already-printed child text are content-safe.

  Inside Visit* methods the fields of `node` are the *printed strings* of the
  children.  (i) Tuple-unpacking an unbounded str.split of such text raises
  ValueError as soon as the text contains the separator once more (type text
  may: Literal strings, Annotated metadata).  (ii) VisitCallableType must pick
  the unbracketed `Callable[Concatenate[..], R]` / `Callable[P, R]` forms by
  node kind or exact name, not by a substring of the first argument's text.
  """
  pmod = get_module(ctx, PRINTER)
  n = 0
  for st in ast.walk(pmod.tree):
    if not (isinstance(st, ast.Assign) and len(st.targets) == 1
            and isinstance(st.targets[0], ast.Tuple)
            and isinstance(st.value, ast.Call)
            and isinstance(st.value.func, ast.Attribute)
            and st.value.func.attr in ("split", "rsplit")):
      continue
    call = st.value
    k = len(st.targets[0].elts)
    if any(isinstance(e, ast.Starred) for e in st.targets[0].elts):
      continue  # a starred target absorbs any number of fields
    ms = call.args[1] if len(call.args) > 1 else kwarg(call, "maxsplit")
    bound = try_fold(ms) if ms is not None else None
    fn = pmod.enclosing_function(st)
    n += 1
    ctx.check(bound == k - 1,
              f"unpack-split:{getattr(fn, 'name', '<module>')}:{src(call.func.value)}",
              PRINTER, st.lineno,
              f"`{src(st)}` unpacks {k} fields from an unbounded "
              f"{call.func.attr}: the text may contain the separator more than "
              f"{'once' if k == 2 else str(k - 1) + ' times'} (printed types can "
              "contain any literal text), which raises ValueError",
              {"fields": k, "maxsplit": bound, "separator": try_fold(call.args[0])
               if call.args else None})
  if n == 0:
    raise AnalysisError("printer.py: no tuple-unpacked split calls found")
  fn = pmod.func("PrintVisitor.VisitCallableType")
  heads = [x for x in fn.body if isinstance(x, ast.If)]
  if len(heads) != 1:
    raise AnalysisError("VisitCallableType: if/elif chain not found")
  arms, _ = if_chain(heads[0])
  seen = set()
  for test, _body in arms:
    text = src(test)
    if "_paramspec_names" in text:
      label = "paramspec-form"
    elif "Concatenate" in text:
      label = "concatenate-form"
    else:
      raise AnalysisError(f"VisitCallableType: arm `{text}` not understood")
    if label in seen:
      raise AnalysisError(f"VisitCallableType: two {label} arms")
    seen.add(label)
    unsafe, safe = [], []
    for c in ast.walk(test):
      if isinstance(c, ast.Compare) and any(isinstance(o, (ast.In, ast.NotIn))
                                            for o in c.ops):
        if len(c.ops) != 1:
          raise AnalysisError(f"VisitCallableType: chained `in`: {src(c)}")
        right = c.comparators[0]
        if _root_name(right) == "node":
          unsafe.append(src(c))   # substring of a printed child
        else:
          safe.append(src(c))     # membership in a set of names
      elif isinstance(c, ast.Call) and isinstance(c.func, ast.Attribute) and \
          _root_name(c.func.value) == "node" and \
          c.func.attr in ("startswith", "endswith", "find", "index", "count"):
        raise AnalysisError(
            f"VisitCallableType: text predicate {src(c)} not understood")
      elif isinstance(c, ast.Call) and (dotted(c.func) or "").startswith("re."):
        raise AnalysisError(
            f"VisitCallableType: regex predicate {src(c)} not understood")
      elif isinstance(c, ast.Call) and dotted(c.func) == "isinstance":
        safe.append(src(c))
    ctx.check(not unsafe and bool(safe), f"VisitCallableType:{label}", PRINTER,
              test.lineno,
              f"the {label} of Callable is chosen by a substring test on the "
              f"printed first argument ({unsafe}): any type whose text contains "
              "that substring (a class named ...Concatenate..., a Literal "
              "string) is printed without the argument-list brackets",
              {"unsafe": unsafe, "safe": safe})
  if seen != {"paramspec-form", "concatenate-form"}:
    raise AnalysisError(f"VisitCallableType: arms {sorted(seen)}")


# -- R5.10 -----------------------------------------------------------------------

def _mentions(expr, tainted):
  for n in ast.walk(expr):
    if isinstance(n, ast.Name) and n.id in tainted:
      return True
    if isinstance(n, ast.Attribute) and dotted(n) == "node.keywords":
      return True
  return False


@rule("R5.10", "C05", floor=1)
def r5_10(ctx):
  """The functional TypedDict form keeps the class keywords output.py emits.

  VisitClass prints a TypedDict whose keys are not identifiers as
  `X = TypedDict('X', {...})`; the reader accepts `total=` there
  (Definitions.new_typed_dict) and output._typed_dict_to_def emits it, so the
  functional form has to print node.keywords as the class form does.
  """
  emitted = {k: v for k, v in emitted_class_keywords(ctx).items()
             if v[0] == "_typed_dict_to_def"}
  if not emitted:
    raise AnalysisError("output._typed_dict_to_def emits no class keywords")
  dmod = get_module(ctx, DEFS)
  ntd = dmod.func("Definitions.new_typed_dict")
  reader_kws = set()
  for c in ast.walk(ntd):
    if isinstance(c, ast.Compare) and dotted(c.left) == "k.arg" and len(c.ops) == 1:
      v = try_fold(c.comparators[0])
      if isinstance(c.ops[0], ast.NotEq) and isinstance(v, str):
        reader_kws.add(v)
      elif isinstance(c.ops[0], ast.NotIn) and isinstance(v, (tuple, list, set)):
        reader_kws |= set(v)
  if not reader_kws:
    raise AnalysisError("new_typed_dict: accepted keyword test not understood")
  pmod = get_module(ctx, PRINTER)
  fn = pmod.func("PrintVisitor.VisitClass")
  rets = [n for n in walk_no_nested(fn) if isinstance(n, ast.Return)
          and isinstance(n.value, ast.JoinedStr)
          and any("TypedDict(" in str(v.value) for v in n.value.values
                  if isinstance(v, ast.Constant))]
  if len(rets) != 1:
    raise AnalysisError("VisitClass: functional TypedDict return not found")
  tainted, changed = set(), True
  while changed:
    changed = False
    for n in walk_no_nested(fn):
      new = []
      if isinstance(n, (ast.Assign, ast.AugAssign)) and _mentions(n.value, tainted):
        tg = n.targets if isinstance(n, ast.Assign) else [n.target]
        new = [x.id for t in tg for x in ast.walk(t) if isinstance(x, ast.Name)]
      elif isinstance(n, ast.For) and _mentions(n.iter, tainted):
        new = [x.id for x in ast.walk(n.target) if isinstance(x, ast.Name)]
      elif isinstance(n, ast.Call) and isinstance(n.func, ast.Attribute) and \
          n.func.attr in ("append", "extend") and \
          isinstance(n.func.value, ast.Name) and \
          any(_mentions(a, tainted) for a in n.args):
        new = [n.func.value.id]
      for x in new:
        if x not in tainted:
          tainted.add(x)
          changed = True
  prints_kw = _mentions(rets[0].value, tainted)
  for k, (where, line) in sorted(emitted.items()):
    if k not in reader_kws:
      continue  # rejected by the reader anyway: R5.7's business
    ctx.check(prints_kw, f"functional-typeddict:keyword:{k}", PRINTER,
              rets[0].lineno,
              f"output.{where} emits the class keyword {k!r} and the reader "
              f"accepts it in TypedDict(name, fields, {k}=...), but the "
              "functional form printed by VisitClass does not include "
              "node.keywords: the keyword is lost (and its Literal import is "
              "left behind)",
              {"reader_accepts": sorted(reader_kws),
               "return": src(rets[0].value)[:80]})


# -- sensitivity suite ---------------------------------------------------------------

# -- R5.12 negative-length slices ---------------------------------------------------

_NEG_SLICE_TRIAGED = {
    # (file, function, slice text): reason the length cannot be zero
    ("pytype/tools/analyze_project/pytype_runner.py", "resolved_file_to_module",
     "full_path[:-len(target)]"):
        "target is importlab's short_path of a resolved file: never empty",
    ("pytype/tools/analyze_project/pytype_runner.py", "_module_to_output_path",
     "path[-len(mod.name):]"):
        "guarded by path...endswith(mod.name); module names are non-empty",
}


def _neg_len_slices(mod):
  """(node, which bound, X) for every `a[:-len(X)]` / `a[-len(X):]`."""
  for n in ast.walk(mod.tree):
    if isinstance(n, ast.Subscript) and isinstance(n.slice, ast.Slice):
      for part, which in ((n.slice.lower, "lower"), (n.slice.upper, "upper")):
        if isinstance(part, ast.UnaryOp) and isinstance(part.op, ast.USub) and \
            isinstance(part.operand, ast.Call) and dotted(part.operand.func) == "len" \
            and len(part.operand.args) == 1:
          yield n, which, part.operand.args[0]


def _qualname(mod, node):
  names = []
  while node in mod.parent:
    node = mod.parent[node]
    if isinstance(node, (ast.FunctionDef, ast.AsyncFunctionDef, ast.ClassDef)):
      names.append(node.name)
  return ".".join(reversed(names)) or "<module>"


def _nonempty_guarded(mod, node, x):
  """The slice is only evaluated when X is non-empty."""
  xs = src(x)
  truthy = {xs, f"len({xs})", f"len({xs}) > 0", f"len({xs}) >= 1", f"len({xs}) != 0"}
  st = mod.enclosing_stmt(node)
  if any(p and t in truthy for t, p in flow.guards_txt(mod.parent, st)):
    return "guard"
  cur = node
  while cur in mod.parent and cur is not st:
    par = mod.parent[cur]
    if isinstance(par, ast.IfExp) and cur is par.body and src(par.test) in truthy:
      return "conditional-expression"
    if isinstance(par, ast.BoolOp) and isinstance(par.op, ast.And) and \
        any(src(v) in truthy for v in par.values[:par.values.index(cur)] if v is not cur):
      return "and-guard"
    cur = par
  return None


def _neg_slice_scan(ctx, files, tag):
  n = 0
  for rel in files:
    text = ctx.read(rel)
    if "-len(" not in text.replace(" ", ""):
      continue
    mod = get_module(ctx, rel)
    for node, which, x in _neg_len_slices(mod):
      n += 1
      fn = _qualname(mod, node)
      key = f"{rel}:{fn}:{src(node)}"
      how = _nonempty_guarded(mod, node, x)
      par = mod.parent.get(node)
      if how is None and which == "lower" and isinstance(par, ast.Call) and \
          dotted(par.func) == "zip" and any(src(a) == src(x) for a in par.args if a is not node):
        how = "zip-truncation"      # a[-len(X):] zipped with X: empty X yields nothing
      if how is None and (rel, fn.split(".")[-1], src(node)) in _NEG_SLICE_TRIAGED:
        how = "triaged: " + _NEG_SLICE_TRIAGED[(rel, fn.split(".")[-1], src(node))]
      ctx.check(how is not None, key, rel, node.lineno,
                f"`{src(node)}`: when `{src(x)}` is empty the bound is -0 == 0, "
                f"so the slice is {'empty' if which == 'upper' else 'the whole sequence'} "
                f"instead of {'the whole sequence' if which == 'upper' else 'empty'}; "
                "nothing on the path establishes that it is non-empty",
                {"bound": which, "discharged_by": how})
  return n


_NEG_SLICE_QUICK = [
    "pytype/pyi/function.py", "pytype/pyi/parser.py", "pytype/pyi/definitions.py",
    "pytype/pyi/classdef.py", "pytype/pytd/printer.py", "pytype/pytd/visitors.py",
    "pytype/pytd/pytd_utils.py", "pytype/load_pytd.py", "pytype/output.py",
    "pytype/convert.py", "pytype/state.py", "pytype/abstract/_function_base.py",
    "pytype/abstract/_interpreter_function.py",
    "pytype/tools/analyze_project/pytype_runner.py",
]


@rule("R5.12", "C05", floor=5)
def r5_12(ctx):
  """No slice bound `-len(X)` unless X is known non-empty (the `[:-0]` trap).

  Stub signatures are rebuilt from parallel lists (parameters / defaults); a
  bound of the form -len(X) silently selects the wrong elements when X is
  empty.  Accepted: a path condition / conditional expression establishing
  X's truthiness, the zip-truncation idiom, or a triaged site.
  """
  files = _NEG_SLICE_QUICK
  if ctx.tier == "thorough":
    from sa.pyindex import all_py_files
    files = [f for f in all_py_files(ctx) if not f.endswith("_test.py")
             and "/tests/" not in f]
  _neg_slice_scan(ctx, files, "q")


# -- R5.13 class body vs. the ` ...` suffix -----------------------------------------

# three-valued formulas over "atoms" (truthiness of an expression the method
# does not compute itself, e.g. node.classes): True / False / None (unknown)
def _f_eval(f, asg):
  k = f[0]
  if k == "const":
    return f[1]
  if k == "atom":
    return asg.get(f[1])
  if k == "unk":
    return None
  if k == "not":
    v = _f_eval(f[1], asg)
    return None if v is None else not v
  vs = [_f_eval(x, asg) for x in f[1]]
  if k == "or":
    return True if any(v is True for v in vs) else (None if any(v is None for v in vs) else False)
  return False if any(v is False for v in vs) else (None if any(v is None for v in vs) else True)


def _f_atoms(f, out):
  if f[0] == "atom":
    out.add(f[1])
    out.add(f[1].removesuffix(" is not None"))
  elif f[0] == "unk":
    out |= f[1]
  elif f[0] == "not":
    _f_atoms(f[1], out)
  elif f[0] in ("or", "and"):
    for x in f[1]:
      _f_atoms(x, out)
  return out


_UNK = ("unk", frozenset())


def _f_leaves(fs):
  out, todo = [], list(fs)
  while todo:
    f = todo.pop()
    if f[0] in ("atom", "unk", "const"):
      out.append(f)
    elif f[0] == "not":
      todo.append(f[1])
    else:
      todo.extend(f[1])
  return out


def _unk(e, env):
  """Unknown value; remembers the atoms `e` depends on (to tell whether an
  opaque test can be correlated with the class members at all)."""
  about = set()
  for n in ast.walk(e):
    if isinstance(n, ast.Name):
      about.add("local:" + n.id)
      if n.id in env:
        _f_atoms(env[n.id], about)
    elif isinstance(n, ast.Attribute) and dotted(n):
      about.add(dotted(n))
  return ("unk", frozenset(about))


def _nonempty(e, env):
  """Formula for 'the sequence `e` evaluates to is non-empty' (env: local -> formula)."""
  if isinstance(e, (ast.List, ast.Tuple)):
    if any(isinstance(x, ast.Starred) for x in e.elts):
      return _unk(e, env)
    return ("const", bool(e.elts))
  if isinstance(e, (ast.ListComp, ast.GeneratorExp)):
    g = e.generators
    # later generators may only split an earlier element into its lines
    # (every printed member has >= 1 line)
    inner_ok = all(isinstance(x.iter, ast.Call) and isinstance(x.iter.func, ast.Attribute)
                   and x.iter.func.attr == "splitlines" and dotted(x.iter.func.value) in
                   {dotted(y.target) for y in g[:i + 1]} for i, x in enumerate(g[1:]))
    if any(x.ifs for x in g) or not inner_ok:
      return _unk(e, env)
    return _nonempty(g[0].iter, env)
  if isinstance(e, ast.BinOp) and isinstance(e.op, ast.Add):
    return ("or", [_nonempty(e.left, env), _nonempty(e.right, env)])
  if isinstance(e, ast.IfExp):
    t = _truth(e.test, env)
    return ("or", [("and", [t, _nonempty(e.body, env)]), ("and", [("not", t), _nonempty(e.orelse, env)])])
  if isinstance(e, ast.Call) and not e.keywords:
    d = dotted(e.func)
    if d in ("list", "tuple", "sorted") and len(e.args) == 1:
      return _nonempty(e.args[0], env)
    # sum((m.splitlines() for m in X), []): every printed member has >= 1 line
    if d == "sum" and len(e.args) == 2 and isinstance(e.args[1], ast.List) and not e.args[1].elts:
      return _nonempty(e.args[0], env)
    return _unk(e, env)
  if isinstance(e, ast.Name):
    return env[e.id] if e.id in env else _unk(e, env)
  if isinstance(e, ast.Attribute) and dotted(e):
    return ("atom", dotted(e))
  return _unk(e, env)


def _truth(t, env):
  """Formula for the truth value of test `t`."""
  if isinstance(t, ast.BoolOp):
    return ("and" if isinstance(t.op, ast.And) else "or", [_truth(v, env) for v in t.values])
  if isinstance(t, ast.UnaryOp) and isinstance(t.op, ast.Not):
    return ("not", _truth(t.operand, env))
  if isinstance(t, ast.Compare) and len(t.ops) == 1 and isinstance(t.ops[0], (ast.Is, ast.IsNot)) \
      and isinstance(t.comparators[0], ast.Constant) and t.comparators[0].value is None and dotted(t.left):
    a = ("atom", f"{dotted(t.left)} is not None")
    return a if isinstance(t.ops[0], ast.IsNot) else ("not", a)
  if isinstance(t, ast.Constant):
    return ("const", bool(t.value))
  if isinstance(t, ast.Call) and dotted(t.func) in ("len", "bool") and len(t.args) == 1 and not t.keywords:
    return _nonempty(t.args[0], env)
  if isinstance(t, ast.Compare) and len(t.ops) == 1:
    a, op, b = t.left, t.ops[0], t.comparators[0]
    if isinstance(a, ast.Call) and dotted(a.func) == "len" and len(a.args) == 1 and isinstance(b, ast.Constant):
      f = _nonempty(a.args[0], env)
      key = (type(op).__name__, b.value)
      if key in (("Eq", 0), ("Lt", 1), ("LtE", 0)):
        return ("not", f)
      if key in (("NotEq", 0), ("Gt", 0), ("GtE", 1)):
        return f
    if isinstance(b, (ast.List, ast.Tuple)) and not b.elts and isinstance(op, (ast.Eq, ast.NotEq)):
      f = _nonempty(a, env)
      return ("not", f) if isinstance(op, ast.Eq) else f
    return _unk(t, env)
  if isinstance(t, (ast.Name, ast.Attribute, ast.List, ast.Tuple, ast.ListComp, ast.BinOp)):
    return _nonempty(t, env)
  return _unk(t, env)


def _names_stored(node):
  return {n.id for n in ast.walk(node) if isinstance(n, ast.Name) and not isinstance(n.ctx, ast.Load)}


def _is_ellipsis_suffix(st):
  """`<header>[-1] += " ..."`-style statement -> name of the header list, else None."""
  if isinstance(st, ast.AugAssign) and isinstance(st.op, ast.Add) and isinstance(st.target, ast.Subscript) \
      and isinstance(st.target.value, ast.Name) and (_const_str(st.value) or "").strip() == "...":
    return st.target.value.id
  return None


def _class_paths(block, state):
  """Symbolic paths through a Visit method: yields (return node, state).

  state = {"conds": [(formula, polarity)], "env": {local: formula}, "terms":
  {local: [(term text, formula)]} for locals bound to a `+` chain, "dots":
  set of header lists that got the " ..." suffix}.  Loops are not unrolled:
  every local they bind becomes unknown.
  """
  if not block:
    yield None, state
    return
  st, rest = block[0], block[1:]
  if isinstance(st, ast.If):
    f = _truth(st.test, state["env"])
    for pol, sub in ((True, st.body), (False, st.orelse)):
      s2 = {"conds": state["conds"] + [(f, pol)], "env": dict(state["env"]),
            "terms": dict(state["terms"]), "dots": set(state["dots"])}
      for ret, s3 in _class_paths(sub, s2):
        if ret is None:
          yield from _class_paths(rest, s3)
        else:
          yield ret, s3
    return
  if isinstance(st, ast.Return):
    yield st, state
    return
  if isinstance(st, ast.Raise):
    return
  if isinstance(st, (ast.For, ast.While)):
    if any(_is_ellipsis_suffix(n) for n in ast.walk(st)):
      raise AnalysisError("the ' ...' suffix is added inside a loop")
    for n in _names_stored(st):
      state["env"][n] = _UNK
      state["terms"].pop(n, None)
    for c in calls_in(st):
      if isinstance(c.func, ast.Attribute) and isinstance(c.func.value, ast.Name):
        state["env"][c.func.value.id] = _UNK
    yield from _class_paths(rest, state)
    return
  if isinstance(st, (ast.Assign, ast.AnnAssign)) and st.value is not None:
    tg = st.targets if isinstance(st, ast.Assign) else [st.target]
    f = _nonempty(st.value, state["env"])
    terms = []
    def flat(e):
      if isinstance(e, ast.BinOp) and isinstance(e.op, ast.Add):
        flat(e.left)
        flat(e.right)
      elif isinstance(e, ast.Name) and e.id in state["terms"]:
        terms.extend(state["terms"][e.id])
      else:
        terms.append((src(e), _nonempty(e, state["env"])))
    flat(st.value)
    for t in tg:
      if isinstance(t, ast.Name):
        state["env"][t.id] = f
        if isinstance(st.value, ast.BinOp) and isinstance(st.value.op, ast.Add):
          state["terms"][t.id] = terms
        else:
          state["terms"].pop(t.id, None)
      else:
        for n in _names_stored(t):
          state["env"][n] = _UNK
          state["terms"].pop(n, None)
  elif isinstance(st, ast.AugAssign):
    h = _is_ellipsis_suffix(st)
    if h:
      state["dots"].add(h)
    elif isinstance(st.target, ast.Name):
      if isinstance(st.op, ast.Add):
        old = state["env"].get(st.target.id, _UNK)
        state["env"][st.target.id] = ("or", [old, _nonempty(st.value, state["env"])])
      else:
        state["env"][st.target.id] = _UNK
      state["terms"].pop(st.target.id, None)
  elif isinstance(st, ast.Expr):
    for c in calls_in(st):
      if isinstance(c.func, ast.Attribute) and isinstance(c.func.value, ast.Name) \
          and c.func.value.id in state["env"]:
        state["env"][c.func.value.id] = _UNK
        state["terms"].pop(c.func.value.id, None)
  elif not isinstance(st, (ast.Pass, ast.Assert, ast.AnnAssign)):
    raise AnalysisError(f"class-body analysis: unsupported statement {type(st).__name__}")
  yield from _class_paths(rest, state)


@rule("R5.13", "C05", floor=5)
def r5_13(ctx):
  """`class X: ...` is printed exactly when no line is emitted into the class body.

  VisitClass returns "\n".join(<decorators> + <header> + <body segments>);
  the header gets the " ..." suffix on some paths.  For every path and every
  truth assignment of the member fields (node.classes, node.methods,
  node.constants, node.slots) consistent with the path condition: the suffix
  is present iff every body segment is empty.  Suffix with a non-empty segment
  prints `class X: ...` followed by an indented block (a parse error); no
  suffix with an empty body prints `class X:` with nothing under it.
  """
  import itertools
  pmod = get_module(ctx, PRINTER)
  fn = pmod.func("PrintVisitor.VisitClass")
  headers = {h for h in (_is_ellipsis_suffix(n) for n in walk_no_nested(fn)) if h}
  if len(headers) != 1:
    raise AnalysisError(
        f"VisitClass: expected one header list that gets the ' ...' suffix, found {sorted(headers)}")
  header = headers.pop()
  init = {"conds": [], "env": {}, "terms": {}, "dots": set()}
  node = fn.args.args[1].arg
  witnesses, bare_empty, undecided, members, segs, n_paths = [], [], set(), set(), set(), 0
  for ret, st in _class_paths(fn.body, init):
    if ret is None or ret.value is None:
      raise AnalysisError("VisitClass: a path ends without returning text")
    joins = [c for c in calls_in(ret.value) if isinstance(c.func, ast.Attribute) and c.func.attr == "join"
             and _const_str(c.func.value) == "\n" and len(c.args) == 1]
    if not joins:
      continue      # not the class form (functional TypedDict)
    arg = joins[0].args[0]
    if isinstance(arg, ast.Name) and arg.id in st["terms"]:
      terms = st["terms"][arg.id]
    else:
      tmp = {"conds": [], "env": st["env"], "terms": dict(st["terms"]), "dots": set()}
      list(_class_paths([ast.Assign(targets=[ast.Name(id="<lines>", ctx=ast.Store())], value=arg)], tmp))
      terms = tmp["terms"].get("<lines>") or [(src(arg), _nonempty(arg, st["env"]))]
    names = [t for t, _ in terms]
    if names.count(header) != 1:
      raise AnalysisError(f"VisitClass: header list `{header}` is not a term of the joined lines {names}")
    body = terms[names.index(header) + 1:]
    if not body:
      raise AnalysisError("VisitClass: nothing is emitted after the class header")
    n_paths += 1
    segs |= {t for t, _ in body}
    dots = header in st["dots"]
    about_body = set()
    for t, f in body:
      _f_atoms(f, about_body)
      if t.isidentifier():
        about_body.add("local:" + t)
    forms = [f for f, _ in st["conds"]] + [f for _, f in body]
    atoms = sorted({a[1] for a in _f_leaves(forms) if a[0] == "atom"})
    members |= {a for a in atoms if a.startswith(node + ".")}
    for bits in itertools.product((False, True), repeat=len(atoms)):
      asg = dict(zip(atoms, bits))
      if any(_f_eval(f, asg) is (not pol) for f, pol in st["conds"]):
        continue    # infeasible
      # a test the analysis cannot evaluate is taken to be independent of the
      # members unless it talks about them (then nothing on this path is decided)
      fuzzy = any(_f_eval(f, asg) is None and any(u[1] & about_body for u in _f_leaves([f]) if u[0] == "unk")
                  for f, _ in st["conds"])
      vals = [(t, _f_eval(f, asg)) for t, f in body]
      if dots:
        full = [t for t, v in vals if v is True]
        if full and not fuzzy:
          witnesses.append((asg, full))
        elif any(v is not False for _, v in vals):
          undecided.add("the ' ...' suffix is added")
      elif all(v is False for _, v in vals) and not fuzzy:
        bare_empty.append(asg)
      elif not any(v is True for _, v in vals):
        undecided.add("no ' ...' suffix is added")
  if n_paths == 0:
    raise AnalysisError("VisitClass: no path returns the joined class lines")
  if not members:
    raise AnalysisError("VisitClass: the class body does not depend on any field of the node")
  # attribute each clash to the members present in its smallest witness
  blame = {}
  for asg, full in sorted(witnesses, key=lambda w: sum(w[0].values())):
    present = [a for a, v in asg.items() if v and a in members] or ["<always>"]
    if not any(a in blame for a in present):
      for a in present:
        blame[a] = (asg, full)
  if undecided and not blame and not bare_empty:
    raise AnalysisError(f"VisitClass: cannot decide whether the body is empty where {sorted(undecided)}")
  field = lambda a: a[len(node) + 1:].removesuffix(" is not None") if a != "<always>" else a
  for a in sorted(members | set(blame)):
    if a in blame:
      asg, full = blame[a]
      ctx.bad(f"VisitClass:ellipsis-vs-body:{field(a)}", PRINTER, fn.lineno,
              f"the header gets the ' ...' suffix although {full} is non-empty when {asg}: `class X: ...` is "
              "followed by an indented body, which the stub parser rejects",
              {"member": a, "witness": asg, "non_empty": full})
    else:
      ctx.ok(f"VisitClass:ellipsis-vs-body:{field(a)}", PRINTER, fn.lineno,
             {"member": a, "paths": n_paths, "header": header, "segments": sorted(segs)})
  ctx.check(not bare_empty, "VisitClass:no-ellipsis-implies-body", PRINTER, fn.lineno,
            f"no ' ...' suffix although every body segment is empty (e.g. when {bare_empty[:1]}): "
            "`class X:` is printed with nothing under it",
            {"segments": sorted(segs), "paths": n_paths, "witness": bare_empty[:1]})


_VISITCLASS_TAIL = (
    "    if node.classes or node.methods or node.constants or slots:\n"
    "      # We have multiple methods, and every method has multiple signatures\n"
    "      # (i.e., the method string will have multiple lines). Combine this into\n"
    "      # an array that contains all the lines, then indent the result.\n"
    "      class_lines = sum((m.splitlines() for m in node.classes), [])\n"
    "      classes = [self.INDENT + m for m in class_lines]\n"
    "      constants = [self.INDENT + m for m in node.constants]\n"
    "      method_lines = sum((m.splitlines() for m in node.methods), [])\n"
    "      methods = [self.INDENT + m for m in method_lines]\n"
    "    else:\n"
    "      header[-1] += \" ...\"\n"
    "      constants = []\n"
    "      classes = []\n"
    "      methods = []\n"
    "    lines = decorators + header + slots + classes + constants + methods\n")

VARIANTS = [
    # R5.1
    {"name": "drop-VisitLateType", "rule": "R5.1", "file": PRINTER, "expect": "fire",
     "old": "  def VisitLateType(self, node):\n    return self.VisitNamedType(node)\n\n",
     "new": ""},
    {"name": "rename-VisitAnnotated", "rule": "R5.1", "file": PRINTER, "expect": "fire",
     "old": "  def VisitAnnotated(self, node):", "new": "  def VisitAnnotatedType(self, node):"},
    {"name": "new-node-class-without-printer-arm", "rule": "R5.1", "file": PYTD,
     "expect": "fire",
     "old": "class Annotated(Type):\n  base_type: TypeU\n",
     "new": "class Unpacked(Type):\n  base_type: TypeU\n\n\nclass Annotated(Type):\n  base_type: TypeU\n"},
    {"name": "twin-printer-arm-with-docstring", "rule": "R5.1", "file": PRINTER,
     "expect": "silent",
     "old": "  def VisitLateType(self, node):\n    return self.VisitNamedType(node)\n",
     "new": "  def VisitLateType(self, node):\n    \"\"\"Late types print like named types.\"\"\"\n    name = self.VisitNamedType(node)\n    return name\n"},
    {"name": "twin-new-abstract-marker", "rule": "R5.1", "file": PYTD, "expect": "silent",
     "old": "class NothingType(Type):",
     "new": "class _Bottom(Type):\n  \"\"\"Private helper base.\"\"\"\n\n\nclass NothingType(_Bottom):"},
    # R5.2
    {"name": "typo-FromTyping-Optional", "rule": "R5.2", "file": PRINTER, "expect": "fire",
     "old": "self._FromTyping(\"Optional\")", "new": "self._FromTyping(\"Optionl\")"},
    {"name": "typo-FromTyping-overload", "rule": "R5.2", "file": PRINTER, "expect": "fire",
     "old": "self._FromTyping(\"overload\")", "new": "self._FromTyping(\"overloaded\")"},
    {"name": "typing-pytd-drops-Concatenate", "rule": "R5.2", "file": TYPING,
     "expect": "fire",
     "old": "class Concatenate: ...", "new": "class Concat: ..."},
    {"name": "decrement-wrong-case", "rule": "R5.2", "file": PRINTER, "expect": "fire",
     "old": "        self._imports.decrement_typing_count(\"Type\")",
     "new": "        self._imports.decrement_typing_count(\"type\")"},
    {"name": "forwarded-suffix-without-typing-guard", "rule": "R5.2", "file": PRINTER,
     "expect": "error",
     "old": "    elif prefix == \"typing\":\n      node_name = self._FromTyping(suffix)",
     "new": "    elif prefix:\n      node_name = self._FromTyping(suffix)"},
    {"name": "twin-FromTyping-local-name", "rule": "R5.2", "file": PRINTER,
     "expect": "silent",
     "old": "    base = self._FromTyping(\"Literal\")\n    return f\"{base}[{node.value}]\"",
     "new": "    literal = self._FromTyping(\"Literal\")\n    return f\"{literal}[{node.value}]\""},
    # R5.3
    {"name": "printer-emits-abstract-decorator-unknown-to-parser", "rule": "R5.3",
     "file": PRINTER, "expect": "fire",
     "old": "      decorators += \"@abstractmethod\\n\"",
     "new": "      decorators += \"@abstract\\n\""},
    {"name": "parser-forgets-coroutine-spelling", "rule": "R5.3", "file": PARSER,
     "expect": "fire",
     "old": "(\"typing.Coroutine\", \"asyncio.coroutine\", \"coroutines.coroutine\")",
     "new": "(\"typing.Coroutine\", \"asyncio.Coroutine\", \"coroutines.Coroutine\")"},
    {"name": "parser-final-target-typo", "rule": "R5.3", "file": PARSER, "expect": "fire",
     "old": "self.defs.matches_type(d.name, \"typing.final\")",
     "new": "self.defs.matches_type(d.name, \"typing.Final\")"},
    {"name": "reader-swaps-static-and-class", "rule": "R5.3", "file": CODEGEN_FN,
     "expect": "fire",
     "old": "      if decorator.type.name == \"staticmethod\":\n        is_staticmethod = True",
     "new": "      if decorator.type.name == \"staticmethod\":\n        is_classmethod = True"},
    {"name": "printer-property-spelled-differently", "rule": "R5.3", "file": PRINTER,
     "expect": "fire",
     "old": "      decorators += \"@property\\n\"", "new": "      decorators += \"@prop\\n\""},
    {"name": "matches_type-loses-bare-name-arm", "rule": "R5.3", "file": DEFS,
     "expect": "fire",
     "old": "    if name == target_base:\n      return True\n", "new": ""},
    {"name": "resolve_type-nothing-renamed", "rule": "R5.3", "file": DEFS, "expect": "fire",
     "old": "    if name == \"nothing\":", "new": "    if name == \"Nothing\":"},
    {"name": "typing-pytd-Never-not-nothing", "rule": "R5.3", "file": TYPING,
     "expect": "fire", "old": "Never = nothing", "new": "Never = Any"},
    {"name": "parser-none-maps-to-other-name", "rule": "R5.3", "file": PARSER,
     "expect": "fire",
     "old": "    if node.type == \"NoneType\":\n      return pytd.NamedType(\"NoneType\")",
     "new": "    if node.type == \"NoneType\":\n      return pytd.NamedType(\"None\")"},
    {"name": "twin-parser-extra-abstract-target", "rule": "R5.3", "file": PARSER,
     "expect": "silent",
     "old": "(\"builtins.abstractmethod\", \"abc.abstractmethod\")",
     "new": "(\"abc.abstractmethod\", \"builtins.abstractmethod\", \"abc.abstractproperty\")"},
    {"name": "twin-reader-kind-arms-reordered", "rule": "R5.3", "file": CODEGEN_FN,
     "expect": "silent",
     "old": "      if decorator.type.name == \"staticmethod\":\n        is_staticmethod = True\n      elif decorator.type.name == \"classmethod\":\n        is_classmethod = True",
     "new": "      if decorator.type.name == \"classmethod\":\n        is_classmethod = True\n      elif decorator.type.name == \"staticmethod\":\n        is_staticmethod = True"},
    # R5.6
    {"name": "reader-no-longer-infers-static-new", "rule": "R5.6", "file": CODEGEN_FN,
     "expect": "fire",
     "old": "    if name == \"__new__\" or is_staticmethod:",
     "new": "    if is_staticmethod:"},
    {"name": "printer-exempts-class_getitem", "rule": "R5.6", "file": PRINTER,
     "expect": "fire",
     "old": "        and function_name != \"__init_subclass__\"",
     "new": "        and function_name != \"__init_subclass__\"\n        and function_name != \"__class_getitem__\""},
    # (formerly listed as a benign twin; seeded C05-r2m2 showed it is not)
    {"name": "reader-infers-more-than-printer-omits", "rule": "R5.6", "file": CODEGEN_FN,
     "expect": "fire",
     "old": "    elif name == \"__init_subclass__\" or is_classmethod:",
     "new": "    elif name == \"__init_subclass__\" or name == \"__class_getitem__\" or is_classmethod:"},
    {"name": "seeded-C05-r2m2", "rule": "R5.6", "patch": "seeded/C05-r2m2/patch.diff",
     "expect": "fire"},
    {"name": "reader-infers-static-call-from-a-tuple", "rule": "R5.6", "file": CODEGEN_FN,
     "expect": "fire",
     "old": "    if name == \"__new__\" or is_staticmethod:",
     "new": "    if name in (\"__new__\", \"__call__\") or is_staticmethod:"},
    {"name": "printer-exempts-through-not-in", "rule": "R5.6", "file": PRINTER,
     "expect": "fire",
     "old": "    if node.kind == pytd.MethodKind.STATICMETHOD and function_name != \"__new__\":",
     "new": "    if node.kind == pytd.MethodKind.STATICMETHOD and function_name not in (\"__new__\", \"__call__\"):"},
    {"name": "twin-both-sides-respelled-with-collections", "rule": "R5.6", "expect": "silent",
     "edits": [
         (CODEGEN_FN, "def merge_method_signatures(\n",
          "_IMPLICIT_CLASSMETHODS = frozenset({\"__init_subclass__\"})\n\n\n"
          "def merge_method_signatures(\n"),
         (CODEGEN_FN, "    elif name == \"__init_subclass__\" or is_classmethod:",
          "    elif name in _IMPLICIT_CLASSMETHODS or is_classmethod:"),
         (PRINTER, "        and function_name != \"__init_subclass__\"",
          "        and function_name not in (\"__init_subclass__\",)")]},
    {"name": "twin-reader-names-in-a-module-constant", "rule": "R5.6", "expect": "silent",
     "edits": [
         (CODEGEN_FN, "def merge_method_signatures(\n",
          "_STATIC_BY_NAME = (\"__new__\",)\n\n\ndef merge_method_signatures(\n"),
         (CODEGEN_FN, "    if name == \"__new__\" or is_staticmethod:",
          "    if is_staticmethod or name in _STATIC_BY_NAME:")]},
    {"name": "twin-printer-nested-exemption", "rule": "R5.6", "file": PRINTER,
     "expect": "silent",
     "old": "    if node.kind == pytd.MethodKind.STATICMETHOD and function_name != \"__new__\":\n"
            "      decorators += \"@staticmethod\\n\"\n    elif (",
     "new": "    if node.kind == pytd.MethodKind.STATICMETHOD:\n"
            "      if not function_name == \"__new__\":\n"
            "        decorators += \"@staticmethod\\n\"\n    elif ("},
    # R5.4
    {"name": "mangle-prefix-changed-one-side", "rule": "R5.4", "file": PARSER,
     "expect": "fire", "old": "  return f\"__KW_{kw}__\"", "new": "  return f\"__KEYWORD_{kw}__\""},
    {"name": "regex-suffix-changed-one-side", "rule": "R5.4", "file": PARSER,
     "expect": "fire",
     "old": "r\"__KW_(?P<keyword>.+)__\"", "new": "r\"__KW_(?P<keyword>.+)_\""},
    {"name": "regex-extra-underscore", "rule": "R5.4", "file": PARSER, "expect": "fire",
     "old": "  return f\"__KW_{kw}__\"", "new": "  return f\"__KW__{kw}__\""},
    {"name": "visit_Name-stops-unmangling", "rule": "R5.4", "file": PARSER,
     "expect": "fire",
     "old": "    return _parseable_name_to_real_name(node.id)", "new": "    return node.id"},
    {"name": "twin-both-sides-renamed-consistently", "rule": "R5.4", "expect": "silent",
     "edits": [(PARSER, "  return f\"__KW_{kw}__\"", "  return f\"__PYKW_{kw}__\""),
               (PARSER, "r\"__KW_(?P<keyword>.+)__\"", "r\"__PYKW_(?P<keyword>\\w+)__\"")]},
    # R5.5
    {"name": "canonical_pyi-skips-ordering", "rule": "R5.5", "file": PARSER,
     "expect": "fire",
     "old": "  ast = ast.Visit(visitors.CanonicalOrderingVisitor())\n  ast.Visit(visitors.VerifyVisitor())",
     "new": "  ast.Visit(visitors.VerifyVisitor())"},
    {"name": "canonical_pyi-skips-verify", "rule": "R5.5", "file": PARSER,
     "expect": "fire",
     "old": "  ast.Visit(visitors.VerifyVisitor())\n  return pytd_utils.Print(ast, multiline_args)",
     "new": "  return pytd_utils.Print(ast, multiline_args)"},
    {"name": "generate_pyi_ast-skips-verify", "rule": "R5.5", "file": IO, "expect": "fire",
     "old": "    mod.Visit(visitors.VerifyVisitor())\n", "new": ""},
    {"name": "generate_pyi_ast-verify-only-when-quick", "rule": "R5.5", "file": IO,
     "expect": "fire",
     "old": "    mod.Visit(visitors.VerifyVisitor())\n",
     "new": "    if options.quick:\n      mod.Visit(visitors.VerifyVisitor())\n"},
    {"name": "generate_pyi_ast-unordered-result", "rule": "R5.5", "file": IO,
     "expect": "fire",
     "old": "    mod = pytd_utils.CanonicalOrdering(mod)\n  ret.ast = mod",
     "new": "    pytd_utils.CanonicalOrdering(mod)\n  ret.ast = mod"},
    {"name": "twin-canonical_pyi-renamed-local", "rule": "R5.5", "file": PARSER,
     "expect": "silent",
     "old": "  ast = ast.Visit(visitors.CanonicalOrderingVisitor())\n  ast.Visit(visitors.VerifyVisitor())\n  return pytd_utils.Print(ast, multiline_args)",
     "new": "  ordered = ast.Visit(visitors.CanonicalOrderingVisitor())\n  ordered.Visit(visitors.VerifyVisitor())\n  return pytd_utils.Print(ordered, multiline_args)"},
    # R5.7
    {"name": "output-emits-unknown-class-keyword", "rule": "R5.7", "file": OUTPUT,
     "expect": "fire",
     "old": "      keywords.append((\"total\", pytd.Literal(False)))",
     "new": "      keywords.append((\"total\", pytd.Literal(False)))\n      keywords.append((\"closed\", pytd.Literal(True)))"},
    {"name": "classdef-rejects-total", "rule": "R5.7", "file": CLASSDEF, "expect": "fire",
     "old": "    if keyword not in (\"metaclass\", \"total\"):",
     "new": "    if keyword not in (\"metaclass\",):"},
    {"name": "twin-classdef-accepts-more", "rule": "R5.7", "file": CLASSDEF,
     "expect": "silent",
     "old": "    if keyword not in (\"metaclass\", \"total\"):",
     "new": "    if keyword not in (\"total\", \"metaclass\", \"closed\"):"},
    # R5.8
    {"name": "printer-writes-unknown-typevar-keyword", "rule": "R5.8", "file": PRINTER,
     "expect": "fire",
     "old": "        args.append(f\"bound={self.Print(t.bound)}\")",
     "new": "        args.append(f\"upper_bound={self.Print(t.bound)}\")"},
    {"name": "parser-drops-default-keyword", "rule": "R5.8", "file": PARSER,
     "expect": "fire",
     "old": "{\"bound\", \"covariant\", \"contravariant\", \"default\"}",
     "new": "{\"bound\", \"covariant\", \"contravariant\"}"},
    {"name": "parser-renames-paramspec-kind", "rule": "R5.8", "file": PARSER,
     "expect": "fire",
     "old": "    for tvar_kind in (\"TypeVar\", \"ParamSpec\"):",
     "new": "    for tvar_kind in (\"TypeVar\", \"ParameterSpec\"):"},
    {"name": "twin-parser-accepts-more-typevar-keywords", "rule": "R5.8", "file": PARSER,
     "expect": "silent",
     "old": "{\"bound\", \"covariant\", \"contravariant\", \"default\"}",
     "new": "{\"default\", \"bound\", \"covariant\", \"contravariant\", \"infer_variance\"}"},
    # R5.9
    {"name": "unbounded-rsplit-unpacked", "rule": "R5.9", "file": PRINTER,
     "expect": "fire",
     "old": "    prefix, suffix = name.rsplit(\".\", 1)\n    while prefix:",
     "new": "    prefix, suffix = name.rsplit(\".\")\n    while prefix:"},
    {"name": "paramspec-form-by-substring", "rule": "R5.9", "file": PRINTER,
     "expect": "fire",
     "old": "    if len(node.args) == 1 and node.args[0] in self._paramspec_names:",
     "new": "    if len(node.args) == 1 and any(\n        p in node.args[0] for p in self._paramspec_names\n    ):"},
    {"name": "twin-typeddict-split-bounded", "rule": "R5.9", "file": PRINTER,
     "expect": "silent",
     "old": "        name, typ = c.split(\": \")", "new": "        name, typ = c.split(\": \", 1)"},
    {"name": "twin-concatenate-form-by-node-kind", "rule": "R5.9", "file": PRINTER,
     "expect": "silent",
     "old": "    elif node.args and \"Concatenate\" in node.args[0]:",
     "new": "    elif node.args and isinstance(\n        self.old_node.args[0], pytd.Concatenate\n    ):"},
    {"name": "callable-arm-unknown-text-predicate", "rule": "R5.9", "file": PRINTER,
     "expect": "error",
     "old": "    elif node.args and \"Concatenate\" in node.args[0]:",
     "new": "    elif node.args and node.args[0].startswith(\"Concatenate[\"):"},
    # R5.10
    {"name": "revert-D23-unbounded-split", "rule": "R5.9", "file": PRINTER, "expect": "fire",
     "old": "        name, typ = c.split(\": \", 1)", "new": "        name, typ = c.split(\": \")"},
    {"name": "revert-D24-concatenate-substring", "rule": "R5.9", "file": PRINTER, "expect": "fire",
     "old": "    elif node.args and isinstance(self.old_node.args[0], pytd.Concatenate):",
     "new": "    elif node.args and \"Concatenate\" in node.args[0]:"},
    {"name": "revert-D25-functional-form-drops-keywords", "rule": "R5.10", "file": PRINTER,
     "expect": "fire",
     "old": "        args = \", \".join([f\"'{node.name}'\", fields] + keywords)\n        return f\"{node.name} = TypedDict({args})\"",
     "new": "        return f\"{node.name} = TypedDict('{node.name}', {fields})\""},
    {"name": "twin-typeddict-gains-closed-keyword-everywhere", "rule": "R5.10",
     "expect": "silent",
     "edits": [
         (OUTPUT, "      keywords.append((\"total\", pytd.Literal(False)))",
          "      keywords.append((\"total\", pytd.Literal(False)))\n      keywords.append((\"closed\", pytd.Literal(True)))"),
         (CLASSDEF, "    if keyword not in (\"metaclass\", \"total\"):",
          "    if keyword not in (\"metaclass\", \"total\", \"closed\"):"),
         (DEFS, "      if k.arg != \"total\":", "      if k.arg not in (\"total\", \"closed\"):")]},
    # R5.12
    {"name": "defaults-split-with-neg-len-slice", "rule": "R5.12", "file": "pytype/pyi/function.py",
     "expect": "fire",
     "old": "  _apply_defaults(posonly_params + pos_params, args.defaults)",
     "new": "  _apply_defaults(pos_params, args.defaults)\n  _apply_defaults(posonly_params, args.defaults[: -len(pos_params)])"},
    {"name": "twin-defaults-split-guarded", "rule": "R5.12", "file": "pytype/pyi/function.py",
     "expect": "silent",
     "old": "  _apply_defaults(posonly_params + pos_params, args.defaults)",
     "new": "  _apply_defaults(pos_params, args.defaults)\n  _apply_defaults(posonly_params, args.defaults[: -len(pos_params)] if pos_params else args.defaults)"},
    {"name": "cell-names-guard-dropped", "rule": "R5.12", "file": "pytype/state.py", "expect": "fire",
     "old": "    elif freevars:\n      cell_names = f_code.localsplus[: -len(freevars)]\n    else:\n      cell_names = f_code.localsplus",
     "new": "    else:\n      cell_names = f_code.localsplus[: -len(freevars)]"},
    # R5.3: a flag arm the reader lost is a violation
    {"name": "parser-loses-final-arm", "rule": "R5.3", "file": PARSER, "expect": "fire",
     "old": "      elif self.defs.matches_type(d.name, \"typing.final\"):\n        final = True\n",
     "new": ""},
    # R5.13
    {"name": "seeded-C05-m1", "rule": "R5.13", "patch": "seeded/C05-m1/patch.diff", "expect": "fire"},
    {"name": "slots-forgotten-in-emptiness-test", "rule": "R5.13", "file": PRINTER, "expect": "fire",
     "old": "    if node.classes or node.methods or node.constants or slots:\n",
     "new": "    if node.classes or node.methods or node.constants:\n"},
    {"name": "emptiness-test-mentions-field-that-emits-no-line", "rule": "R5.13", "file": PRINTER,
     "expect": "fire",
     "old": "    if node.classes or node.methods or node.constants or slots:\n",
     "new": "    if node.classes or node.methods or node.constants or slots or node.decorators:\n"},
    {"name": "emptiness-test-requires-methods", "rule": "R5.13", "file": PRINTER,
     "expect": "fire",
     "old": "    if node.classes or node.methods or node.constants or slots:\n",
     "new": "    if (node.classes or slots or node.constants) and node.methods:\n"},
    {"name": "twin-body-built-unconditionally-then-tested", "rule": "R5.13", "file": PRINTER,
     "expect": "silent", "old": _VISITCLASS_TAIL,
     "new": "    class_lines = sum((m.splitlines() for m in node.classes), [])\n"
            "    classes = [self.INDENT + m for m in class_lines]\n"
            "    constants = [self.INDENT + m for m in node.constants]\n"
            "    method_lines = sum((m.splitlines() for m in node.methods), [])\n"
            "    methods = [self.INDENT + m for m in method_lines]\n"
            "    if not (slots or classes or constants or methods):\n"
            "      header[-1] += \" ...\"\n"
            "    lines = decorators + header + slots + classes + constants + methods\n"},
    {"name": "twin-body-collected-in-one-list", "rule": "R5.13", "file": PRINTER,
     "expect": "silent", "old": _VISITCLASS_TAIL,
     "new": "    class_lines = sum((m.splitlines() for m in node.classes), [])\n"
            "    method_lines = sum((m.splitlines() for m in node.methods), [])\n"
            "    body = slots + [self.INDENT + m for m in class_lines]\n"
            "    body += [self.INDENT + m for m in node.constants]\n"
            "    body = body + [self.INDENT + m for m in method_lines]\n"
            "    if len(body) == 0:\n"
            "      header[-1] += \" ...\"\n"
            "    lines = decorators + header + body\n"},
    {"name": "twin-slots-as-conditional-expression", "rule": "R5.13", "file": PRINTER,
     "expect": "silent",
     "old": "    if node.slots is not None:\n      slots_str = \", \".join(f'\"{s}\"' for s in node.slots)\n"
            "      slots = [self.INDENT + f\"__slots__ = [{slots_str}]\"]\n    else:\n      slots = []\n",
     "new": "    slots_str = \", \".join(f'\"{s}\"' for s in node.slots or ())\n"
            "    slots = [self.INDENT + f\"__slots__ = [{slots_str}]\"] if node.slots is not None else []\n"},
    {"name": "twin-emptiness-test-negated-arms-swapped", "rule": "R5.13", "file": PRINTER,
     "expect": "silent", "old": _VISITCLASS_TAIL,
     "new": "    if not (slots or node.constants or node.methods or node.classes):\n"
            "      header[-1] += \" ...\"\n"
            "      constants = classes = methods = []\n"
            "    else:\n"
            "      classes = [self.INDENT + m for c in node.classes for m in c.splitlines()]\n"
            "      constants = [self.INDENT + m for m in node.constants]\n"
            "      methods = [self.INDENT + m for f in node.methods for m in f.splitlines()]\n"
            "    lines = decorators + header + slots + classes + constants + methods\n"},
]
