"""C05 - emitted stubs parse back unchanged: printer <-> parser vocabulary.

Decides: that the printer has an arm for every pytd node class, and that every
spelling the printer (and output.py, for class keywords) chooses is a spelling
the stub reader recognises.  Does NOT decide the parse-then-print fixed point.
"""
import ast
import copy
import keyword as _keyword
import re
import re._parser as _sre_parser

from sa.core import rule, AnalysisError
from sa.pyindex import (get_module, dotted, src, kwarg, calls_in, try_fold,
                        walk_no_nested)
from sa import flow

EXPLANATION = (
    "Static vocabulary-agreement rules between the stub printer "
    "(pytd/printer.py, plus the class keywords output.py emits) and the stub "
    "reader (pyi/parser.py, pyi/definitions.py, pyi/classdef.py, "
    "pytd/codegen/function.py, stubs/builtins/typing.pytd), evaluated on the "
    "AST.  Printer methods are found by what `PrintVisitor().<name>` resolves "
    "to (own methods, then module-local bases / mixins in MRO order), and "
    "`self.<helper>(..)` calls are followed into the helper where a rule "
    "needs the statements a Visit method delegates.  "
    "R5.1 every concrete pytd Node class has a Visit<Class> in "
    "PrintVisitor; R5.2 every typing member the printer names "
    "(_FromTyping/_LookupTypingMember arguments that are literals or "
    "conditional expressions over literals - every arm is checked -, typing "
    "imports, decrement_typing_count literals) is defined in typing.pytd; a "
    "non-literal argument is accepted only as the suffix of a printed name "
    "(`prefix, _, suffix = <param>.name.rpartition('.')`, bound once) on a "
    "path whose condition contains `prefix == 'typing'/'typing_extensions'` "
    "(enclosing tests or negated earlier early exits, in whichever method "
    "the call sits); when the helper takes the name itself "
    "(`prefix, _, suffix = <param>.rpartition('.')`, parameter never rebound) "
    "the same holds provided the helper is defined once in PrintVisitor's "
    "local MRO, is mentioned only as the callee of `self.<helper>(...)` "
    "calls and every such call passes `<param>.name` of its own method (or, "
    "one level further, its own such parameter); otherwise R5.2 refuses; "
    "R5.3 each "
    "decorator the printer emits for a method kind/flag is the spelling the "
    "reader maps back to that same kind/flag: the decorator text is the local "
    "VisitFunction writes immediately before `def `, its `+=` sites are "
    "collected in VisitFunction and in the one helper that builds it when it "
    "is bound by `x = self._Helper(.., node, ..)` (the helper must return one "
    "local on every path; the node and name variables are identified by "
    "binding, not by spelling), each with its path condition; "
    "bare names are matched by base "
    "name in Definitions.matches_type, and the special spellings 'nothing', "
    "'Never' and 'None' are read back as NothingType/NoneType (the name "
    "abbreviated to None is the one literal equality in the path condition "
    "of the single place where VisitNamedType returns \"None\": if/else, guard "
    "clause or conditional expression); R5.4 the "
    "keyword mangling f-string and the un-mangling regex describe the same "
    "language and round-trip every Python keyword; R5.5 the fixpoint witness "
    "canonical_pyi is parse -> canonical order -> verify -> Print (visits "
    "chained in one expression or spread over rebound locals; a step the "
    "rule does not know is an analysis error, not a verdict), "
    "pytd_utils.Print visits with printer.PrintVisitor (constructed inline or "
    "in a local bound once, unconditionally), and "
    "generate_pyi prints exactly the verified, canonically ordered AST (the "
    "verify / order steps of generate_pyi_ast may sit in functions of io.py "
    "it calls: such a helper verifies when every one of its exits has passed "
    "a VerifyVisitor visit, and yields an ordered AST when every exit returns "
    "a CanonicalOrdering result); R5.6 "
    "two name sets are extracted per method kind K and must be EQUAL: the "
    "names for which the printer omits @staticmethod/@classmethod (negative "
    "name literals `!=` / `not in <foldable collection>` in the path "
    "condition of the decorator `+=`, over all enclosing and elif-residue "
    "guards) and the names for which merge_method_signatures infers K without "
    "a decorator (`name == lit` / `name in <literal or module constant>` "
    "disjuncts of the kind chain, earlier arms winning).  printer-only name: "
    "a K method is read back as a plain method; reader-only name: an "
    "undecorated method (kind METHOD from the inferencer) is re-read as K and "
    "re-printed with the decorator.  Not decided by R5.6: whether output.py "
    "emits kind K for those names in the first place; R5.7 class keywords "
    "output.py emits are accepted by classdef.get_keywords; R5.8 "
    "TypeVar/ParamSpec constructor names (chosen by if/else or by a "
    "conditional-expression argument on isinstance(<loop variable>, "
    "pytd.ParamSpec)) and keyword arguments the printer "
    "writes are accepted by the reader; R5.9 decisions the printer takes on "
    "already-printed child text are content-safe (no tuple-unpacked unbounded "
    "split; every test VisitCallableType evaluates - if/elif arms, "
    "early-return ifs, conditional expressions - is one of the two "
    "recognised form tests and none is a substring test); R5.10 the "
    "functional TypedDict form (returned by VisitClass itself or by a helper "
    "whose result VisitClass returns) prints the class keywords output.py "
    "emits: taint from `<node>.keywords` is propagated through locals and "
    "through the parameters and return values of the PrintVisitor methods "
    "called on the way; "
    "R5.12 no slice bound -len(X) unless X is known non-empty; R5.13 symbolic "
    "execution of PrintVisitor.VisitClass over the truth values of the member "
    "fields (node.classes/constants/methods/slots, derived from the code; "
    "lists returned by `self.<helper>(..)` are obtained by executing the "
    "helper with the same engine, arguments that are the node or attributes "
    "of it substituted for the helper's parameters): on "
    "every feasible path the header gets the ' ...' suffix iff every list "
    "joined after the header is empty (suffix + indented body does not parse; "
    "no suffix + no body does not parse either).  "
    "Each is a necessary condition: "
    "breaking one makes some emitted stub fail to parse or parse to a "
    "different declaration.  The text-level details of every Visit* method "
    "and the parse-then-print fixed point itself are not decided.  Blind "
    "spots of R5.13: the text of the emitted lines (indentation, the "
    "__slots__ spelling), members printed as an empty string, and tests in "
    "VisitClass the analysis cannot evaluate are taken to be independent of "
    "the members unless they mention them (then: analysis error).")
ASSUMPTIONS = [
    "R5.2: a private PrintVisitor helper is reached only through "
    "`self.<helper>(...)` calls inside pytd/printer.py (any other mention of "
    "its name in that file - attribute, bare name or string constant - makes "
    "the rule refuse); `<param>.name` of a printer method is a printed "
    "node's own name, as in today's VisitNamedType",
    "node classes are dispatched by exact class name (parse/node.py: visitors "
    "for superclasses are not triggered), so a missing Visit<Class> leaves a "
    "node unprinted",
    "typing.pytd is valid Python syntax and is read with `ast`; a typing "
    "member the loader cannot find makes the stub unloadable",
    "host CPython `keyword.kwlist`, `type(None).__name__` and the stdlib `re` "
    "engine are used as references for R5.4/R5.3",
    "only vocabulary agreement is decided; layout, import bookkeeping and "
    "ordering inside the Visit* methods are out of reach of a static argument",
    "R5.13: every printed nested class / method / constant has at least one "
    "line (so sum((m.splitlines() for m in X), []) and a comprehension over X "
    "are empty exactly when X is); loops in VisitClass and its helpers do not "
    "touch the body lists (locals bound in a loop become unknown; a return "
    "inside a loop, try/with in a helper make the helper's result unknown); "
    "functions that are not PrintVisitor methods do not modify their "
    "arguments in place (a PrintVisitor method that may - subscript/attribute "
    "stores, augmented assignment, list/set/dict mutators, also via a method "
    "it hands the argument on to - makes the caller's local unknown or is "
    "an analysis error)",
    "`self.<m>(..)` inside a PrintVisitor method runs the undecorated method "
    "<m> that PrintVisitor defines or inherits from a class of the same module "
    "(PrintVisitor is not subclassed and no instance attribute shadows a "
    "method); methods inherited from base_visitor.Visitor are not followed",
    "R5.3/R5.6: a helper that is not handed the printed node and (with "
    "everything it calls on self) reads none of kind / is_abstract / "
    "is_coroutine / is_final / signatures only re-prints declared decorators "
    "and contributes no kind/flag decorator",
]

PRINTER = "pytype/pytd/printer.py"
PYTD = "pytype/pytd/pytd.py"
PARSER = "pytype/pyi/parser.py"
DEFS = "pytype/pyi/definitions.py"
CLASSDEF = "pytype/pyi/classdef.py"
CODEGEN_FN = "pytype/pytd/codegen/function.py"
PYTD_UTILS = "pytype/pytd/pytd_utils.py"
VISITORS = "pytype/pytd/visitors.py"
IO = "pytype/io.py"
OUTPUT = "pytype/output.py"
TYPING = "pytype/stubs/builtins/typing.pytd"


# -- shared extraction helpers (also used by rules/c06.py) ---------------------

def node_classes(ctx):
  """pytd.py Node hierarchy: name -> {"bases", "node", "concrete"}."""
  def build():
    mod = get_module(ctx, PYTD)
    if dotted(mod.assigns.get("Node")) != "node.Node":
      raise AnalysisError("pytd.py: `Node = node.Node` alias not found")
    out = {}
    for name, cd in mod.classes.items():
      bases = [dotted(b) for b in cd.bases]
      if any(b is None for b in bases):
        raise AnalysisError(f"pytd.py: class {name} has a computed base")
      if any(b == "Node" or b in out for b in bases):
        out[name] = {"bases": [b for b in bases if b in out], "node": cd}
    if len(out) < 10:
      raise AnalysisError("pytd.py: Node class hierarchy not recognised")
    constructed = {dotted(c.func) for c in calls_in(mod.tree)}
    for name, info in out.items():
      cd = info["node"]
      has_sub = any(name in o["bases"] for o in out.values())
      marker = has_sub and all(
          isinstance(s, ast.Pass) or (isinstance(s, ast.Expr) and
                                      isinstance(s.value, ast.Constant))
          for s in cd.body)
      private_abstract = name.startswith("_") and name not in constructed
      info["concrete"] = not (marker or private_abstract)
    return out
  return ctx.memo("c05.node_classes", build)


def node_ancestors(ctx, name):
  """name and all its Node-class ancestors inside pytd.py."""
  classes = node_classes(ctx)
  out, todo = [], [name]
  while todo:
    n = todo.pop()
    if n in out or n not in classes:
      continue
    out.append(n)
    todo.extend(classes[n]["bases"])
  return out


def local_mro(mod, clsname):
  """C3 linearisation of `clsname` restricted to the classes defined at the
  top level of `mod` (bases defined elsewhere are left out)."""
  def lin(name, active):
    if name in active:
      raise AnalysisError(f"{mod.rel}: class {name} inherits from itself")
    cd = mod.classes[name]
    bases = [dotted(b) for b in cd.bases]
    local = [b for b in bases if b in mod.classes]
    seqs = [lin(b, active | {name}) for b in local] + [list(local)]
    out = [name]
    seqs = [s for s in seqs if s]
    while seqs:
      for s in seqs:
        head = s[0]
        if not any(head in t[1:] for t in seqs):
          break
      else:
        raise AnalysisError(f"{mod.rel}: inconsistent MRO below {name}")
      out.append(head)
      seqs = [[x for x in s if x != head] for s in seqs]
      seqs = [s for s in seqs if s]
    return out
  mod.cls(clsname)
  return lin(clsname, frozenset())


def class_methods(mod, clsname):
  """name -> def for the methods `clsname` has at run time as far as they are
  defined in this module: its own and those inherited from module-local
  bases / mixins (first class in the MRO wins)."""
  out = {}
  for c in local_mro(mod, clsname):
    for name, fn in mod.methods(c).items():
      out.setdefault(name, fn)
  return out


def class_method(mod, clsname, meth):
  """The def `clsname().<meth>` resolves to (local MRO); AnalysisError if gone."""
  fn = class_methods(mod, clsname).get(meth)
  if fn is None:
    raise AnalysisError(f"anchor {clsname}.{meth} not found in {mod.rel} "
                        "(own methods and module-local bases searched)")
  return fn


def _pv_method(pmod, meth):
  return class_method(pmod, "PrintVisitor", meth)


def _node_param(fn):
  """Name of the visited-node parameter of a Visit*/helper method."""
  a = fn.args.posonlyargs + fn.args.args
  if len(a) < 2:
    raise AnalysisError(f"{fn.name}: no node parameter")
  return a[1].arg


def self_callee(mod, clsname, call):
  """def a `self.<m>(...)` call resolves to in `clsname` (local MRO), or None."""
  if isinstance(call, ast.Call) and isinstance(call.func, ast.Attribute) and \
      isinstance(call.func.value, ast.Name) and call.func.value.id == "self":
    fn = class_methods(mod, clsname).get(call.func.attr)
    if fn is not None and not fn.decorator_list:
      return fn
  return None


def bind_args(callee, call):
  """parameter name -> argument expression of a plain method call (receiver
  dropped); None if the call uses */** or does not fit the signature."""
  a = callee.args
  if a.vararg or a.kwarg or any(isinstance(x, ast.Starred) for x in call.args) \
      or any(k.arg is None for k in call.keywords):
    return None
  pos = [p.arg for p in a.posonlyargs + a.args][1:]
  if len(call.args) > len(pos):
    return None
  out = dict(zip(pos, call.args))
  named = pos[max(len(a.posonlyargs) - 1, 0):] + [p.arg for p in a.kwonlyargs]
  for k in call.keywords:
    if k.arg in out or k.arg not in named:
      return None
    out[k.arg] = k.value
  defaults = dict(zip(reversed([p.arg for p in a.posonlyargs + a.args]),
                      reversed(a.defaults)))
  defaults.update({p.arg: d for p, d in zip(a.kwonlyargs, a.kw_defaults)
                   if d is not None})
  for p in pos + [p.arg for p in a.kwonlyargs]:
    if p not in out:
      if p not in defaults:
        return None
      out[p] = defaults[p]
  return out


def once_bound(fn, name):
  """The value of local `name` when it is bound exactly once in `fn`, by a
  plain `name = value` statement of the function's own top-level block (so
  the binding is unconditional); else None."""
  stores = [n for n in ast.walk(fn) if isinstance(n, ast.Name) and n.id == name
            and not isinstance(n.ctx, ast.Load)]
  params = [a.arg for a in fn.args.posonlyargs + fn.args.args + fn.args.kwonlyargs]
  if len(stores) != 1 or name in params or \
      (fn.args.vararg and fn.args.vararg.arg == name) or \
      (fn.args.kwarg and fn.args.kwarg.arg == name):
    return None
  for st in fn.body:
    if isinstance(st, ast.Assign) and len(st.targets) == 1 and \
        st.targets[0] is stores[0]:
      return st.value
  return None


def once_bound_anywhere(fn, name):
  """The one statement that binds local `name` in `fn` (an Assign to the bare
  name, anywhere in the body), or None if it is bound more than once / is a
  parameter / is bound by something else."""
  stores = [n for n in ast.walk(fn) if isinstance(n, ast.Name) and n.id == name
            and not isinstance(n.ctx, ast.Load)]
  a = fn.args
  params = [x.arg for x in a.posonlyargs + a.args + a.kwonlyargs
            + [y for y in (a.vararg, a.kwarg) if y]]
  if len(stores) != 1 or name in params:
    return None
  for st in walk_no_nested(fn):
    if isinstance(st, ast.Assign) and len(st.targets) == 1 and \
        st.targets[0] is stores[0]:
      return st
  return None


def printer_visits(ctx):
  """Visit<Class> suffixes defined by PrintVisitor -> def node (methods
  inherited from module-local bases / mixins included)."""
  mod = get_module(ctx, PRINTER)
  foreign = set()
  for c in local_mro(mod, "PrintVisitor"):
    for b in mod.classes[c].bases:
      if dotted(b) not in mod.classes:
        foreign.add(dotted(b))
  if foreign != {"base_visitor.Visitor"}:
    raise AnalysisError(
        f"PrintVisitor bases {sorted(map(str, foreign))}: inheritance not understood")
  return {n[len("Visit"):]: fn for n, fn in class_methods(mod, "PrintVisitor").items()
          if n.startswith("Visit") and len(n) > len("Visit")}


def stub_toplevel(ctx, rel):
  """Top-level names of a .pytd stub -> value node (or True)."""
  def build():
    text = ctx.read(rel)
    try:
      tree = ast.parse(text, filename=rel)
    except SyntaxError as e:
      raise AnalysisError(f"{rel} does not parse with ast: {e}") from e
    names = {}
    def top(body):
      for st in body:
        if isinstance(st, (ast.ClassDef, ast.FunctionDef, ast.AsyncFunctionDef)):
          names[st.name] = st
        elif isinstance(st, ast.Assign):
          for tg in st.targets:
            if isinstance(tg, ast.Name):
              names[tg.id] = st.value
        elif isinstance(st, ast.AnnAssign) and isinstance(st.target, ast.Name):
          names[st.target.id] = st.value if st.value is not None else st
        elif isinstance(st, ast.If):
          top(st.body)
          top(st.orelse)
        elif isinstance(st, (ast.Import, ast.ImportFrom)):
          for a in st.names:
            names[a.asname or a.name] = st
    top(tree.body)
    if len(names) < 20:
      raise AnalysisError(f"{rel}: too few top-level names ({len(names)})")
    return names
  return ctx.memo(("c05.stub", rel), build)


def if_chain(first):
  """[(test, body)], else_body for an if/elif/else chain."""
  arms, node = [], first
  while True:
    arms.append((node.test, node.body))
    if len(node.orelse) == 1 and isinstance(node.orelse[0], ast.If):
      node = node.orelse[0]
    else:
      return arms, node.orelse


def _const_str(node):
  return node.value if isinstance(node, ast.Constant) and \
      isinstance(node.value, str) else None


def literal_arms(expr):
  """[(str literal, [(test, polarity)])] for a string literal or a (nested)
  conditional expression whose arms are all string literals; else None."""
  if _const_str(expr) is not None:
    return [(_const_str(expr), [])]
  if isinstance(expr, ast.IfExp):
    a, b = literal_arms(expr.body), literal_arms(expr.orelse)
    if a is not None and b is not None:
      return [(l, [(expr.test, True)] + c) for l, c in a] + \
             [(l, [(expr.test, False)] + c) for l, c in b]
  return None


def _self_calls(fn_or_tree, meth):
  return [c for c in calls_in(fn_or_tree) if dotted(c.func) == f"self.{meth}"]


# -- R5.1 ------------------------------------------------------------------------

@rule("R5.1", "C05", floor=26)
def r5_1(ctx):
  """Every concrete pytd Node class has a Visit<Class> in PrintVisitor."""
  classes = node_classes(ctx)
  visits = printer_visits(ctx)
  pmod = get_module(ctx, PRINTER)
  pv_line = pmod.cls("PrintVisitor").lineno
  for name, info in sorted(classes.items()):
    if not info["concrete"]:
      continue
    fn = visits.get(name)
    ctx.check(fn is not None, f"pytd.{name}", PRINTER,
              fn.lineno if fn is not None else pv_line,
              f"PrintVisitor has no Visit{name}: visitors dispatch on the exact "
              f"class name, so a {name} node reaches the output unprinted",
              {"class": name, "bases": info["bases"],
               "visit": f"Visit{name}" if fn is not None else None})


# -- R5.2 ------------------------------------------------------------------------

def _is_printed_node_name(pmod, fn, expr, depth):
  """`expr`, evaluated in `fn`, is the `.name` of a node handed to a printer
  method: either `<param>.name` for a parameter of `fn` itself, or a parameter
  of `fn` that is never rebound where `fn` is a same-class helper (defined once
  in PrintVisitor's local MRO, referenced only as the callee of
  `self.<fn>(...)` calls, at least one) and EVERY such call passes, for that
  parameter, an expression that is itself a printed node's name in the caller
  (at most `depth` levels).  Anything else: False (the caller refuses)."""
  if isinstance(fn, ast.Lambda):
    return False
  a = fn.args
  plain = [x.arg for x in (a.posonlyargs + a.args)[1:]]
  if isinstance(expr, ast.Attribute) and expr.attr == "name" and \
      isinstance(expr.value, ast.Name) and expr.value.id in plain:
    return True
  if not (isinstance(expr, ast.Name) and expr.id in plain) or depth <= 0:
    return False
  if a.vararg is not None or a.kwarg is not None:
    return False
  if any(isinstance(n, ast.Name) and n.id == expr.id and not isinstance(n.ctx, ast.Load)
         for n in ast.walk(fn)) or \
      any(isinstance(n, (ast.Global, ast.Nonlocal)) for n in ast.walk(fn)):
    return False
  scopes = [pmod.classes[c] for c in local_mro(pmod, "PrintVisitor")]
  defs = [st for cd in scopes for st in cd.body
          if isinstance(st, (ast.FunctionDef, ast.AsyncFunctionDef)) and st.name == fn.name]
  if len(defs) != 1 or defs[0] is not fn or fn.decorator_list:
    return False
  # every mention of the helper's name in the module is `self.<fn>(...)`
  call_funcs = {id(c.func): c for cd in scopes for c in _self_calls(cd, fn.name)}
  for n in ast.walk(pmod.tree):
    if isinstance(n, ast.Attribute) and n.attr == fn.name and id(n) not in call_funcs:
      return False
    if isinstance(n, ast.Name) and n.id == fn.name:
      return False
    if isinstance(n, ast.Constant) and n.value == fn.name:
      return False        # getattr(self, "<fn>") and the like
  if not call_funcs:
    return False
  pos = ([x.arg for x in a.posonlyargs + a.args]).index(expr.id) - 1
  posonly = len(a.posonlyargs) - 1
  for c in call_funcs.values():
    if any(isinstance(x, ast.Starred) for x in c.args) or \
        any(k.arg is None for k in c.keywords):
      return False
    if pos < len(c.args):
      passed = c.args[pos]
    else:
      kws = [k.value for k in c.keywords if k.arg == expr.id]
      if len(kws) != 1 or pos < posonly:
        return False
      passed = kws[0]
    caller = pmod.enclosing_function(c)
    if caller is None or caller is fn or \
        not _is_printed_node_name(pmod, caller, passed, depth - 1):
      return False
  return True


def _forwarded_typing_call_ok(pmod, call):
  """`self._FromTyping(suffix)` under a typing prefix: the member name is the
  last component of a printed node's own name `typing.<suffix>` /
  `typing_extensions.<suffix>`.

  Recognised in any method (the body of VisitNamedType may live in a helper):
  `suffix` is bound exactly once in the enclosing function, by
  `prefix, _, suffix = <param>.name.rpartition(".")` - or `<param>.rpartition(".")`
  when every caller of the helper passes such a `.name`, see
  _is_printed_node_name - and the path condition
  of the call (enclosing tests and negated earlier early exits) contains a
  positive `prefix == "typing"` / `"typing_extensions"`.  Returns the prefix
  literal, or None when the call is not of that shape."""
  fn = pmod.enclosing_function(call)
  if fn is None or isinstance(fn, ast.Lambda) or len(call.args) != 1 or \
      not isinstance(call.args[0], ast.Name):
    return None
  var = call.args[0].id
  params = {a.arg for a in (fn.args.posonlyargs + fn.args.args)[1:]}
  if var in params:
    return None
  binds = [n for n in ast.walk(fn) if isinstance(n, ast.Name) and n.id == var
           and not isinstance(n.ctx, ast.Load)]
  if len(binds) != 1:
    return None
  b = pmod.enclosing_stmt(binds[0])
  if not (isinstance(b, ast.Assign) and len(b.targets) == 1
          and isinstance(b.targets[0], ast.Tuple) and len(b.targets[0].elts) == 3
          and b.targets[0].elts[2] is binds[0]
          and isinstance(b.targets[0].elts[0], ast.Name)
          and isinstance(b.value, ast.Call) and len(b.value.args) == 1
          and not b.value.keywords
          and isinstance(b.value.func, ast.Attribute)
          and b.value.func.attr == "rpartition"
          and _const_str(b.value.args[0]) == "."
          and _is_printed_node_name(pmod, fn, b.value.func.value, 2)):
    return None
  prefix = b.targets[0].elts[0].id
  # the prefix local must not be rebound either
  if sum(isinstance(n, ast.Name) and n.id == prefix and not isinstance(n.ctx, ast.Load)
         for n in ast.walk(fn)) != 1:
    return None
  g = flow.guards(pmod.parent, pmod.enclosing_stmt(call), stop=fn)
  for test, pol in g:
    while isinstance(test, ast.UnaryOp) and isinstance(test.op, ast.Not):
      test, pol = test.operand, not pol
    if isinstance(test, ast.Compare) and len(test.ops) == 1 and \
        isinstance(test.ops[0], (ast.Eq, ast.NotEq)) and \
        isinstance(test.ops[0], ast.Eq) == pol:
      l, r = test.left, test.comparators[0]
      if dotted(r) == prefix:
        l, r = r, l
      if dotted(l) == prefix and _const_str(r) in ("typing", "typing_extensions"):
        return _const_str(r)
  return None


@rule("R5.2", "C05", floor=19)
def r5_2(ctx):
  """Typing members the printer names are defined in typing.pytd."""
  pmod = get_module(ctx, PRINTER)
  typing_names = stub_toplevel(ctx, TYPING)
  scopes = [pmod.classes[c] for c in local_mro(pmod, "PrintVisitor")]
  seen = {}

  def want(kind, lit, line):
    key = f"{kind}:{lit}"
    if key in seen:
      return
    seen[key] = True
    ctx.check(lit in typing_names, key, PRINTER, line,
              f"printer names typing member {lit!r} ({kind}) which typing.pytd "
              "does not define: the emitted import cannot be resolved / the "
              "bookkeeping call is a no-op", {"member": lit, "via": kind,
                                              "defined": lit in typing_names})

  for meth in ("_FromTyping", "_LookupTypingMember"):
    _pv_method(pmod, meth)
    for call in [c for cd in scopes for c in _self_calls(cd, meth)]:
      if len(call.args) != 1 or call.keywords:
        raise AnalysisError(f"{meth} call shape not understood: {src(call)}")
      arms = literal_arms(call.args[0])
      if arms is not None:
        for lit, _ in arms:     # every arm of a conditional argument is named
          want(meth, lit, call.lineno)
        continue
      pre = _forwarded_typing_call_ok(pmod, call)
      if pre is None:
        raise AnalysisError(
            f"non-literal {meth} call not understood: {src(call)} in "
            f"{getattr(pmod.enclosing_function(call), 'name', '?')}")
      key = f"{meth}:<suffix of {pre}.* name>"
      n = sum(k.startswith(key) for k in seen)
      seen[f"{key}#{n}"] = True
      ctx.ok(f"{key}#{n}", PRINTER, call.lineno,
             {"forwarded": src(call.args[0]), "guard": f"prefix == {pre!r}"})
  # typing imports added by full name, and counter bookkeeping by member name
  for call in [c for cd in scopes for c in calls_in(cd)]:
    d = dotted(call.func)
    if d == "self._imports.add" and call.args:
      lit = _const_str(call.args[0])
      if lit and lit.startswith("typing."):
        want("_imports.add", lit[len("typing."):], call.lineno)
    elif d == "self._imports.decrement_typing_count":
      if len(call.args) != 1:
        raise AnalysisError(f"decrement_typing_count shape: {src(call)}")
      lit = _const_str(call.args[0])
      if lit is not None:
        want("decrement_typing_count", lit, call.lineno)


# -- R5.3 / R5.6 -------------------------------------------------------------------

_FLAG_ATTRS = {"is_abstract": "abstract", "is_coroutine": "coroutine",
               "is_final": "final"}


def _flat_add(e):
  if isinstance(e, ast.BinOp) and isinstance(e.op, ast.Add):
    return _flat_add(e.left) + _flat_add(e.right)
  return [e]


def _text_before_def(fn):
  """Name of the local whose text VisitFunction writes immediately before the
  `def ` of every signature (`<var> + "def " + ...` or f"{<var>}def ...")."""
  found = set()
  for n in walk_no_nested(fn):
    parts = []
    if isinstance(n, ast.BinOp) and isinstance(n.op, ast.Add):
      parts = _flat_add(n)
    elif isinstance(n, ast.JoinedStr):
      parts = [v.value if isinstance(v, ast.FormattedValue) and v.conversion == -1
               and v.format_spec is None else v for v in n.values]
    for i, prt in enumerate(parts):
      if (_const_str(prt) or "").startswith("def "):
        if i == 0 or not isinstance(parts[i - 1], ast.Name):
          raise AnalysisError(
              f"{fn.name}: the text written before 'def ' is not a local: {src(n)[:80]}")
        found.add(parts[i - 1].id)
  if len(found) != 1:
    raise AnalysisError(
        f"{fn.name}: expected one local written before 'def ', found {sorted(found)}")
  return found.pop()


_KIND_ATTRS = frozenset({"kind", "signatures"} | set(_FLAG_ATTRS))


def _kind_blind(pmod, fn):
  """`fn` and every PrintVisitor method it can reach through `self.<m>(..)`
  read none of the attributes a kind/flag decorator is derived from."""
  seen, todo = set(), [fn]
  while todo:
    f = todo.pop()
    if f in seen:
      continue
    seen.add(f)
    for n in ast.walk(f):
      if isinstance(n, ast.Attribute) and n.attr in _KIND_ATTRS:
        return False
      if isinstance(n, ast.Call) and dotted(n.func) in ("getattr", "vars"):
        return False
      c = self_callee(pmod, "PrintVisitor", n)
      if c is not None:
        todo.append(c)
  return True


def _decorator_sites(pmod, fn, var, node, depth=0):
  """Every `var += <text>` that contributes to decorator variable `var` of
  `fn`: [(function, AugAssign, node parameter name)].

  `var = self._Helper(.., node, ..)` (an unconditional statement of the
  function's own block, helper resolved through the local MRO) is followed
  into the helper: every return of the helper must return one and the same
  local, whose `+=` sites are collected with the helper's own path conditions
  and the helper's name for the node.  A helper that is not handed the
  printed node is skipped only if neither it nor anything it calls on `self`
  reads kind / is_* / signatures (it re-prints the declared decorators and
  cannot decide on the method kind).  Any other way decorator text could
  reach `var` is an analysis error."""
  out = []
  for n in walk_no_nested(fn):
    if not isinstance(n, (ast.stmt, ast.NamedExpr, ast.comprehension)):
      continue
    if isinstance(n, ast.AugAssign):
      if var in _names_stored(n.target):
        if not (isinstance(n.target, ast.Name) and isinstance(n.op, ast.Add)):
          raise AnalysisError(f"{fn.name}: {var} updated with non-+=")
        out.append((fn, n, node))
      continue
    if isinstance(n, ast.Assign):
      stored = set().union(*[_names_stored(t) for t in n.targets])
    elif isinstance(n, (ast.If, ast.While, ast.Try, ast.Expr, ast.Return)):
      continue      # their sub-statements are visited on their own
    else:
      stored = set().union(*[_names_stored(c) for c in ast.iter_child_nodes(n)
                             if not isinstance(c, ast.stmt)])
    if var not in stored:
      continue
    if not (isinstance(n, ast.Assign) and len(n.targets) == 1
            and isinstance(n.targets[0], ast.Name)):
      raise AnalysisError(f"{fn.name}: binding of {var} not understood: {src(n)[:80]}")
    value = n.value
    callee = self_callee(pmod, "PrintVisitor", value)
    bind = bind_args(callee, value) if callee is not None else None
    hnode = [p for p, a in (bind or {}).items()
             if isinstance(a, ast.Name) and a.id == node]
    if callee is not None and len(hnode) == 1:
      rets = [r for r in walk_no_nested(callee) if isinstance(r, ast.Return)]
      rvars = {r.value.id if isinstance(r.value, ast.Name) else None for r in rets}
      if depth >= 2 or n not in fn.body or len(rvars) != 1 or None in rvars or \
          not flow.terminates(callee.body):
        raise AnalysisError(
            f"{fn.name}: {var} = {src(value)[:60]}: decorator helper not "
            "understood (it must be called unconditionally and return one "
            "local on every path)")
      out += _decorator_sites(pmod, callee, rvars.pop(), hnode[0], depth + 1)
      continue
    # a (re)initialisation: must not carry kind/flag decorator text itself,
    # directly or through the locals it is computed from
    seen, todo = {var}, [value]
    while todo:
      v = todo.pop()
      if any((_const_str(c) or "").startswith("@") and len(_const_str(c)) > 1
             for c in ast.walk(v)):
        raise AnalysisError(
            f"{fn.name}: {var} bound to decorator text by something other than "
            f"+=: {src(n)[:80]}")
      for c in calls_in(v):
        h = self_callee(pmod, "PrintVisitor", c)
        if h is not None and not _kind_blind(pmod, h):
          raise AnalysisError(
              f"{fn.name}: {var} is built from {src(c)[:60]}, which can see the "
              "method kind/flags but is not a recognised decorator helper")
      for nm in ast.walk(v):
        if isinstance(nm, ast.Name) and nm.id not in seen:
          seen.add(nm.id)
          for b in walk_no_nested(fn):
            if isinstance(b, (ast.Assign, ast.AugAssign, ast.AnnAssign)) and \
                b.value is not None and nm.id in _names_stored(b):
              todo.append(b.value)
            elif isinstance(b, (ast.For, ast.comprehension)) and \
                nm.id in _names_stored(b.target):
              todo.append(b.iter)
  return out


def printer_decorators(ctx):
  """What VisitFunction writes in front of `def`, with the guarding fact.

  Returns a list of dicts: {"spelling", "typing": bool, "why": ("kind", K,
  [exempt names]) | ("flag", x) | ("overload",), "line"}.
  """
  def build():
    pmod = get_module(ctx, PRINTER)
    top = _pv_method(pmod, "VisitFunction")
    out = []
    for fn, n, node in _decorator_sites(pmod, top, _text_before_def(top),
                                        _node_param(top)):
      # names bound to node.name
      name_vars = {f"{node}.name"}
      for a in walk_no_nested(fn):
        if isinstance(a, ast.Assign) and dotted(a.value) == f"{node}.name":
          for t in a.targets:
            if isinstance(t, ast.Name) and once_bound(fn, t.id) is a.value:
              name_vars.add(t.id)
      v = n.value
      lit = _const_str(v)
      typing_dec = False
      if lit is not None:
        m = re.fullmatch(r"@([A-Za-z_][\w.]*)\n", lit)
        if not m:
          raise AnalysisError(f"{fn.name}: decorator text {lit!r} not understood")
        spelling = m.group(1)
      else:
        # "@" + self._FromTyping("x") + "\n"
        parts = _flat_add(v)
        if not (len(parts) == 3 and _const_str(parts[0]) == "@"
                and _const_str(parts[2]) == "\n"
                and isinstance(parts[1], ast.Call)
                and dotted(parts[1].func) == "self._FromTyping"
                and len(parts[1].args) == 1
                and _const_str(parts[1].args[0]) is not None):
          raise AnalysisError(
              f"{fn.name}: decorator expression not understood: {src(v)}")
        spelling = _const_str(parts[1].args[0])
        typing_dec = True
      g = flow.guards(pmod.parent, n, stop=fn)
      if not any(pol for _, pol in g):
        raise AnalysisError(
            f"{fn.name}: @{spelling} is not under a positive guard")
      why = _classify_guard(g, name_vars, pmod, node)
      if why is None:
        raise AnalysisError(
            f"{fn.name}: guard of @{spelling} not understood: "
            + " / ".join(("" if pol else "not ") + src(t) for t, pol in g))
      out.append({"spelling": spelling, "typing": typing_dec, "why": why,
                  "line": n.lineno})
    if not out:
      raise AnalysisError("VisitFunction emits no decorators")
    return out
  return ctx.memo("c05.printer_decorators", build)


def _name_atom(c, name_vars, mod):
  """(set of names, polarity) for `N == lit`, `N != lit`, `N in S`,
  `N not in S` with N a function-name variable and S a foldable collection
  of strings (literal or module constant); else None."""
  if not (isinstance(c, ast.Compare) and len(c.ops) == 1):
    return None
  op, l, r = c.ops[0], c.left, c.comparators[0]
  if isinstance(op, (ast.Eq, ast.NotEq)):
    if dotted(r) in name_vars and _const_str(l) is not None:
      l, r = r, l
    if dotted(l) in name_vars and _const_str(r) is not None:
      return frozenset([_const_str(r)]), isinstance(op, ast.Eq)
    return None
  if isinstance(op, (ast.In, ast.NotIn)) and dotted(l) in name_vars:
    vals = try_fold(r, mod=mod)
    if isinstance(vals, (tuple, list, set, frozenset)) and vals and \
        all(isinstance(v, str) for v in vals):
      return frozenset(vals), isinstance(op, ast.In)
    if isinstance(vals, dict) and vals and all(isinstance(v, str) for v in vals):
      return frozenset(vals), isinstance(op, ast.In)
    raise AnalysisError(
        f"name test against a collection that does not fold: {src(c)}")
  return None


def _kind_atom(c, node="node"):
  if isinstance(c, ast.Compare) and len(c.ops) == 1 and \
      isinstance(c.ops[0], (ast.Eq, ast.Is)):
    l, r = dotted(c.left), dotted(c.comparators[0])
    if r == f"{node}.kind":
      l, r = r, l
    if l == f"{node}.kind" and (r or "").startswith("pytd.MethodKind."):
      return r.rsplit(".", 1)[1]
  return None


def _classify_guard(guards, name_vars, mod=None, node="node"):
  """The path condition of one `decorators += ...` as a decorator reason.

  `guards` is flow.guards() output (or, for convenience, a bare test).  The
  condition is a conjunction of literals: positive tests are flattened over
  `and`, negated tests over `or` (De Morgan).  A negated conjunction (the
  `elif` residue of an earlier arm) is redundant when it contains a
  `node.kind == K'` for a kind other than the one this path tests positively;
  any other negated conjunction that mentions the function name is outside
  the fragment."""
  if isinstance(guards, ast.AST):
    guards = [(guards, True)]
  pos, neg_conj = [], []   # [(expr, polarity)], [[expr, ...]]
  def add(t, pol):
    while isinstance(t, ast.UnaryOp) and isinstance(t.op, ast.Not):
      t, pol = t.operand, not pol
    if isinstance(t, ast.BoolOp):
      if isinstance(t.op, ast.And) == pol:
        for v in t.values:
          add(v, pol)
      elif not pol:
        neg_conj.append(list(t.values))
      else:
        pos.append((t, True))   # a positive disjunction: opaque
    else:
      pos.append((t, pol))
  for t, pol in guards:
    add(t, pol)
  kind = None
  exempt = set()
  others = []
  for t, pol in pos:
    k = _kind_atom(t, node)
    if k is not None:
      if pol:
        if kind not in (None, k):
          return None
        kind = k
      continue  # `kind != K'`: no information about the name
    na = _name_atom(t, name_vars, mod)
    if na is not None:
      names, npol = na
      if npol == pol:
        return None  # decorator only FOR some names: not an exemption
      exempt |= names
      continue
    others.append((t, pol))
  for conj in neg_conj:
    ks = [_kind_atom(c, node) for c in conj]
    if kind is not None and any(k is not None and k != kind for k in ks):
      continue
    if any(k is not None for k in ks) or any(
        dotted(n) in name_vars for c in conj for n in ast.walk(c)):
      return None
    others.append((conj, False))
  if kind is not None:
    return ("kind", kind, sorted(exempt)) if not others else None
  if exempt or len(others) != 1 or not others[0][1]:
    return None
  test = others[0][0]
  d = dotted(test)
  if d and d.startswith(node + ".") and d[len(node) + 1:] in _FLAG_ATTRS:
    return ("flag", _FLAG_ATTRS[d[len(node) + 1:]])
  if isinstance(test, ast.Compare) and len(test.ops) == 1 and \
      isinstance(test.ops[0], ast.Gt) and \
      src(test.left) == f"len({node}.signatures)" and \
      try_fold(test.comparators[0]) == 1:
    return ("overload",)
  return None


def reader_kinds(ctx):
  """codegen/function.py: decorator literal -> MethodKind, implicit names."""
  def build():
    mod = get_module(ctx, CODEGEN_FN)
    fn = mod.func("merge_method_signatures")
    lit_to_flag = {}
    for loop in walk_no_nested(fn):
      if not (isinstance(loop, ast.For) and dotted(loop.iter) == "fn.decorators"):
        continue
      var = dotted(loop.target)
      for st in loop.body:
        if not isinstance(st, ast.If):
          continue
        arms, _ = if_chain(st)
        for test, body in arms:
          if isinstance(test, ast.Compare) and len(test.ops) == 1 and \
              isinstance(test.ops[0], ast.Eq) and \
              dotted(test.left) == f"{var}.type.name" and \
              _const_str(test.comparators[0]) is not None:
            flags = [dotted(s.targets[0]) for s in body
                     if isinstance(s, ast.Assign) and len(s.targets) == 1
                     and isinstance(s.value, ast.Constant) and s.value.value is True]
            if len(flags) != 1:
              raise AnalysisError(
                  "merge_method_signatures: decorator arm shape not understood")
            lit_to_flag[_const_str(test.comparators[0])] = flags[0]
    if not lit_to_flag:
      raise AnalysisError(
          "merge_method_signatures: no `decorator.type.name == <lit>` arms")
    # kind chain
    flag_to_kind, implicit, prop_kind = {}, {}, None
    chains = [s for s in walk_no_nested(fn) if isinstance(s, ast.If) and any(
        isinstance(b, ast.Assign) and dotted(b.targets[0]) == "kind"
        for b in s.body)]
    heads = [c for c in chains
             if not (isinstance(mod.parent.get(c), ast.If)
                     and c in mod.parent[c].orelse)]
    if len(heads) != 1:
      raise AnalysisError("merge_method_signatures: kind chain not found")
    arms, els = if_chain(heads[0])
    def kind_of(body):
      ks = [dotted(b.value) for b in body if isinstance(b, ast.Assign)
            and dotted(b.targets[0]) == "kind"]
      if len(ks) != 1 or not (ks[0] or "").startswith("pytd.MethodKind."):
        raise AnalysisError("merge_method_signatures: kind arm not understood")
      return ks[0].rsplit(".", 1)[1]
    for test, body in arms:
      k = kind_of(body)
      disj = test.values if isinstance(test, ast.BoolOp) and \
          isinstance(test.op, ast.Or) else [test]
      for d in disj:
        if isinstance(d, ast.Name):
          flag_to_kind[d.id] = k
        elif (na := _name_atom(d, {"name", "fn.name"}, mod)) is not None:
          names, pol = na
          if not pol:
            raise AnalysisError(
                f"merge_method_signatures: negative name test in the kind "
                f"chain not understood: {src(d)}")
          # an earlier arm wins: the chain is evaluated top-down
          taken = {x for v in implicit.values() for x in v}
          implicit.setdefault(k, []).extend(sorted(names - taken))
        elif dotted(d) == "fn.properties":
          prop_kind = k
        else:
          raise AnalysisError(
              f"merge_method_signatures: kind test not understood: {src(d)}")
    if kind_of(els) != "METHOD":
      raise AnalysisError("merge_method_signatures: default kind is not METHOD")
    lit_to_kind = {lit: flag_to_kind[f] for lit, f in lit_to_flag.items()
                   if f in flag_to_kind}
    # property decorators: `fn.properties` is set from _property_decorators keys
    pfn = mod.func("_property_decorators")
    rets = [n for n in walk_no_nested(pfn) if isinstance(n, ast.Return)]
    if len(rets) != 1 or not isinstance(rets[0].value, ast.Dict):
      raise AnalysisError("_property_decorators: dict literal not found")
    prop_lits = {}
    for k, v in zip(rets[0].value.keys, rets[0].value.values):
      ks = _const_str(k)
      if ks is not None and isinstance(v, ast.Call) and v.args:
        prop_lits[ks] = _const_str(v.args[0])
    post = mod.func("_DecoratedFunction.__post_init__")
    wired = any(isinstance(n, ast.Assign) and dotted(n.targets[0]) == "self.prop_names"
                and isinstance(n.value, ast.Call)
                and dotted(n.value.func) == "_property_decorators"
                for n in walk_no_nested(post))
    if not wired:
      raise AnalysisError("_DecoratedFunction.__post_init__: prop_names wiring")
    if prop_kind is not None:
      for lit, role in prop_lits.items():
        if role == "getter":
          lit_to_kind[lit] = prop_kind
    return {"lit_to_kind": lit_to_kind, "implicit": implicit,
            "line": fn.lineno}
  return ctx.memo("c05.reader_kinds", build)


def reader_flags(ctx):
  """parser._extract_function_properties: flag var -> target names."""
  def build():
    mod = get_module(ctx, PARSER)
    fn = mod.func("_GeneratePytdVisitor._extract_function_properties")
    loops = [n for n in walk_no_nested(fn) if isinstance(n, ast.For)
             and dotted(n.iter) == "node.decorator_list"]
    if len(loops) != 1:
      raise AnalysisError("_extract_function_properties: decorator loop not found")
    var = dotted(loops[0].target)
    ifs = [s for s in loops[0].body if isinstance(s, ast.If)]
    if len(ifs) != 1:
      raise AnalysisError("_extract_function_properties: arm chain not found")
    arms, _ = if_chain(ifs[0])
    out = {}
    for test, body in arms:
      if not (isinstance(test, ast.Call)
              and dotted(test.func) == "self.defs.matches_type"
              and len(test.args) == 2 and dotted(test.args[0]) == f"{var}.name"):
        raise AnalysisError(
            f"_extract_function_properties: arm test not understood: {src(test)}")
      targets = try_fold(test.args[1], mod=mod)
      if isinstance(targets, str):
        targets = (targets,)
      if not (isinstance(targets, tuple) and all(isinstance(t, str) for t in targets)):
        raise AnalysisError(
            f"_extract_function_properties: targets not literal: {src(test.args[1])}")
      flags = [dotted(s.targets[0]) for s in body if isinstance(s, ast.Assign)
               and isinstance(s.value, ast.Constant) and s.value.value is True]
      if len(flags) != 1:
        raise AnalysisError("_extract_function_properties: arm body not understood")
      out[flags[0]] = {"targets": list(targets), "line": test.lineno}
    # the flags must reach SigProperties under their own names
    sp = [c for c in calls_in(fn) if (dotted(c.func) or "").endswith("SigProperties")]
    if len(sp) != 1:
      raise AnalysisError("_extract_function_properties: SigProperties call")
    for k in sp[0].keywords:
      if k.arg in out and dotted(k.value) != k.arg:
        raise AnalysisError(
            f"SigProperties({k.arg}={src(k.value)}): flag wiring not understood")
    return out
  return ctx.memo("c05.reader_flags", build)


def _eq_literal_atoms(conds):
  """[(expr, literal)] for every `expr == <str literal>` that holds under the
  path condition `conds` ([(test, polarity)]): positive tests are flattened
  over `and`, negated tests over `or`, `!=` under negation counts as `==`."""
  out = []
  def add(t, pol):
    while isinstance(t, ast.UnaryOp) and isinstance(t.op, ast.Not):
      t, pol = t.operand, not pol
    if isinstance(t, ast.BoolOp):
      if isinstance(t.op, ast.And) == pol:
        for v in t.values:
          add(v, pol)
      return
    if isinstance(t, ast.Compare) and len(t.ops) == 1 and \
        isinstance(t.ops[0], (ast.Eq, ast.NotEq)) and \
        isinstance(t.ops[0], ast.Eq) == pol:
      l, r = t.left, t.comparators[0]
      if _const_str(l) is not None:
        l, r = r, l
      if _const_str(r) is not None and _const_str(l) is None:
        out.append((l, _const_str(r)))
  for t, pol in conds:
    add(t, pol)
  return out


def _none_abbreviation(pmod):
  """The name VisitNamedType abbreviates to `None`.

  Every place where VisitNamedType returns the literal "None" (a `return
  "None"` statement or an arm of a returned conditional expression) is taken
  with its path condition - enclosing tests, negated earlier early exits
  (`if name != "NoneType": return name` + `return "None"`), the conditional
  expression's own test.  Exactly one such place, whose condition contains
  exactly one `<expr> == <literal>`, is understood."""
  vnt = _pv_method(pmod, "VisitNamedType")
  places = []
  for n in walk_no_nested(vnt):
    if not isinstance(n, ast.Return) or n.value is None:
      continue
    arms = [(n.value, [])]
    while arms:
      e, extra = arms.pop()
      if isinstance(e, ast.IfExp):
        arms.append((e.body, extra + [(e.test, True)]))
        arms.append((e.orelse, extra + [(e.test, False)]))
      elif _const_str(e) == "None":
        places.append(flow.guards(pmod.parent, n, stop=vnt) + extra)
      elif any(_const_str(c) == "None" for c in ast.walk(e)):
        raise AnalysisError(
            f"VisitNamedType: \"None\" inside a returned expression: {src(e)[:60]}")
  if not places:
    raise AnalysisError("VisitNamedType: `None` abbreviation arm not found")
  if len(places) > 1:
    raise AnalysisError("VisitNamedType: \"None\" is returned in several places")
  atoms = _eq_literal_atoms(places[0])
  if len(atoms) != 1:
    raise AnalysisError(
        "VisitNamedType: the condition under which \"None\" is returned is not "
        "one comparison with a literal: "
        + " / ".join(("" if pol else "not ") + src(t) for t, pol in places[0]))
  return atoms[0][1]


@rule("R5.3", "C05", floor=11)
def r5_3(ctx):
  """Decorators and special spellings the printer emits are read back."""
  decs = printer_decorators(ctx)
  kinds = reader_kinds(ctx)
  flags = reader_flags(ctx)
  for d in decs:
    sp, why = d["spelling"], d["why"]
    if why[0] == "kind":
      got = kinds["lit_to_kind"].get(sp)
      ctx.check(got == why[1], f"decorator:@{sp}", PRINTER, d["line"],
                f"printer writes @{sp} for MethodKind.{why[1]} but "
                f"codegen/function.py reads @{sp} back as "
                f"{'MethodKind.' + got if got else 'an ordinary decorator'}",
                {"printer_kind": why[1], "reader_kind": got,
                 "reader_table": kinds["lit_to_kind"]})
    else:
      var = why[1] if why[0] == "flag" else "overload"
      if var not in flags:
        # reader_flags() understood every arm of the chain (it raises
        # otherwise), so the arm is definitely missing
        ctx.bad(f"decorator:@{sp}", PRINTER, d["line"],
                f"printer writes @{sp} for the `{var}` flag but "
                f"_extract_function_properties has no `{var} = True` arm (arms: "
                f"{sorted(flags)}): it is read back as an ordinary decorator",
                {"flag": var, "reader_arms": sorted(flags)})
        continue
      targets = flags[var]["targets"]
      if d["typing"]:
        ok = any(t == f"typing.{sp}" or
                 (t.rsplit(".", 1)[-1] == sp and
                  t.rsplit(".", 1)[0] in ("typing_extensions", "collections.abc"))
                 for t in targets)
      else:
        ok = any(t.rsplit(".", 1)[-1] == sp for t in targets)
      ctx.check(ok, f"decorator:@{sp}", PRINTER, d["line"],
                f"printer writes @{sp} for the `{var}` flag but no target of "
                f"the parser's `{var}` arm has that name: {targets}",
                {"flag": var, "targets": targets, "typing_member": d["typing"]})
  # bare names are matched by base name
  dmod = get_module(ctx, DEFS)
  mt = dmod.func("Definitions.matches_type")
  base_var = None
  for n in walk_no_nested(mt):
    if isinstance(n, ast.Assign) and isinstance(n.targets[0], ast.Tuple) and \
        isinstance(n.value, ast.Call) and dotted(n.value.func) == "target.rsplit" \
        and len(n.targets[0].elts) == 2:
      base_var = dotted(n.targets[0].elts[1])
  if base_var is None:
    raise AnalysisError("matches_type: `_, base = target.rsplit('.', 1)` not found")
  arm = None
  compares = [n for n in walk_no_nested(mt) if isinstance(n, ast.Compare)
              and len(n.ops) == 1 and isinstance(n.ops[0], ast.Eq)
              and {dotted(n.left), dotted(n.comparators[0])} == {"name", base_var}]
  for n in walk_no_nested(mt):
    if isinstance(n, ast.If) and n.test in compares and \
        isinstance(n.body[-1], ast.Return) and \
        try_fold(n.body[-1].value) is True and dmod.parent.get(n) is mt:
      arm = n
  if arm is None and compares:
    raise AnalysisError(
        "matches_type: comparison with the target's base name is present but "
        "not as a top-level `if name == base: return True`")
  ctx.check(arm is not None, "matches_type:bare-name", DEFS,
            arm.lineno if arm else mt.lineno,
            "Definitions.matches_type must accept a bare name equal to the "
            "target's base name (`@abstractmethod`, `@coroutine`, `@final` "
            "are printed without a module)", {"base_var": base_var})
  # 'nothing'
  pmod = get_module(ctx, PRINTER)
  vn = _pv_method(pmod, "VisitNothingType")
  rets = [n for n in walk_no_nested(vn) if isinstance(n, ast.Return)]
  if len(rets) != 1 or _const_str(rets[0].value) is None:
    raise AnalysisError("VisitNothingType: literal return not found")
  nothing = _const_str(rets[0].value)
  rt = dmod.func("Definitions.resolve_type")
  ok = False
  for n in walk_no_nested(rt):
    if isinstance(n, ast.If) and isinstance(n.test, ast.Compare) and \
        len(n.test.ops) == 1 and isinstance(n.test.ops[0], ast.Eq) and \
        dotted(n.test.left) == "name" and \
        _const_str(n.test.comparators[0]) == nothing and \
        isinstance(n.body[-1], ast.Return) and \
        src(n.body[-1].value) == "pytd.NothingType()":
      ok = True
  if not ok and any(_const_str(n) == nothing for n in ast.walk(rt)):
    raise AnalysisError(
        f"resolve_type mentions {nothing!r} but not as "
        "`if name == <lit>: return pytd.NothingType()`")
  ctx.check(ok, "spelling:nothing", DEFS, rt.lineno,
            f"printer spells NothingType as {nothing!r}; "
            "Definitions.resolve_type must map that name to pytd.NothingType()",
            {"printer": nothing})
  # return position: Never
  vs = _pv_method(pmod, "VisitSignature")
  alias = cmp_lit = None
  for n in walk_no_nested(vs):
    if isinstance(n, ast.If) and isinstance(n.test, ast.Compare) and \
        dotted(n.test.left) == "node.return_type" and \
        isinstance(n.test.ops[0], ast.Eq):
      for st in n.body:
        if isinstance(st, ast.Assign) and dotted(st.targets[0]) == "return_type" \
            and isinstance(st.value, ast.Call) and \
            dotted(st.value.func) == "self._FromTyping":
          alias = _const_str(st.value.args[0])
          cmp_lit = _const_str(n.test.comparators[0])
  if alias is None:
    raise AnalysisError("VisitSignature: return-type alias arm not found")
  tn = stub_toplevel(ctx, TYPING)
  val = tn.get(alias)
  for _ in range(5):  # NoReturn-style alias chains
    if isinstance(val, ast.Name) and val.id != nothing and \
        isinstance(tn.get(val.id), ast.Name):
      val = tn[val.id]
  ok = cmp_lit == nothing and isinstance(val, ast.Name) and val.id == nothing
  ctx.check(ok, f"spelling:{alias}", PRINTER, vs.lineno,
            f"a {cmp_lit!r} return type is printed as typing.{alias}; typing.pytd "
            f"must define `{alias} = {nothing}` and the printer must test the "
            f"NothingType spelling {nothing!r}",
            {"alias": alias, "tested": cmp_lit,
             "typing.pytd": src(val) if isinstance(val, ast.AST) else None})
  # NoneType <-> None
  none_name = _none_abbreviation(pmod)
  amod = get_module(ctx, PARSER)
  vp = amod.func("_AnnotationVisitor.visit_Pyval")
  got = None
  for n in walk_no_nested(vp):
    if isinstance(n, ast.If) and isinstance(n.test, ast.Compare) and \
        dotted(n.test.left) == "node.type" and isinstance(n.test.ops[0], ast.Eq) \
        and isinstance(n.body[-1], ast.Return) and \
        isinstance(n.body[-1].value, ast.Call) and \
        dotted(n.body[-1].value.func) == "pytd.NamedType":
      got = (_const_str(n.test.comparators[0]),
             _const_str(n.body[-1].value.args[0]))
      break
  host = type(None).__name__
  if got is None and any(_const_str(n) == host for n in ast.walk(vp)):
    raise AnalysisError(
        f"visit_Pyval mentions {host!r} but not as "
        "`if node.type == <lit>: return pytd.NamedType(<lit>)`")
  ctx.check(got == (host, none_name), "spelling:None", PARSER, vp.lineno,
            f"printer abbreviates {none_name!r} to None; the parser must turn "
            f"the constant None (Pyval type {host!r}) into "
            f"NamedType({none_name!r}); found {got}",
            {"printer": none_name, "parser": got, "host": host})


@rule("R5.6", "C05", floor=2)
def r5_6(ctx):
  """The names for which the reader infers a method kind without a decorator
  are exactly the names for which the printer omits that kind's decorator."""
  decs = printer_decorators(ctx)
  kinds = reader_kinds(ctx)
  printer = {}   # kind -> (spelling, line, exempt names)
  for d in decs:
    if d["why"][0] != "kind":
      continue
    _, k, exempt = d["why"]
    if k in printer:
      raise AnalysisError(f"VisitFunction: two decorator arms for MethodKind.{k}")
    printer[k] = (d["spelling"], d["line"], set(exempt))
  reader = {k: set(v) for k, v in kinds["implicit"].items() if v}
  if not any(p[2] for p in printer.values()) and not reader:
    raise AnalysisError("neither VisitFunction nor merge_method_signatures "
                        "treats any method name specially any more")
  for k in sorted(set(reader) - set(printer)):
    raise AnalysisError(
        f"merge_method_signatures infers MethodKind.{k} from the name for "
        f"{sorted(reader[k])} but VisitFunction has no decorator arm for {k}")
  for k in sorted(printer):
    sp, line, exempt = printer[k]
    imp = reader.get(k, set())
    for name in sorted(exempt | imp):
      facts = {"kind": k, "printer_exempt": sorted(exempt),
               "reader_implicit": sorted(imp)}
      if name in exempt and name not in imp:
        ctx.bad(f"implicit:{k}:{name}", PRINTER, line,
                f"printer omits @{sp} on {name!r} but "
                f"merge_method_signatures only infers MethodKind.{k} for "
                f"{sorted(imp)}: a {k} {name!r} is read back as a plain method",
                facts)
      elif name in imp and name not in exempt:
        ctx.bad(f"implicit:{k}:{name}", CODEGEN_FN, kinds["line"],
                f"merge_method_signatures makes every {name!r} a {k} from its "
                f"name alone, but the printer omits @{sp} only for "
                f"{sorted(exempt)}: an undecorated {name!r} (kind METHOD, e.g. "
                "from the inferencer) is re-read as "
                f"{k} and re-printed WITH @{sp}, so print/parse is not a "
                "fixed point", facts)
      else:
        ctx.ok(f"implicit:{k}:{name}", PRINTER, line, facts)


# -- R5.4 ------------------------------------------------------------------------

@rule("R5.4", "C05", floor=7)
def r5_4(ctx):
  """Keyword mangling f-string and un-mangling regex agree."""
  mod = get_module(ctx, PARSER)
  fwd = mod.func("_keyword_to_parseable_name")
  back = mod.func("_parseable_name_to_real_name")
  rets = [n for n in walk_no_nested(fwd) if isinstance(n, ast.Return)]
  if len(rets) != 1 or not isinstance(rets[0].value, ast.JoinedStr):
    raise AnalysisError("_keyword_to_parseable_name: f-string return not found")
  vals = rets[0].value.values
  param = fwd.args.args[0].arg
  fmt = [v for v in vals if isinstance(v, ast.FormattedValue)]
  if len(fmt) != 1 or dotted(fmt[0].value) != param or fmt[0].format_spec \
      or fmt[0].conversion != -1:
    raise AnalysisError("_keyword_to_parseable_name: template not understood")
  i = vals.index(fmt[0])
  prefix = "".join(str(v.value) for v in vals[:i])
  suffix = "".join(str(v.value) for v in vals[i + 1:])
  # regex
  rcalls = [c for c in calls_in(back) if (dotted(c.func) or "").startswith("re.")]
  if len(rcalls) != 1 or len(rcalls[0].args) != 2:
    raise AnalysisError("_parseable_name_to_real_name: re call not found")
  how = dotted(rcalls[0].func).split(".", 1)[1]
  if how not in ("fullmatch", "match", "search"):
    raise AnalysisError(f"_parseable_name_to_real_name: re.{how} not understood")
  pat = _const_str(rcalls[0].args[0])
  if pat is None:
    raise AnalysisError("_parseable_name_to_real_name: pattern not literal")
  try:
    parsed = _sre_parser.parse(pat)
  except re.error as e:
    raise AnalysisError(f"pattern {pat!r} does not parse: {e}") from e
  items = list(parsed)
  LIT = _sre_parser.LITERAL
  def lits(seq):
    out = ""
    for op, av in seq:
      if op is not LIT:
        break
      out += chr(av)
    return out
  rx_prefix = lits(items)
  rx_suffix = lits(reversed(items))[::-1]
  middle = items[len(rx_prefix):len(items) - len(rx_suffix)]
  groups = [g for g in calls_in(back) if isinstance(g.func, ast.Attribute)
            and g.func.attr == "group" and g.args]
  if len(groups) != 1:
    raise AnalysisError("_parseable_name_to_real_name: m.group(..) not found")
  gname = try_fold(groups[0].args[0])
  facts = {"template": f"{prefix}{{kw}}{suffix}", "pattern": pat, "re": how,
           "regex_prefix": rx_prefix, "regex_suffix": rx_suffix, "group": gname}
  ctx.check(prefix == rx_prefix, "mangle:prefix", PARSER, back.lineno,
            f"mangling writes prefix {prefix!r}, the regex expects {rx_prefix!r}",
            facts)
  ctx.check(suffix == rx_suffix, "mangle:suffix", PARSER, back.lineno,
            f"mangling writes suffix {suffix!r}, the regex expects {rx_suffix!r}",
            facts)
  gd = parsed.state.groupdict
  gindex = gd.get(gname) if isinstance(gname, str) else gname
  ok = (len(middle) == 1 and middle[0][0] is _sre_parser.SUBPATTERN
        and gindex is not None and gindex == middle[0][1][0])
  ctx.check(ok, "mangle:group", PARSER, back.lineno,
            f"the text between prefix and suffix must be exactly the group "
            f"that is returned (group {gname!r}, groups {dict(gd)})", facts)
  # semantic round trip over the host keyword list
  bad = []
  try:
    rx = re.compile(pat)
    for kw in _keyword.kwlist:
      m = getattr(rx, how)(prefix + kw + suffix)
      got = m.group(gname) if m else prefix + kw + suffix
      if got != kw:
        bad.append((kw, got))
  except (re.error, IndexError) as e:
    bad.append(("<error>", str(e)))
  ctx.check(not bad, "mangle:roundtrip", PARSER, back.lineno,
            f"un-mangling does not invert mangling for {bad[:3]}",
            {"keywords": len(_keyword.kwlist), "failures": bad[:5], **facts})
  # call sites
  sites = {
      "_fix_src": ("_keyword_to_parseable_name", "_fix_src"),
      "visit_Name": ("_parseable_name_to_real_name",
                     "_GeneratePytdVisitor.visit_Name"),
      "enter_ClassDef": ("_parseable_name_to_real_name",
                         "_GeneratePytdVisitor.enter_ClassDef"),
  }
  for label, (callee, where) in sites.items():
    fn = mod.func(where)
    n = len(calls_in(fn, name=callee))
    ctx.check(n >= 1, f"mangle:callsite:{label}", PARSER, fn.lineno,
              f"{where} no longer calls {callee}: mangled names are not "
              "produced / not mapped back", {"calls": n})


# -- R5.5 ------------------------------------------------------------------------

def _straight_defs(fn):
  """name -> [value exprs in order] for a straight-line function body."""
  order = []
  for st in fn.body:
    if isinstance(st, ast.Expr) and isinstance(st.value, ast.Constant):
      continue
    if isinstance(st, (ast.If, ast.For, ast.While, ast.Try, ast.With, ast.Match)):
      raise AnalysisError(f"{fn.name}: not straight-line any more")
    order.append(st)
  return order


def _visit_of(call, visitor_names):
  """X if call is `X.Visit(<mod>.<V>())` with V in visitor_names else None."""
  if isinstance(call, ast.Call) and isinstance(call.func, ast.Attribute) and \
      call.func.attr == "Visit" and len(call.args) == 1 and \
      isinstance(call.args[0], ast.Call):
    d = dotted(call.args[0].func) or ""
    if d.split(".")[-1] in visitor_names:
      return call.func.value, d.split(".")[-1]
  return None


class _PyiPipeline:
  """Must-flow of two facts through a function of io.py: "verified" (a
  VerifyVisitor visit has run on every path) and "ordered:<local>" (the local
  holds the result of pytd_utils.CanonicalOrdering).

  Calls to functions defined at the top level of the same module are looked
  through (two levels): a helper counts as verifying when "verified" holds at
  every return/fall-off exit of it, and as returning an ordered AST when every
  exit is a `return` of a CanonicalOrdering call, of a local that is ordered
  at that point, or of another such helper."""

  def __init__(self, mod):
    self.mod, self.memo = mod, {}

  def _local(self, call, within, depth):
    if isinstance(call, ast.Call) and isinstance(call.func, ast.Name) and depth < 2:
      fn = self.mod.functions.get(call.func.id)
      if fn is not None and fn is not within and not fn.decorator_list:
        return fn
    return None

  def summary(self, fn, depth):
    if fn in self.memo:
      return self.memo[fn]
    self.memo[fn] = (False, False)
    f = self.flow(fn, depth)
    exits = [(k, n, st) for k, n, st in f.exits if k in ("return", "end")]
    verified = bool(exits) and all(st is not None and "verified" in st
                                   for _, _, st in exits)
    ordered = bool(exits) and all(
        k == "return" and n.value is not None and st is not None and (
            self.is_ordering(n.value, fn, depth)
            or (isinstance(n.value, ast.Name) and f"ordered:{n.value.id}" in st))
        for k, n, st in exits)
    self.memo[fn] = (verified, ordered)
    return self.memo[fn]

  def verifies(self, call, within, depth=0):
    if _visit_of(call, {"VerifyVisitor"}):
      return True
    fn = self._local(call, within, depth)
    return fn is not None and self.summary(fn, depth + 1)[0]

  def is_ordering(self, value, within, depth=0):
    if isinstance(value, ast.Call) and \
        dotted(value.func) == "pytd_utils.CanonicalOrdering":
      return True
    fn = self._local(value, within, depth)
    return fn is not None and self.summary(fn, depth + 1)[1]

  def flow(self, fn, depth=0):
    def gen(unit):
      out = []
      for n in flow.unconditional_calls(unit):
        if self.verifies(n, fn, depth):
          out.append("verified")
      if isinstance(unit, ast.Assign) and len(unit.targets) == 1 and \
          dotted(unit.targets[0]) and self.is_ordering(unit.value, fn, depth):
        direct = dotted(unit.value.func) == "pytd_utils.CanonicalOrdering"
        # x = CanonicalOrdering(x): the same AST, now ordered; a helper's
        # result is ordered whatever it was computed from
        if not direct or (unit.value.args and
                          dotted(unit.targets[0]) == dotted(unit.value.args[0])):
          out.append("ordered:" + dotted(unit.targets[0]))
      return out
    def kill(unit):
      if isinstance(unit, ast.Assign) and not self.is_ordering(unit.value, fn, depth):
        names = {dotted(t) for t in unit.targets}
        return lambda fact: fact.startswith("ordered:") and fact.split(":", 1)[1] in names
      return None
    return flow.flow(fn, gen, kill, mode="must")


@rule("R5.5", "C05", floor=8)
def r5_5(ctx):
  """Fixpoint witness wiring."""
  pmod = get_module(ctx, PARSER)
  fn = pmod.func("canonical_pyi")
  stmts = _straight_defs(fn)
  # symbolic execution of the straight-line body: name -> list of steps
  hist = {}
  verified = set()
  ret = None
  transforms = {"ClassTypeToNamedType", "CanonicalOrderingVisitor"}
  def chain_of(e):
    """The steps that produced the value of expression `e`: ["parse",
    <visitor>, ...]; visits may be chained in one expression or spread over
    (re)bound locals.  A step that is not understood starts with "?"."""
    if isinstance(e, ast.Name):
      return list(hist.get(e.id, [f"?{e.id}"]))
    vo = _visit_of(e, transforms)
    if vo:
      return chain_of(vo[0]) + [vo[1]]
    if isinstance(e, ast.Call) and dotted(e.func) in ("parse_string", "parse_pyi") \
        and e.args and dotted(e.args[0]) == fn.args.args[0].arg:
      return ["parse"]
    return [f"?{src(e)[:40]}"]
  for st in stmts:
    if isinstance(st, ast.Assign) and len(st.targets) == 1 and \
        isinstance(st.targets[0], ast.Name):
      tgt = st.targets[0].id
      hist[tgt] = chain_of(st.value)
      verified.discard(tgt)
    elif isinstance(st, ast.Expr):
      vo = _visit_of(st.value, {"VerifyVisitor"})
      if vo and isinstance(vo[0], ast.Name):
        verified.add(vo[0].id)
    elif isinstance(st, ast.Return):
      ret = st
    elif isinstance(st, (ast.Assign, ast.AugAssign, ast.AnnAssign, ast.Delete)):
      raise AnalysisError(f"canonical_pyi: statement not understood: {src(st)[:60]}")
  if ret is None or not isinstance(ret.value, ast.Call):
    raise AnalysisError("canonical_pyi: return not understood")
  if dotted(ret.value.func) == "pytd_utils.Print" and ret.value.args:
    pe = ret.value.args[0]
    printed = pe.id if isinstance(pe, ast.Name) else None
    chain = chain_of(pe)
  else:
    printed, chain = None, []
  unknown = [s for s in chain if s.startswith("?")]
  if unknown:
    # a value or transformation the rule does not know: it may or may not
    # keep the canonical order, so nothing is decided
    raise AnalysisError(
        f"canonical_pyi: step {unknown[0][1:]!r} of the printed value is not "
        f"understood (chain {chain})")
  ok = bool(chain) and chain[0] == "parse" and "CanonicalOrderingVisitor" in chain
  ctx.check(ok, "canonical_pyi:parse->order->print", PARSER, ret.lineno,
            f"canonical_pyi must return pytd_utils.Print of the canonically "
            f"ordered parse of its argument; chain of the printed value: {chain}",
            {"chain": chain, "returns": src(ret.value)[:80]})
  ctx.check(printed in verified, "canonical_pyi:verify", PARSER, ret.lineno,
            "the AST that canonical_pyi prints must have been passed to "
            "VerifyVisitor after its last transformation",
            {"printed": printed, "verified": sorted(verified)})
  # pytd_utils.Print uses the PrintVisitor; CanonicalOrdering the ordering visitor
  umod = get_module(ctx, PYTD_UTILS)
  pr = umod.func("Print")
  r = [n for n in walk_no_nested(pr) if isinstance(n, ast.Return)]
  if not (len(r) == 1 and pr.body and pr.body[-1] is r[0]
          and isinstance(r[0].value, ast.Call)
          and isinstance(r[0].value.func, ast.Attribute)
          and r[0].value.func.attr == "Visit"
          and dotted(r[0].value.func.value) == pr.args.args[0].arg
          and len(r[0].value.args) == 1 and not r[0].value.keywords):
    raise AnalysisError(
        "pytd_utils.Print: not a single final `return <ast>.Visit(<visitor>)`")
  vis = r[0].value.args[0]
  if isinstance(vis, ast.Name):
    # the visitor hoisted into a local that is bound once, unconditionally
    vis = once_bound(pr, vis.id)
    if vis is None:
      raise AnalysisError(
          f"pytd_utils.Print: visitor local `{src(r[0].value.args[0])}` is not "
          "bound exactly once at the top level of the function")
  if not isinstance(vis, ast.Call) or dotted(vis.func) is None:
    raise AnalysisError(
        f"pytd_utils.Print: visitor expression not understood: {src(vis)[:60]}")
  ctx.check(dotted(vis.func) == "printer.PrintVisitor",
            "pytd_utils.Print:PrintVisitor", PYTD_UTILS, pr.lineno,
            "pytd_utils.Print must visit its argument with printer.PrintVisitor",
            {"returns": src(r[0].value), "visitor": src(vis)})
  co = umod.func("CanonicalOrdering")
  r = [n for n in walk_no_nested(co) if isinstance(n, ast.Return)]
  vo = _visit_of(r[0].value, {"CanonicalOrderingVisitor"}) if len(r) == 1 else None
  ctx.check(bool(vo) and dotted(vo[0]) == co.args.args[0].arg,
            "pytd_utils.CanonicalOrdering", PYTD_UTILS, co.lineno,
            "CanonicalOrdering must visit its argument with "
            "CanonicalOrderingVisitor", {"returns": src(r[0].value) if r else None})
  vmod = get_module(ctx, VISITORS)
  al = dotted(vmod.assigns.get("CanonicalOrderingVisitor"))
  ctx.check(al == "pytd_visitors.CanonicalOrderingVisitor",
            "visitors.CanonicalOrderingVisitor", VISITORS, 0,
            f"visitors.CanonicalOrderingVisitor is {al}; canonical_pyi and "
            "generate_pyi_ast must order with the same visitor", {"alias": al})
  # io.generate_pyi_ast: verified and canonically ordered before it is stored
  imod = get_module(ctx, IO)
  g = imod.func("generate_pyi_ast")
  pipe = _PyiPipeline(imod)
  f = pipe.flow(g)
  stores = [n for n in ast.walk(g) if isinstance(n, ast.Assign)
            and dotted(n.targets[0]) == "ret.ast"]
  if len(stores) != 1:
    raise AnalysisError("generate_pyi_ast: `ret.ast = ...` store not found")
  st = f.before.get(stores[0]) or frozenset()
  value = stores[0].value
  if isinstance(value, ast.Call):
    # stored straight from the call that finishes the AST
    verified = "verified" in st or pipe.verifies(value, g)
    ordered = pipe.is_ordering(value, g)
    stored = src(value)[:40]
  elif dotted(value):
    stored = dotted(value)
    verified, ordered = "verified" in st, f"ordered:{stored}" in st
  else:
    raise AnalysisError(f"generate_pyi_ast: stored value not understood: {src(value)[:60]}")
  ctx.check(verified, "generate_pyi_ast:verify", IO, stores[0].lineno,
            "every path to `ret.ast = mod` must run VerifyVisitor on the "
            "inferred AST", {"facts": sorted(st)})
  ctx.check(ordered, "generate_pyi_ast:canonical-order", IO,
            stores[0].lineno,
            f"`{stored}` must be the result of pytd_utils.CanonicalOrdering "
            "when it is stored as the analysis result", {"facts": sorted(st)})
  # generate_pyi prints that AST
  gp = imod.func("generate_pyi")
  oa = imod.func("_output_ast")
  prints = [c for c in calls_in(oa, name="pytd_utils.Print")
            if c.args and dotted(c.args[0]) == oa.args.args[0].arg]
  src_ok = False
  rets = [n for n in walk_no_nested(gp) if isinstance(n, ast.Return)]
  binds = {dotted(n.targets[0]): n.value for n in walk_no_nested(gp)
           if isinstance(n, ast.Assign)}
  for r in rets:
    for c in calls_in(r, name="_output_ast"):
      a0 = dotted(c.args[0]) if c.args else None
      if a0 and a0.endswith(".ast"):
        b = binds.get(a0[:-len(".ast")])
        if isinstance(b, ast.Call) and dotted(b.func) == "generate_pyi_ast":
          src_ok = True
  ctx.check(bool(prints) and src_ok, "generate_pyi:prints-result", IO, gp.lineno,
            "generate_pyi must return pytd_utils.Print of generate_pyi_ast's "
            ".ast", {"print_calls": len(prints), "wired": src_ok})


# -- R5.7 ------------------------------------------------------------------------

def emitted_class_keywords(ctx):
  """Keyword names output.py puts into pytd.Class(keywords=...)."""
  mod = get_module(ctx, OUTPUT)
  out = {}
  for call in calls_in(mod.tree, name="pytd.Class"):
    kw = kwarg(call, "keywords")
    if kw is None:
      raise AnalysisError("output.py: pytd.Class(..) without keywords=")
    fn = mod.enclosing_function(call)
    if isinstance(kw, ast.Call) and dotted(kw.func) == "tuple" and kw.args:
      kw = kw.args[0]
    if isinstance(kw, ast.Tuple) and not kw.elts:
      continue
    var = dotted(kw)
    if var is None:
      raise AnalysisError(f"output.py: keywords={src(kw)} not understood")
    found = False
    for n in walk_no_nested(fn):
      pairs = []
      if isinstance(n, ast.Assign) and any(dotted(t) == var for t in n.targets):
        found = True
        if isinstance(n.value, (ast.Tuple, ast.List)):
          pairs = n.value.elts
        else:
          raise AnalysisError(f"output.py: {var} = {src(n.value)} not understood")
      elif isinstance(n, ast.Call) and dotted(n.func) == f"{var}.append":
        pairs = n.args
      elif isinstance(n, ast.Call) and (dotted(n.func) or "").startswith(var + "."):
        raise AnalysisError(f"output.py: {src(n.func)} on class keywords")
      for p in pairs:
        if not (isinstance(p, ast.Tuple) and len(p.elts) == 2
                and _const_str(p.elts[0]) is not None):
          raise AnalysisError(f"output.py: class keyword {src(p)} not understood")
        out.setdefault(_const_str(p.elts[0]), (fn.name, p.lineno))
    if not found:
      raise AnalysisError(f"output.py: no binding of {var} in {fn.name}")
  return out


@rule("R5.7", "C05", floor=2)
def r5_7(ctx):
  """Class keywords output.py emits are accepted by the stub reader."""
  emitted = emitted_class_keywords(ctx)
  cmod = get_module(ctx, CLASSDEF)
  fn = cmod.func("get_keywords")
  accepted = None
  for n in walk_no_nested(fn):
    if isinstance(n, ast.If) and isinstance(n.test, ast.Compare) and \
        len(n.test.ops) == 1 and isinstance(n.test.ops[0], ast.NotIn) and \
        isinstance(n.body[-1], ast.Raise):
      accepted = try_fold(n.test.comparators[0], mod=cmod)
  if not isinstance(accepted, (tuple, list, set, frozenset)):
    raise AnalysisError("classdef.get_keywords: accepted-keyword test not found")
  if not emitted:
    raise AnalysisError("output.py emits no class keywords any more")
  for k, (where, line) in sorted(emitted.items()):
    ctx.check(k in accepted, f"class-keyword:{k}", OUTPUT, line,
              f"output.py ({where}) emits class keyword {k!r}, which "
              f"classdef.get_keywords rejects (accepted: {sorted(accepted)})",
              {"emitted_in": where, "accepted": sorted(accepted)})


# -- R5.8 ------------------------------------------------------------------------

@rule("R5.8", "C05", floor=4)
def r5_8(ctx):
  """TypeVar/ParamSpec declarations the printer writes are accepted."""
  pmod = get_module(ctx, PRINTER)
  fn = _pv_method(pmod, "_FormatTypeParams")
  kws = {}
  for n in walk_no_nested(fn):
    if isinstance(n, ast.JoinedStr) and n.values and \
        isinstance(n.values[0], ast.Constant):
      m = re.fullmatch(r"([A-Za-z_]\w*)=\[?", str(n.values[0].value))
      if m:
        kws.setdefault(m.group(1), n.lineno)
  if not kws:
    raise AnalysisError("_FormatTypeParams: no keyword arguments found")
  amod = get_module(ctx, PARSER)
  fc = amod.func("_TypeVariable.from_call")
  accepted = None
  for n in walk_no_nested(fc):
    if isinstance(n, ast.Assign) and isinstance(n.value, ast.BinOp) and \
        isinstance(n.value.op, ast.Sub) and isinstance(n.value.right, ast.Set):
      accepted = try_fold(n.value.right)
  if not isinstance(accepted, set):
    raise AnalysisError("_TypeVariable.from_call: accepted keyword set not found")
  for k, line in sorted(kws.items()):
    ctx.check(k in accepted, f"typevar-keyword:{k}", PRINTER, line,
              f"printer writes {k}= in a TypeVar/ParamSpec declaration; "
              f"_TypeVariable.from_call rejects it (accepted {sorted(accepted)})",
              {"accepted": sorted(accepted)})
  # constructor names
  ctors = {}
  loop_vars = {n.target.id for n in walk_no_nested(fn)
               if isinstance(n, (ast.For, ast.comprehension))
               and isinstance(n.target, ast.Name)}
  def is_paramspec_test(t):
    return isinstance(t, ast.Call) and dotted(t.func) == "isinstance" and \
        len(t.args) == 2 and not t.keywords and \
        isinstance(t.args[0], ast.Name) and t.args[0].id in loop_vars and \
        dotted(t.args[1]) == "pytd.ParamSpec"
  for c in _self_calls(fn, "_LookupTypingMember"):
    arms = literal_arms(c.args[0]) if len(c.args) == 1 and not c.keywords else None
    if arms is None:
      raise AnalysisError("_FormatTypeParams: constructor name not literal")
    outer = flow.guards(pmod.parent, pmod.enclosing_stmt(c), stop=fn)
    for lit, inner in arms:
      is_ps = []
      for t, p in outer + inner:
        while isinstance(t, ast.UnaryOp) and isinstance(t.op, ast.Not):
          t, p = t.operand, not p
        if is_paramspec_test(t):
          is_ps.append(p)
      if len(set(is_ps)) != 1:
        raise AnalysisError("_FormatTypeParams: constructor guard not understood")
      cls = "ParamSpec" if is_ps[0] else "TypeParameter"
      if ctors.setdefault(lit, (cls, c.lineno))[0] != cls:
        raise AnalysisError(
            f"_FormatTypeParams: {lit!r} is the constructor of two node classes")
  vc = amod.func("_GeneratePytdVisitor.visit_Call")
  kinds = None
  for n in walk_no_nested(vc):
    if isinstance(n, ast.For) and dotted(n.target) == "tvar_kind":
      kinds = try_fold(n.iter)
  if not isinstance(kinds, (tuple, list)):
    raise AnalysisError("visit_Call: tvar_kind loop not found")
  dmod = get_module(ctx, DEFS)
  atv = dmod.func("Definitions.add_type_variable")
  kind_to_cls = {}
  for n in walk_no_nested(atv):
    if isinstance(n, ast.If) and isinstance(n.test, ast.Compare) and \
        dotted(n.test.left) == "tvar.kind" and isinstance(n.test.ops[0], ast.Eq):
      arms, els = if_chain(n)
      for test, body in arms:
        lit = _const_str(test.comparators[0]) if isinstance(test, ast.Compare) else None
        for s in body:
          if isinstance(s, ast.Assign) and dotted(s.targets[0]) == "pytd_type":
            kind_to_cls[lit] = (dotted(s.value) or "").replace("pytd.", "")
      for s in els:
        if isinstance(s, ast.Assert) and isinstance(s.test, ast.Compare) and \
            dotted(s.test.left) == "tvar.kind":
          lit = _const_str(s.test.comparators[0])
          for s2 in els:
            if isinstance(s2, ast.Assign) and dotted(s2.targets[0]) == "pytd_type":
              kind_to_cls[lit] = (dotted(s2.value) or "").replace("pytd.", "")
      break
  if not kind_to_cls:
    raise AnalysisError("add_type_variable: kind dispatch not understood")
  for lit, (cls, line) in sorted(ctors.items()):
    ok = lit in kinds and kind_to_cls.get(lit) == cls
    ctx.check(ok, f"typevar-ctor:{lit}", PRINTER, line,
              f"printer declares a pytd.{cls} with {lit}(...); the parser "
              f"recognises {list(kinds)} and builds {kind_to_cls}",
              {"parser_kinds": list(kinds), "kind_to_class": kind_to_cls})


# -- R5.9 ------------------------------------------------------------------------

def _inside(outer, node):
  return any(n is node for n in ast.walk(outer))


def _root_name(node):
  while isinstance(node, (ast.Subscript, ast.Attribute, ast.Call)):
    node = node.func if isinstance(node, ast.Call) else node.value
  return node.id if isinstance(node, ast.Name) else None


@rule("R5.9", "C05", floor=6)
def r5_9(ctx):
  """Printer decisions taken on already-printed child text are content-safe.

  Inside Visit* methods the fields of `node` are the *printed strings* of the
  children.  (i) Tuple-unpacking an unbounded str.split of such text raises
  ValueError as soon as the text contains the separator once more (type text
  may: Literal strings, Annotated metadata).  (ii) VisitCallableType must pick
  the unbracketed `Callable[Concatenate[..], R]` / `Callable[P, R]` forms by
  node kind or exact name, not by a substring of the first argument's text.
  """
  pmod = get_module(ctx, PRINTER)
  n = 0
  for st in ast.walk(pmod.tree):
    if not (isinstance(st, ast.Assign) and len(st.targets) == 1
            and isinstance(st.targets[0], ast.Tuple)
            and isinstance(st.value, ast.Call)
            and isinstance(st.value.func, ast.Attribute)
            and st.value.func.attr in ("split", "rsplit")):
      continue
    call = st.value
    k = len(st.targets[0].elts)
    if any(isinstance(e, ast.Starred) for e in st.targets[0].elts):
      continue  # a starred target absorbs any number of fields
    ms = call.args[1] if len(call.args) > 1 else kwarg(call, "maxsplit")
    bound = try_fold(ms) if ms is not None else None
    fn = pmod.enclosing_function(st)
    n += 1
    ctx.check(bound == k - 1,
              f"unpack-split:{getattr(fn, 'name', '<module>')}:{src(call.func.value)}",
              PRINTER, st.lineno,
              f"`{src(st)}` unpacks {k} fields from an unbounded "
              f"{call.func.attr}: the text may contain the separator more than "
              f"{'once' if k == 2 else str(k - 1) + ' times'} (printed types can "
              "contain any literal text), which raises ValueError",
              {"fields": k, "maxsplit": bound, "separator": try_fold(call.args[0])
               if call.args else None})
  if n == 0:
    raise AnalysisError("printer.py: no tuple-unpacked split calls found")
  fn = _pv_method(pmod, "VisitCallableType")
  # every decision the method takes, however the arms are laid out (an
  # if/elif chain, `if ..: return` one after the other, conditional
  # expressions): each must be one of the two recognised form tests
  tests = []
  for x in walk_no_nested(fn):
    if isinstance(x, (ast.If, ast.IfExp)):
      tests.append(x.test)
    elif isinstance(x, (ast.While, ast.Match, ast.Try, ast.Assert)) or \
        (isinstance(x, ast.comprehension) and x.ifs) or \
        (isinstance(x, ast.BoolOp) and not any(
            isinstance(a, (ast.If, ast.IfExp)) and _inside(a.test, x)
            for a in walk_no_nested(fn))):
      raise AnalysisError(
          f"VisitCallableType: decision outside an if / conditional "
          f"expression not understood: {src(x)[:60]}")
    elif isinstance(x, ast.Call) and self_callee(pmod, "PrintVisitor", x) is not None:
      raise AnalysisError(
          f"VisitCallableType: the form may be chosen in {src(x.func)}: not followed")
  if not tests:
    raise AnalysisError("VisitCallableType: if/elif chain not found")
  tests.sort(key=lambda t: (t.lineno, t.col_offset))
  seen = set()
  for test in tests:
    text = src(test)
    if "_paramspec_names" in text:
      label = "paramspec-form"
    elif "Concatenate" in text:
      label = "concatenate-form"
    else:
      raise AnalysisError(f"VisitCallableType: arm `{text}` not understood")
    if label in seen:
      raise AnalysisError(f"VisitCallableType: two {label} arms")
    seen.add(label)
    unsafe, safe = [], []
    for c in ast.walk(test):
      if isinstance(c, ast.Compare) and any(isinstance(o, (ast.In, ast.NotIn))
                                            for o in c.ops):
        if len(c.ops) != 1:
          raise AnalysisError(f"VisitCallableType: chained `in`: {src(c)}")
        right = c.comparators[0]
        if _root_name(right) == "node":
          unsafe.append(src(c))   # substring of a printed child
        else:
          safe.append(src(c))     # membership in a set of names
      elif isinstance(c, ast.Call) and isinstance(c.func, ast.Attribute) and \
          _root_name(c.func.value) == "node" and \
          c.func.attr in ("startswith", "endswith", "find", "index", "count"):
        raise AnalysisError(
            f"VisitCallableType: text predicate {src(c)} not understood")
      elif isinstance(c, ast.Call) and (dotted(c.func) or "").startswith("re."):
        raise AnalysisError(
            f"VisitCallableType: regex predicate {src(c)} not understood")
      elif isinstance(c, ast.Call) and dotted(c.func) == "isinstance":
        safe.append(src(c))
    ctx.check(not unsafe and bool(safe), f"VisitCallableType:{label}", PRINTER,
              test.lineno,
              f"the {label} of Callable is chosen by a substring test on the "
              f"printed first argument ({unsafe}): any type whose text contains "
              "that substring (a class named ...Concatenate..., a Literal "
              "string) is printed without the argument-list brackets",
              {"unsafe": unsafe, "safe": safe})
  if seen != {"paramspec-form", "concatenate-form"}:
    raise AnalysisError(f"VisitCallableType: arms {sorted(seen)}")


# -- R5.10 -----------------------------------------------------------------------

class _KeywordTaint:
  """Which locals of a PrintVisitor method carry text derived from the class
  keywords (`<node>.keywords`), across calls to methods of the same class.

  Flow-insensitive: a local is tainted when any binding of it mentions a
  tainted local, `<node>.keywords`, or a `self.<m>(..)` call whose *return
  value* is tainted given the taint of the arguments actually passed (the
  callee is analysed with its own parameter names; an argument that is
  handed over but never reaches the callee's result does not taint it).
  """

  def __init__(self, pmod):
    self.pmod = pmod
    self.memo = {}

  def analyse(self, fn, nodes, tparams):
    """(tainted locals, is some returned value tainted) for `fn` called with
    the node in parameters `nodes` and tainted parameters `tparams`."""
    key = (fn, frozenset(nodes), frozenset(tparams))
    if key in self.memo:
      return self.memo[key]
    if len(self.memo) > 200:
      raise AnalysisError("class-keyword taint: call graph too large")
    self.memo[key] = (frozenset(tparams), False)    # recursion: least fixpoint
    tainted, changed = set(tparams), True
    while changed:
      changed = False
      for n in walk_no_nested(fn):
        new = []
        if isinstance(n, (ast.Assign, ast.AugAssign, ast.AnnAssign)) and \
            n.value is not None and self.mentions(n.value, tainted, nodes):
          tg = n.targets if isinstance(n, ast.Assign) else [n.target]
          new = [x.id for t in tg for x in ast.walk(t) if isinstance(x, ast.Name)]
        elif isinstance(n, (ast.For, ast.comprehension)) and \
            self.mentions(n.iter, tainted, nodes):
          new = [x.id for x in ast.walk(n.target) if isinstance(x, ast.Name)]
        elif isinstance(n, ast.Call) and isinstance(n.func, ast.Attribute) and \
            n.func.attr in ("append", "extend", "insert", "add", "update") and \
            isinstance(n.func.value, ast.Name) and \
            any(self.mentions(a, tainted, nodes) for a in n.args):
          new = [n.func.value.id]
        for x in new:
          if x not in tainted:
            tainted.add(x)
            changed = True
    ret = any(r.value is not None and self.mentions(r.value, tainted, nodes)
              for r in walk_no_nested(fn) if isinstance(r, ast.Return))
    self.memo[key] = (frozenset(tainted), ret)
    return self.memo[key]

  def call_taint(self, call, tainted, nodes):
    """(callee, node params, tainted params) of a followed `self.<m>(..)`."""
    callee = self_callee(self.pmod, "PrintVisitor", call)
    if callee is None:
      return None
    bind = bind_args(callee, call)
    if bind is None:
      raise AnalysisError(
          f"class-keyword taint: call {src(call)[:60]} does not fit "
          f"{callee.name}'s signature")
    hn = {p for p, a in bind.items() if isinstance(a, ast.Name) and a.id in nodes}
    tp = {p for p, a in bind.items() if self.mentions(a, tainted, nodes)}
    return callee, hn, tp

  def mentions(self, expr, tainted, nodes):
    if isinstance(expr, ast.Name):
      return expr.id in tainted
    if isinstance(expr, ast.Attribute) and expr.attr == "keywords" and \
        isinstance(expr.value, ast.Name) and expr.value.id in nodes:
      return True
    if isinstance(expr, ast.Call):
      ct = self.call_taint(expr, tainted, nodes)
      if ct is not None:
        return self.analyse(*ct)[1]
    if isinstance(expr, ast.Lambda):
      return False
    return any(self.mentions(c, tainted, nodes) for c in ast.iter_child_nodes(expr))


def _functional_typeddict_returns(fn):
  """return statements whose text contains the literal `TypedDict(`."""
  return [n for n in walk_no_nested(fn) if isinstance(n, ast.Return)
          and n.value is not None
          and any("TypedDict(" in (_const_str(c) or "") for c in ast.walk(n.value))]


@rule("R5.10", "C05", floor=1)
def r5_10(ctx):
  """The functional TypedDict form keeps the class keywords output.py emits.

  VisitClass prints a TypedDict whose keys are not identifiers as
  `X = TypedDict('X', {...})`; the reader accepts `total=` there
  (Definitions.new_typed_dict) and output._typed_dict_to_def emits it, so the
  functional form has to print node.keywords as the class form does.
  """
  emitted = {k: v for k, v in emitted_class_keywords(ctx).items()
             if v[0] == "_typed_dict_to_def"}
  if not emitted:
    raise AnalysisError("output._typed_dict_to_def emits no class keywords")
  dmod = get_module(ctx, DEFS)
  ntd = dmod.func("Definitions.new_typed_dict")
  reader_kws = set()
  for c in ast.walk(ntd):
    if isinstance(c, ast.Compare) and dotted(c.left) == "k.arg" and len(c.ops) == 1:
      v = try_fold(c.comparators[0])
      if isinstance(c.ops[0], ast.NotEq) and isinstance(v, str):
        reader_kws.add(v)
      elif isinstance(c.ops[0], ast.NotIn) and isinstance(v, (tuple, list, set)):
        reader_kws |= set(v)
  if not reader_kws:
    raise AnalysisError("new_typed_dict: accepted keyword test not understood")
  pmod = get_module(ctx, PRINTER)
  fn = _pv_method(pmod, "VisitClass")
  taint = _KeywordTaint(pmod)
  nodes = {_node_param(fn)}
  tainted, _ = taint.analyse(fn, nodes, set())
  rets = _functional_typeddict_returns(fn)
  where_fn = fn
  if not rets:
    # the functional form may be built by a helper whose result VisitClass
    # returns: `x = self._Helper(node, ..)` ... `return x`, or returned directly
    returned = {r.value.id for r in walk_no_nested(fn)
                if isinstance(r, ast.Return) and isinstance(r.value, ast.Name)}
    sites = []
    for n in walk_no_nested(fn):
      call = None
      if isinstance(n, ast.Return) and isinstance(n.value, ast.Call):
        call = n.value
      elif isinstance(n, ast.Assign) and len(n.targets) == 1 and \
          isinstance(n.targets[0], ast.Name) and n.targets[0].id in returned and \
          once_bound_anywhere(fn, n.targets[0].id) is n:
        call = n.value
      callee = self_callee(pmod, "PrintVisitor", call)
      if callee is not None and _functional_typeddict_returns(callee):
        sites.append((call, callee))
    if len(sites) != 1:
      raise AnalysisError("VisitClass: functional TypedDict return not found")
    call, callee = sites[0]
    _, nodes, tparams = taint.call_taint(call, tainted, nodes)
    tainted, _ = taint.analyse(callee, nodes, tparams)
    rets = _functional_typeddict_returns(callee)
    where_fn = callee
  if len(rets) != 1:
    raise AnalysisError(
        f"{where_fn.name}: expected one functional TypedDict return, found {len(rets)}")
  prints_kw = taint.mentions(rets[0].value, tainted, nodes)
  for k, (where, line) in sorted(emitted.items()):
    if k not in reader_kws:
      continue  # rejected by the reader anyway: R5.7's business
    ctx.check(prints_kw, f"functional-typeddict:keyword:{k}", PRINTER,
              rets[0].lineno,
              f"output.{where} emits the class keyword {k!r} and the reader "
              f"accepts it in TypedDict(name, fields, {k}=...), but the "
              "functional form printed by VisitClass does not include "
              "node.keywords: the keyword is lost (and its Literal import is "
              "left behind)",
              {"reader_accepts": sorted(reader_kws),
               "return": src(rets[0].value)[:80]})


# -- sensitivity suite ---------------------------------------------------------------

# -- R5.12 negative-length slices ---------------------------------------------------

_NEG_SLICE_TRIAGED = {
    # (file, function, slice text): reason the length cannot be zero
    ("pytype/tools/analyze_project/pytype_runner.py", "resolved_file_to_module",
     "full_path[:-len(target)]"):
        "target is importlab's short_path of a resolved file: never empty",
    ("pytype/tools/analyze_project/pytype_runner.py", "_module_to_output_path",
     "path[-len(mod.name):]"):
        "guarded by path...endswith(mod.name); module names are non-empty",
}


def _neg_len_slices(mod):
  """(node, which bound, X) for every `a[:-len(X)]` / `a[-len(X):]`."""
  for n in ast.walk(mod.tree):
    if isinstance(n, ast.Subscript) and isinstance(n.slice, ast.Slice):
      for part, which in ((n.slice.lower, "lower"), (n.slice.upper, "upper")):
        if isinstance(part, ast.UnaryOp) and isinstance(part.op, ast.USub) and \
            isinstance(part.operand, ast.Call) and dotted(part.operand.func) == "len" \
            and len(part.operand.args) == 1:
          yield n, which, part.operand.args[0]


def _qualname(mod, node):
  names = []
  while node in mod.parent:
    node = mod.parent[node]
    if isinstance(node, (ast.FunctionDef, ast.AsyncFunctionDef, ast.ClassDef)):
      names.append(node.name)
  return ".".join(reversed(names)) or "<module>"


def _nonempty_guarded(mod, node, x):
  """The slice is only evaluated when X is non-empty."""
  xs = src(x)
  truthy = {xs, f"len({xs})", f"len({xs}) > 0", f"len({xs}) >= 1", f"len({xs}) != 0"}
  st = mod.enclosing_stmt(node)
  if any(p and t in truthy for t, p in flow.guards_txt(mod.parent, st)):
    return "guard"
  cur = node
  while cur in mod.parent and cur is not st:
    par = mod.parent[cur]
    if isinstance(par, ast.IfExp) and cur is par.body and src(par.test) in truthy:
      return "conditional-expression"
    if isinstance(par, ast.BoolOp) and isinstance(par.op, ast.And) and \
        any(src(v) in truthy for v in par.values[:par.values.index(cur)] if v is not cur):
      return "and-guard"
    cur = par
  return None


def _neg_slice_scan(ctx, files, tag):
  n = 0
  for rel in files:
    text = ctx.read(rel)
    if "-len(" not in text.replace(" ", ""):
      continue
    mod = get_module(ctx, rel)
    for node, which, x in _neg_len_slices(mod):
      n += 1
      fn = _qualname(mod, node)
      key = f"{rel}:{fn}:{src(node)}"
      how = _nonempty_guarded(mod, node, x)
      par = mod.parent.get(node)
      if how is None and which == "lower" and isinstance(par, ast.Call) and \
          dotted(par.func) == "zip" and any(src(a) == src(x) for a in par.args if a is not node):
        how = "zip-truncation"      # a[-len(X):] zipped with X: empty X yields nothing
      if how is None and (rel, fn.split(".")[-1], src(node)) in _NEG_SLICE_TRIAGED:
        how = "triaged: " + _NEG_SLICE_TRIAGED[(rel, fn.split(".")[-1], src(node))]
      ctx.check(how is not None, key, rel, node.lineno,
                f"`{src(node)}`: when `{src(x)}` is empty the bound is -0 == 0, "
                f"so the slice is {'empty' if which == 'upper' else 'the whole sequence'} "
                f"instead of {'the whole sequence' if which == 'upper' else 'empty'}; "
                "nothing on the path establishes that it is non-empty",
                {"bound": which, "discharged_by": how})
  return n


_NEG_SLICE_QUICK = [
    "pytype/pyi/function.py", "pytype/pyi/parser.py", "pytype/pyi/definitions.py",
    "pytype/pyi/classdef.py", "pytype/pytd/printer.py", "pytype/pytd/visitors.py",
    "pytype/pytd/pytd_utils.py", "pytype/load_pytd.py", "pytype/output.py",
    "pytype/convert.py", "pytype/state.py", "pytype/abstract/_function_base.py",
    "pytype/abstract/_interpreter_function.py",
    "pytype/tools/analyze_project/pytype_runner.py",
]


@rule("R5.12", "C05", floor=5)
def r5_12(ctx):
  """No slice bound `-len(X)` unless X is known non-empty (the `[:-0]` trap).

  Stub signatures are rebuilt from parallel lists (parameters / defaults); a
  bound of the form -len(X) silently selects the wrong elements when X is
  empty.  Accepted: a path condition / conditional expression establishing
  X's truthiness, the zip-truncation idiom, or a triaged site.
  """
  files = _NEG_SLICE_QUICK
  if ctx.tier == "thorough":
    from sa.pyindex import all_py_files
    files = [f for f in all_py_files(ctx) if not f.endswith("_test.py")
             and "/tests/" not in f]
  _neg_slice_scan(ctx, files, "q")


# -- R5.13 class body vs. the ` ...` suffix -----------------------------------------

# three-valued formulas over "atoms" (truthiness of an expression the method
# does not compute itself, e.g. node.classes): True / False / None (unknown)
def _f_eval(f, asg):
  k = f[0]
  if k == "const":
    return f[1]
  if k == "atom":
    return asg.get(f[1])
  if k == "unk":
    return None
  if k == "not":
    v = _f_eval(f[1], asg)
    return None if v is None else not v
  vs = [_f_eval(x, asg) for x in f[1]]
  if k == "or":
    return True if any(v is True for v in vs) else (None if any(v is None for v in vs) else False)
  return False if any(v is False for v in vs) else (None if any(v is None for v in vs) else True)


def _f_atoms(f, out):
  if f[0] == "atom":
    out.add(f[1])
    out.add(f[1].removesuffix(" is not None"))
  elif f[0] == "unk":
    out |= f[1]
  elif f[0] == "not":
    _f_atoms(f[1], out)
  elif f[0] in ("or", "and"):
    for x in f[1]:
      _f_atoms(x, out)
  return out


_UNK = ("unk", frozenset())


def _f_leaves(fs):
  out, todo = [], list(fs)
  while todo:
    f = todo.pop()
    if f[0] in ("atom", "unk", "const"):
      out.append(f)
    elif f[0] == "not":
      todo.append(f[1])
    else:
      todo.extend(f[1])
  return out


def _unk(e, env):
  """Unknown value; remembers the atoms `e` depends on (to tell whether an
  opaque test can be correlated with the class members at all)."""
  about = set()
  for n in ast.walk(e):
    if isinstance(n, ast.Name):
      about.add("local:" + n.id)
      if n.id in env:
        _f_atoms(env[n.id], about)
    elif isinstance(n, ast.Attribute) and dotted(n):
      about.add(dotted(n))
  return ("unk", frozenset(about))


def _nonempty(e, env):
  """Formula for 'the sequence `e` evaluates to is non-empty' (env: local -> formula)."""
  if isinstance(e, (ast.List, ast.Tuple)):
    if any(isinstance(x, ast.Starred) for x in e.elts):
      return _unk(e, env)
    return ("const", bool(e.elts))
  if isinstance(e, (ast.ListComp, ast.GeneratorExp)):
    g = e.generators
    # later generators may only split an earlier element into its lines
    # (every printed member has >= 1 line)
    inner_ok = all(isinstance(x.iter, ast.Call) and isinstance(x.iter.func, ast.Attribute)
                   and x.iter.func.attr == "splitlines" and dotted(x.iter.func.value) in
                   {dotted(y.target) for y in g[:i + 1]} for i, x in enumerate(g[1:]))
    if any(x.ifs for x in g) or not inner_ok:
      return _unk(e, env)
    return _nonempty(g[0].iter, env)
  if isinstance(e, ast.BinOp) and isinstance(e.op, ast.Add):
    return ("or", [_nonempty(e.left, env), _nonempty(e.right, env)])
  if isinstance(e, ast.IfExp):
    t = _truth(e.test, env)
    return ("or", [("and", [t, _nonempty(e.body, env)]), ("and", [("not", t), _nonempty(e.orelse, env)])])
  if isinstance(e, ast.Call) and "@inline" in env:
    f = env["@inline"][0].result_nonempty(e, env)
    if f is not None:
      return f
  if isinstance(e, ast.Call) and not e.keywords:
    d = dotted(e.func)
    if d in ("list", "tuple", "sorted") and len(e.args) == 1:
      return _nonempty(e.args[0], env)
    # sum((m.splitlines() for m in X), []): every printed member has >= 1 line
    if d == "sum" and len(e.args) == 2 and isinstance(e.args[1], ast.List) and not e.args[1].elts:
      return _nonempty(e.args[0], env)
    return _unk(e, env)
  if isinstance(e, ast.Name):
    return env[e.id] if e.id in env else _unk(e, env)
  if isinstance(e, ast.Attribute) and dotted(e):
    return ("atom", dotted(e))
  return _unk(e, env)


def _truth(t, env):
  """Formula for the truth value of test `t`."""
  if isinstance(t, ast.BoolOp):
    return ("and" if isinstance(t.op, ast.And) else "or", [_truth(v, env) for v in t.values])
  if isinstance(t, ast.UnaryOp) and isinstance(t.op, ast.Not):
    return ("not", _truth(t.operand, env))
  if isinstance(t, ast.Compare) and len(t.ops) == 1 and isinstance(t.ops[0], (ast.Is, ast.IsNot)) \
      and isinstance(t.comparators[0], ast.Constant) and t.comparators[0].value is None and dotted(t.left):
    a = ("atom", f"{dotted(t.left)} is not None")
    return a if isinstance(t.ops[0], ast.IsNot) else ("not", a)
  if isinstance(t, ast.Constant):
    return ("const", bool(t.value))
  if isinstance(t, ast.Call) and dotted(t.func) in ("len", "bool") and len(t.args) == 1 and not t.keywords:
    return _nonempty(t.args[0], env)
  if isinstance(t, ast.Compare) and len(t.ops) == 1:
    a, op, b = t.left, t.ops[0], t.comparators[0]
    if isinstance(a, ast.Call) and dotted(a.func) == "len" and len(a.args) == 1 and isinstance(b, ast.Constant):
      f = _nonempty(a.args[0], env)
      key = (type(op).__name__, b.value)
      if key in (("Eq", 0), ("Lt", 1), ("LtE", 0)):
        return ("not", f)
      if key in (("NotEq", 0), ("Gt", 0), ("GtE", 1)):
        return f
    if isinstance(b, (ast.List, ast.Tuple)) and not b.elts and isinstance(op, (ast.Eq, ast.NotEq)):
      f = _nonempty(a, env)
      return ("not", f) if isinstance(op, ast.Eq) else f
    return _unk(t, env)
  if isinstance(t, (ast.Name, ast.Attribute, ast.List, ast.Tuple, ast.ListComp, ast.BinOp)):
    return _nonempty(t, env)
  return _unk(t, env)


def _names_stored(node):
  return {n.id for n in ast.walk(node) if isinstance(n, ast.Name) and not isinstance(n.ctx, ast.Load)}


def _is_ellipsis_suffix(st):
  """`<header>[-1] += " ..."`-style statement -> name of the header list, else None."""
  if isinstance(st, ast.AugAssign) and isinstance(st.op, ast.Add) and isinstance(st.target, ast.Subscript) \
      and isinstance(st.target.value, ast.Name) and (_const_str(st.value) or "").strip() == "...":
    return st.target.value.id
  return None


_MUTATORS = frozenset({"append", "extend", "insert", "remove", "pop", "clear",
                        "sort", "reverse", "add", "update", "discard",
                        "setdefault", "popitem"})


def _stored_roots(fn):
  """Names `fn` may modify in place: targets of subscript/attribute stores,
  augmented assignments and mutating method calls (by root name)."""
  out = set()
  for n in ast.walk(fn):
    if isinstance(n, (ast.Subscript, ast.Attribute)) and not isinstance(n.ctx, ast.Load):
      out.add(_root_name(n))
    elif isinstance(n, ast.AugAssign):
      out.add(_root_name(n.target))
    elif isinstance(n, ast.Call) and isinstance(n.func, ast.Attribute) and \
        n.func.attr in _MUTATORS:
      out.add(_root_name(n.func.value))
  out.discard(None)
  return out


class _Inliner:
  """Non-emptiness of the list a `self.<helper>(..)` call returns, by symbolic
  execution of the helper (resolved through the local MRO) with the same
  engine as the method itself.

  An argument that is the caller's own parameter or an attribute chain on it
  (`node`, `node.classes`) is substituted for the helper's parameter, so the
  helper's tests speak about the same atoms as the caller's whatever the
  parameter is called.  Every other local of the helper (and any parameter
  bound to something else) is renamed apart, so that it cannot be confused
  with a local or atom of the caller.  The result is the disjunction over the
  helper's returning paths of (path condition and returned list non-empty).
  Anything the engine cannot execute makes the result unknown, never a guess.
  """

  MAX_DEPTH = 2

  def __init__(self, pmod, clsname):
    self.pmod, self.clsname, self.n, self._mut = pmod, clsname, 0, {}

  def callee(self, call):
    return self_callee(self.pmod, self.clsname, call)

  def mutated(self, fn, depth=0):
    """Parameters / locals of `fn` that may be modified in place by `fn` or,
    handed on as an argument, by a method of the class it calls."""
    if (fn, depth) in self._mut:
      return self._mut[(fn, depth)]
    out = _stored_roots(fn)
    for c in calls_in(fn):
      h = self.callee(c)
      if h is None:
        continue
      b = bind_args(h, c)
      if b is None or depth >= 3:
        out |= {_root_name(a) for a in list(c.args) + [k.value for k in c.keywords]}
        continue
      m = self.mutated(h, depth + 1)
      out |= {_root_name(a) for prm, a in b.items() if prm in m}
    out.discard(None)
    self._mut[(fn, depth)] = out
    return out

  def result_nonempty(self, call, env):
    callee = self.callee(call)
    if callee is None:
      return None
    depth = env["@inline"][1]
    bind = bind_args(callee, call)
    if bind is None or depth >= self.MAX_DEPTH:
      return _unk(call, env)
    if any(_is_ellipsis_suffix(n) for n in ast.walk(callee)):
      raise AnalysisError(f"the ' ...' suffix is added in helper {callee.name}")
    self.n += 1
    tag = f"'{self.n}"
    mutated = self.mutated(callee)
    local = {a.arg for a in callee.args.posonlyargs + callee.args.args
             + callee.args.kwonlyargs} | {
                 n.id for n in ast.walk(callee) if isinstance(n, ast.Name)
                 and not isinstance(n.ctx, ast.Load)}
    local.discard("self")
    sub, henv = {}, {"@inline": (self, depth + 1)}
    for prm, a in bind.items():
      root = _root_name(a)
      stable = dotted(a) is not None and root not in env
      if prm in mutated and not isinstance(a, ast.Constant):
        # the helper may change a list of the caller in place
        raise AnalysisError(
            f"helper {callee.name} modifies its argument `{src(a)[:40]}` in place")
      rebound = any(isinstance(n, ast.Name) and n.id == prm
                    and not isinstance(n.ctx, ast.Load) for n in ast.walk(callee))
      if stable and not rebound:
        sub[prm] = a
      else:
        henv[prm + tag] = _nonempty(a, env)
    class Rewrite(ast.NodeTransformer):
      def visit_Name(self, n):
        if n.id in sub and isinstance(n.ctx, ast.Load):
          return copy.deepcopy(sub[n.id])
        if n.id in local:
          return ast.copy_location(ast.Name(id=n.id + tag, ctx=n.ctx), n)
        return n
      def visit_FunctionDef(self, n):
        return n
      visit_AsyncFunctionDef = visit_Lambda = visit_ClassDef = visit_FunctionDef
    body = [Rewrite().visit(copy.deepcopy(st)) for st in callee.body]
    state = {"conds": [], "env": henv, "terms": {}, "dots": set()}
    paths = []
    try:
      for ret, st in _class_paths(body, state):
        if ret is None or ret.value is None:
          val = _UNK
        else:
          val = _nonempty(ret.value, st["env"])
        paths.append(("and", [f if pol else ("not", f) for f, pol in st["conds"]] + [val]))
    except AnalysisError:
      return _unk(call, env)
    if not paths:
      return _unk(call, env)
    return paths[0] if len(paths) == 1 else ("or", paths)

  def may_modify(self, call, env):
    """Caller locals a `self.<m>(..)` call may change in place."""
    callee = self.callee(call)
    if callee is None:
      return set()
    args = list(call.args) + [k.value for k in call.keywords]
    bind = bind_args(callee, call)
    if bind is None:
      hit = args
    else:
      mutated = self.mutated(callee)
      hit = [a for prm, a in bind.items() if prm in mutated
             and not isinstance(a, ast.Constant)]
    for a in hit:
      if not (isinstance(a, ast.Name) and a.id in env):
        raise AnalysisError(
            f"{src(call)[:60]} may modify `{src(a)[:40]}` in place")
    return {a.id for a in hit}


def _class_paths(block, state):
  """Symbolic paths through a Visit method: yields (return node, state).

  state = {"conds": [(formula, polarity)], "env": {local: formula}, "terms":
  {local: [(term text, formula)]} for locals bound to a `+` chain, "dots":
  set of header lists that got the " ..." suffix}.  Loops are not unrolled:
  every local they bind becomes unknown.
  """
  if not block:
    yield None, state
    return
  st, rest = block[0], block[1:]
  if isinstance(st, ast.If):
    f = _truth(st.test, state["env"])
    for pol, sub in ((True, st.body), (False, st.orelse)):
      s2 = {"conds": state["conds"] + [(f, pol)], "env": dict(state["env"]),
            "terms": dict(state["terms"]), "dots": set(state["dots"])}
      for ret, s3 in _class_paths(sub, s2):
        if ret is None:
          yield from _class_paths(rest, s3)
        else:
          yield ret, s3
    return
  if isinstance(st, ast.Return):
    yield st, state
    return
  if isinstance(st, ast.Raise):
    return
  if isinstance(st, (ast.For, ast.While)):
    if any(_is_ellipsis_suffix(n) for n in ast.walk(st)):
      raise AnalysisError("the ' ...' suffix is added inside a loop")
    if any(isinstance(n, ast.Return) for n in walk_no_nested(st)):
      raise AnalysisError("class-body analysis: return inside a loop")
    for n in _names_stored(st):
      state["env"][n] = _UNK
      state["terms"].pop(n, None)
    for c in calls_in(st):
      if isinstance(c.func, ast.Attribute) and isinstance(c.func.value, ast.Name):
        state["env"][c.func.value.id] = _UNK
    yield from _class_paths(rest, state)
    return
  if isinstance(st, (ast.Assign, ast.AnnAssign)) and st.value is not None:
    tg = st.targets if isinstance(st, ast.Assign) else [st.target]
    f = _nonempty(st.value, state["env"])
    terms = []
    def flat(e):
      if isinstance(e, ast.BinOp) and isinstance(e.op, ast.Add):
        flat(e.left)
        flat(e.right)
      elif isinstance(e, ast.Name) and e.id in state["terms"]:
        terms.extend(state["terms"][e.id])
      else:
        terms.append((src(e), _nonempty(e, state["env"])))
    flat(st.value)
    for t in tg:
      if isinstance(t, ast.Name):
        state["env"][t.id] = f
        if isinstance(st.value, ast.BinOp) and isinstance(st.value.op, ast.Add):
          state["terms"][t.id] = terms
        else:
          state["terms"].pop(t.id, None)
      else:
        for n in _names_stored(t):
          state["env"][n] = _UNK
          state["terms"].pop(n, None)
  elif isinstance(st, ast.AugAssign):
    h = _is_ellipsis_suffix(st)
    if h:
      state["dots"].add(h)
    elif isinstance(st.target, ast.Name):
      if isinstance(st.op, ast.Add):
        old = state["env"].get(st.target.id, _UNK)
        state["env"][st.target.id] = ("or", [old, _nonempty(st.value, state["env"])])
      else:
        state["env"][st.target.id] = _UNK
      state["terms"].pop(st.target.id, None)
  elif isinstance(st, ast.Expr):
    for c in calls_in(st):
      if isinstance(c.func, ast.Attribute) and isinstance(c.func.value, ast.Name) \
          and c.func.value.id in state["env"]:
        state["env"][c.func.value.id] = _UNK
        state["terms"].pop(c.func.value.id, None)
      elif "@inline" in state["env"]:
        for name in state["env"]["@inline"][0].may_modify(c, state["env"]):
          state["env"][name] = _UNK
          state["terms"].pop(name, None)
  elif not isinstance(st, (ast.Pass, ast.Assert, ast.AnnAssign)):
    raise AnalysisError(f"class-body analysis: unsupported statement {type(st).__name__}")
  yield from _class_paths(rest, state)


@rule("R5.13", "C05", floor=5)
def r5_13(ctx):
  """`class X: ...` is printed exactly when no line is emitted into the class body.

  VisitClass returns "\n".join(<decorators> + <header> + <body segments>);
  the header gets the " ..." suffix on some paths.  For every path and every
  truth assignment of the member fields (node.classes, node.methods,
  node.constants, node.slots) consistent with the path condition: the suffix
  is present iff every body segment is empty.  Suffix with a non-empty segment
  prints `class X: ...` followed by an indented block (a parse error); no
  suffix with an empty body prints `class X:` with nothing under it.
  """
  import itertools
  pmod = get_module(ctx, PRINTER)
  fn = _pv_method(pmod, "VisitClass")
  headers = {h for h in (_is_ellipsis_suffix(n) for n in walk_no_nested(fn)) if h}
  if len(headers) != 1:
    raise AnalysisError(
        f"VisitClass: expected one header list that gets the ' ...' suffix, found {sorted(headers)}")
  header = headers.pop()
  init = {"conds": [], "env": {"@inline": (_Inliner(pmod, "PrintVisitor"), 0)},
          "terms": {}, "dots": set()}
  node = _node_param(fn)
  witnesses, bare_empty, undecided, members, segs, n_paths = [], [], set(), set(), set(), 0
  for ret, st in _class_paths(fn.body, init):
    if ret is None or ret.value is None:
      raise AnalysisError("VisitClass: a path ends without returning text")
    joins = [c for c in calls_in(ret.value) if isinstance(c.func, ast.Attribute) and c.func.attr == "join"
             and _const_str(c.func.value) == "\n" and len(c.args) == 1]
    if not joins:
      continue      # not the class form (functional TypedDict)
    arg = joins[0].args[0]
    if isinstance(arg, ast.Name) and arg.id in st["terms"]:
      terms = st["terms"][arg.id]
    else:
      tmp = {"conds": [], "env": st["env"], "terms": dict(st["terms"]), "dots": set()}
      list(_class_paths([ast.Assign(targets=[ast.Name(id="<lines>", ctx=ast.Store())], value=arg)], tmp))
      terms = tmp["terms"].get("<lines>") or [(src(arg), _nonempty(arg, st["env"]))]
    names = [t for t, _ in terms]
    if names.count(header) != 1:
      raise AnalysisError(f"VisitClass: header list `{header}` is not a term of the joined lines {names}")
    body = terms[names.index(header) + 1:]
    if not body:
      raise AnalysisError("VisitClass: nothing is emitted after the class header")
    n_paths += 1
    segs |= {t for t, _ in body}
    dots = header in st["dots"]
    about_body = set()
    for t, f in body:
      _f_atoms(f, about_body)
      if t.isidentifier():
        about_body.add("local:" + t)
    forms = [f for f, _ in st["conds"]] + [f for _, f in body]
    atoms = sorted({a[1] for a in _f_leaves(forms) if a[0] == "atom"})
    members |= {a for a in atoms if a.startswith(node + ".")}
    for bits in itertools.product((False, True), repeat=len(atoms)):
      asg = dict(zip(atoms, bits))
      if any(_f_eval(f, asg) is (not pol) for f, pol in st["conds"]):
        continue    # infeasible
      # a test the analysis cannot evaluate is taken to be independent of the
      # members unless it talks about them (then nothing on this path is decided)
      fuzzy = any(_f_eval(f, asg) is None and any(u[1] & about_body for u in _f_leaves([f]) if u[0] == "unk")
                  for f, _ in st["conds"])
      vals = [(t, _f_eval(f, asg)) for t, f in body]
      if dots:
        full = [t for t, v in vals if v is True]
        if full and not fuzzy:
          witnesses.append((asg, full))
        elif any(v is not False for _, v in vals):
          undecided.add("the ' ...' suffix is added")
      elif all(v is False for _, v in vals) and not fuzzy:
        bare_empty.append(asg)
      elif not any(v is True for _, v in vals):
        undecided.add("no ' ...' suffix is added")
  if n_paths == 0:
    raise AnalysisError("VisitClass: no path returns the joined class lines")
  if not members:
    raise AnalysisError("VisitClass: the class body does not depend on any field of the node")
  # attribute each clash to the members present in its smallest witness
  blame = {}
  for asg, full in sorted(witnesses, key=lambda w: sum(w[0].values())):
    present = [a for a, v in asg.items() if v and a in members] or ["<always>"]
    if not any(a in blame for a in present):
      for a in present:
        blame[a] = (asg, full)
  if undecided and not blame and not bare_empty:
    raise AnalysisError(f"VisitClass: cannot decide whether the body is empty where {sorted(undecided)}")
  field = lambda a: a[len(node) + 1:].removesuffix(" is not None") if a != "<always>" else a
  for a in sorted(members | set(blame)):
    if a in blame:
      asg, full = blame[a]
      ctx.bad(f"VisitClass:ellipsis-vs-body:{field(a)}", PRINTER, fn.lineno,
              f"the header gets the ' ...' suffix although {full} is non-empty when {asg}: `class X: ...` is "
              "followed by an indented body, which the stub parser rejects",
              {"member": a, "witness": asg, "non_empty": full})
    else:
      ctx.ok(f"VisitClass:ellipsis-vs-body:{field(a)}", PRINTER, fn.lineno,
             {"member": a, "paths": n_paths, "header": header, "segments": sorted(segs)})
  ctx.check(not bare_empty, "VisitClass:no-ellipsis-implies-body", PRINTER, fn.lineno,
            f"no ' ...' suffix although every body segment is empty (e.g. when {bare_empty[:1]}): "
            "`class X:` is printed with nothing under it",
            {"segments": sorted(segs), "paths": n_paths, "witness": bare_empty[:1]})


_VISITCLASS_TAIL = (
    "    if node.classes or node.methods or node.constants or slots:\n"
    "      # We have multiple methods, and every method has multiple signatures\n"
    "      # (i.e., the method string will have multiple lines). Combine this into\n"
    "      # an array that contains all the lines, then indent the result.\n"
    "      class_lines = sum((m.splitlines() for m in node.classes), [])\n"
    "      classes = [self.INDENT + m for m in class_lines]\n"
    "      constants = [self.INDENT + m for m in node.constants]\n"
    "      method_lines = sum((m.splitlines() for m in node.methods), [])\n"
    "      methods = [self.INDENT + m for m in method_lines]\n"
    "    else:\n"
    "      header[-1] += \" ...\"\n"
    "      constants = []\n"
    "      classes = []\n"
    "      methods = []\n"
    "    lines = decorators + header + slots + classes + constants + methods\n")

_GEN_TAIL = (
    "    mod = ret.ast\n"
    "    mod.Visit(visitors.VerifyVisitor())\n"
    "    mod = optimize.Optimize(\n"
    "        mod,\n"
    "        ret.ast_deps,\n"
    "        lossy=False,\n"
    "        use_abcs=False,\n"
    "        max_union=7,\n"
    "        remove_mutable=False,\n"
    "    )\n"
    "    mod = pytd_utils.CanonicalOrdering(mod)\n"
    "  ret.ast = mod\n")
_GEN_TAIL_CALL = (
    "    mod = _finalize_inferred_ast(ret.ast, ret.ast_deps)\n"
    "  ret.ast = mod\n")
_GEN_HELPER = (
    "def _finalize_inferred_ast(mod, ast_deps):\n"
    "  mod.Visit(visitors.VerifyVisitor())\n"
    "  mod = optimize.Optimize(\n"
    "      mod, ast_deps, lossy=False, use_abcs=False, max_union=7,\n"
    "      remove_mutable=False,\n"
    "  )\n"
    "  return pytd_utils.CanonicalOrdering(mod)\n"
    "\n"
    "\n")

_VISITFUNCTION = (
    "  def VisitFunction(self, node):\n"
    "    \"\"\"Visit function, producing multi-line string (one for each signature).\"\"\"\n"
    "    function_name = node.name\n"
    "    if self.old_node.decorators:\n"
    "      decorators = self._ProcessDecorators(self.old_node)\n"
    "      decorators = \"\\n\".join(decorators) + \"\\n\"\n"
    "    else:\n"
    "      decorators = \"\"\n"
    "    if node.is_final:\n"
    "      decorators += \"@\" + self._FromTyping(\"final\") + \"\\n\"\n"
    "    if node.kind == pytd.MethodKind.STATICMETHOD and function_name != \"__new__\":\n"
    "      decorators += \"@staticmethod\\n\"\n"
    "    elif (\n"
    "        node.kind == pytd.MethodKind.CLASSMETHOD\n"
    "        and function_name != \"__init_subclass__\"\n"
    "    ):\n"
    "      decorators += \"@classmethod\\n\"\n"
    "    elif node.kind == pytd.MethodKind.PROPERTY:\n"
    "      decorators += \"@property\\n\"\n"
    "    if node.is_abstract:\n"
    "      decorators += \"@abstractmethod\\n\"\n"
    "    if node.is_coroutine:\n"
    "      decorators += \"@coroutine\\n\"\n"
    "    if len(node.signatures) > 1:\n"
    "      decorators += \"@\" + self._FromTyping(\"overload\") + \"\\n\"\n"
    "    signatures = \"\\n\".join(\n"
    "        decorators + \"def \" + function_name + sig for sig in node.signatures\n"
    "    )\n"
    "    return signatures\n")

# the same method with the decorator lines built by a helper whose node
# parameter, name local and result local are spelled differently, guard
# clauses instead of the if/else, and an f-string instead of the `+` chain
_VISITFUNCTION_SPLIT = (
    "  def _FunctionDecorators(self, func):\n"
    "    method_name = func.name\n"
    "    lines = \"\"\n"
    "    if self.old_node.decorators:\n"
    "      declared = self._ProcessDecorators(self.old_node)\n"
    "      lines = \"\\n\".join(declared) + \"\\n\"\n"
    "    if func.is_final:\n"
    "      lines += \"@\" + self._FromTyping(\"final\") + \"\\n\"\n"
    "    if func.kind == pytd.MethodKind.STATICMETHOD and method_name != \"__new__\":\n"
    "      lines += \"@staticmethod\\n\"\n"
    "    elif func.kind == pytd.MethodKind.CLASSMETHOD:\n"
    "      if not method_name == \"__init_subclass__\":\n"
    "        lines += \"@classmethod\\n\"\n"
    "    elif func.kind == pytd.MethodKind.PROPERTY:\n"
    "      lines += \"@property\\n\"\n"
    "    if func.is_abstract:\n"
    "      lines += \"@abstractmethod\\n\"\n"
    "    if func.is_coroutine:\n"
    "      lines += \"@coroutine\\n\"\n"
    "    if len(func.signatures) > 1:\n"
    "      lines += \"@\" + self._FromTyping(\"overload\") + \"\\n\"\n"
    "    return lines\n"
    "\n"
    "  def VisitFunction(self, node):\n"
    "    decorators = self._FunctionDecorators(node)\n"
    "    return \"\\n\".join(f\"{decorators}def {node.name}{sig}\" for sig in node.signatures)\n")

VARIANTS = [
    # R5.1
    {"name": "drop-VisitLateType", "rule": "R5.1", "file": PRINTER, "expect": "fire",
     "old": "  def VisitLateType(self, node):\n    return self.VisitNamedType(node)\n\n",
     "new": ""},
    {"name": "rename-VisitAnnotated", "rule": "R5.1", "file": PRINTER, "expect": "fire",
     "old": "  def VisitAnnotated(self, node):", "new": "  def VisitAnnotatedType(self, node):"},
    {"name": "new-node-class-without-printer-arm", "rule": "R5.1", "file": PYTD,
     "expect": "fire",
     "old": "class Annotated(Type):\n  base_type: TypeU\n",
     "new": "class Unpacked(Type):\n  base_type: TypeU\n\n\nclass Annotated(Type):\n  base_type: TypeU\n"},
    {"name": "twin-printer-arm-with-docstring", "rule": "R5.1", "file": PRINTER,
     "expect": "silent",
     "old": "  def VisitLateType(self, node):\n    return self.VisitNamedType(node)\n",
     "new": "  def VisitLateType(self, node):\n    \"\"\"Late types print like named types.\"\"\"\n    name = self.VisitNamedType(node)\n    return name\n"},
    {"name": "twin-new-abstract-marker", "rule": "R5.1", "file": PYTD, "expect": "silent",
     "old": "class NothingType(Type):",
     "new": "class _Bottom(Type):\n  \"\"\"Private helper base.\"\"\"\n\n\nclass NothingType(_Bottom):"},
    # R5.2
    {"name": "typo-FromTyping-Optional", "rule": "R5.2", "file": PRINTER, "expect": "fire",
     "old": "self._FromTyping(\"Optional\")", "new": "self._FromTyping(\"Optionl\")"},
    {"name": "typo-FromTyping-overload", "rule": "R5.2", "file": PRINTER, "expect": "fire",
     "old": "self._FromTyping(\"overload\")", "new": "self._FromTyping(\"overloaded\")"},
    {"name": "typing-pytd-drops-Concatenate", "rule": "R5.2", "file": TYPING,
     "expect": "fire",
     "old": "class Concatenate: ...", "new": "class Concat: ..."},
    {"name": "decrement-wrong-case", "rule": "R5.2", "file": PRINTER, "expect": "fire",
     "old": "        self._imports.decrement_typing_count(\"Type\")",
     "new": "        self._imports.decrement_typing_count(\"type\")"},
    {"name": "forwarded-suffix-without-typing-guard", "rule": "R5.2", "file": PRINTER,
     "expect": "error",
     "old": "    elif prefix == \"typing\":\n      node_name = self._FromTyping(suffix)",
     "new": "    elif prefix:\n      node_name = self._FromTyping(suffix)"},
    {"name": "twin-FromTyping-local-name", "rule": "R5.2", "file": PRINTER,
     "expect": "silent",
     "old": "    base = self._FromTyping(\"Literal\")\n    return f\"{base}[{node.value}]\"",
     "new": "    literal = self._FromTyping(\"Literal\")\n    return f\"{literal}[{node.value}]\""},
    # R5.3
    {"name": "printer-emits-abstract-decorator-unknown-to-parser", "rule": "R5.3",
     "file": PRINTER, "expect": "fire",
     "old": "      decorators += \"@abstractmethod\\n\"",
     "new": "      decorators += \"@abstract\\n\""},
    {"name": "parser-forgets-coroutine-spelling", "rule": "R5.3", "file": PARSER,
     "expect": "fire",
     "old": "(\"typing.Coroutine\", \"asyncio.coroutine\", \"coroutines.coroutine\")",
     "new": "(\"typing.Coroutine\", \"asyncio.Coroutine\", \"coroutines.Coroutine\")"},
    {"name": "parser-final-target-typo", "rule": "R5.3", "file": PARSER, "expect": "fire",
     "old": "self.defs.matches_type(d.name, \"typing.final\")",
     "new": "self.defs.matches_type(d.name, \"typing.Final\")"},
    {"name": "reader-swaps-static-and-class", "rule": "R5.3", "file": CODEGEN_FN,
     "expect": "fire",
     "old": "      if decorator.type.name == \"staticmethod\":\n        is_staticmethod = True",
     "new": "      if decorator.type.name == \"staticmethod\":\n        is_classmethod = True"},
    {"name": "printer-property-spelled-differently", "rule": "R5.3", "file": PRINTER,
     "expect": "fire",
     "old": "      decorators += \"@property\\n\"", "new": "      decorators += \"@prop\\n\""},
    {"name": "matches_type-loses-bare-name-arm", "rule": "R5.3", "file": DEFS,
     "expect": "fire",
     "old": "    if name == target_base:\n      return True\n", "new": ""},
    {"name": "resolve_type-nothing-renamed", "rule": "R5.3", "file": DEFS, "expect": "fire",
     "old": "    if name == \"nothing\":", "new": "    if name == \"Nothing\":"},
    {"name": "typing-pytd-Never-not-nothing", "rule": "R5.3", "file": TYPING,
     "expect": "fire", "old": "Never = nothing", "new": "Never = Any"},
    {"name": "parser-none-maps-to-other-name", "rule": "R5.3", "file": PARSER,
     "expect": "fire",
     "old": "    if node.type == \"NoneType\":\n      return pytd.NamedType(\"NoneType\")",
     "new": "    if node.type == \"NoneType\":\n      return pytd.NamedType(\"None\")"},
    {"name": "twin-parser-extra-abstract-target", "rule": "R5.3", "file": PARSER,
     "expect": "silent",
     "old": "(\"builtins.abstractmethod\", \"abc.abstractmethod\")",
     "new": "(\"abc.abstractmethod\", \"builtins.abstractmethod\", \"abc.abstractproperty\")"},
    {"name": "twin-reader-kind-arms-reordered", "rule": "R5.3", "file": CODEGEN_FN,
     "expect": "silent",
     "old": "      if decorator.type.name == \"staticmethod\":\n        is_staticmethod = True\n      elif decorator.type.name == \"classmethod\":\n        is_classmethod = True",
     "new": "      if decorator.type.name == \"classmethod\":\n        is_classmethod = True\n      elif decorator.type.name == \"staticmethod\":\n        is_staticmethod = True"},
    # R5.6
    {"name": "reader-no-longer-infers-static-new", "rule": "R5.6", "file": CODEGEN_FN,
     "expect": "fire",
     "old": "    if name == \"__new__\" or is_staticmethod:",
     "new": "    if is_staticmethod:"},
    {"name": "printer-exempts-class_getitem", "rule": "R5.6", "file": PRINTER,
     "expect": "fire",
     "old": "        and function_name != \"__init_subclass__\"",
     "new": "        and function_name != \"__init_subclass__\"\n        and function_name != \"__class_getitem__\""},
    # (formerly listed as a benign twin; seeded C05-r2m2 showed it is not)
    {"name": "reader-infers-more-than-printer-omits", "rule": "R5.6", "file": CODEGEN_FN,
     "expect": "fire",
     "old": "    elif name == \"__init_subclass__\" or is_classmethod:",
     "new": "    elif name == \"__init_subclass__\" or name == \"__class_getitem__\" or is_classmethod:"},
    {"name": "seeded-C05-r2m2", "rule": "R5.6", "patch": "seeded/C05-r2m2/patch.diff",
     "expect": "fire"},
    {"name": "reader-infers-static-call-from-a-tuple", "rule": "R5.6", "file": CODEGEN_FN,
     "expect": "fire",
     "old": "    if name == \"__new__\" or is_staticmethod:",
     "new": "    if name in (\"__new__\", \"__call__\") or is_staticmethod:"},
    {"name": "printer-exempts-through-not-in", "rule": "R5.6", "file": PRINTER,
     "expect": "fire",
     "old": "    if node.kind == pytd.MethodKind.STATICMETHOD and function_name != \"__new__\":",
     "new": "    if node.kind == pytd.MethodKind.STATICMETHOD and function_name not in (\"__new__\", \"__call__\"):"},
    {"name": "twin-both-sides-respelled-with-collections", "rule": "R5.6", "expect": "silent",
     "edits": [
         (CODEGEN_FN, "def merge_method_signatures(\n",
          "_IMPLICIT_CLASSMETHODS = frozenset({\"__init_subclass__\"})\n\n\n"
          "def merge_method_signatures(\n"),
         (CODEGEN_FN, "    elif name == \"__init_subclass__\" or is_classmethod:",
          "    elif name in _IMPLICIT_CLASSMETHODS or is_classmethod:"),
         (PRINTER, "        and function_name != \"__init_subclass__\"",
          "        and function_name not in (\"__init_subclass__\",)")]},
    {"name": "twin-reader-names-in-a-module-constant", "rule": "R5.6", "expect": "silent",
     "edits": [
         (CODEGEN_FN, "def merge_method_signatures(\n",
          "_STATIC_BY_NAME = (\"__new__\",)\n\n\ndef merge_method_signatures(\n"),
         (CODEGEN_FN, "    if name == \"__new__\" or is_staticmethod:",
          "    if is_staticmethod or name in _STATIC_BY_NAME:")]},
    {"name": "twin-printer-nested-exemption", "rule": "R5.6", "file": PRINTER,
     "expect": "silent",
     "old": "    if node.kind == pytd.MethodKind.STATICMETHOD and function_name != \"__new__\":\n"
            "      decorators += \"@staticmethod\\n\"\n    elif (",
     "new": "    if node.kind == pytd.MethodKind.STATICMETHOD:\n"
            "      if not function_name == \"__new__\":\n"
            "        decorators += \"@staticmethod\\n\"\n    elif ("},
    # R5.4
    {"name": "mangle-prefix-changed-one-side", "rule": "R5.4", "file": PARSER,
     "expect": "fire", "old": "  return f\"__KW_{kw}__\"", "new": "  return f\"__KEYWORD_{kw}__\""},
    {"name": "regex-suffix-changed-one-side", "rule": "R5.4", "file": PARSER,
     "expect": "fire",
     "old": "r\"__KW_(?P<keyword>.+)__\"", "new": "r\"__KW_(?P<keyword>.+)_\""},
    {"name": "regex-extra-underscore", "rule": "R5.4", "file": PARSER, "expect": "fire",
     "old": "  return f\"__KW_{kw}__\"", "new": "  return f\"__KW__{kw}__\""},
    {"name": "visit_Name-stops-unmangling", "rule": "R5.4", "file": PARSER,
     "expect": "fire",
     "old": "    return _parseable_name_to_real_name(node.id)", "new": "    return node.id"},
    {"name": "twin-both-sides-renamed-consistently", "rule": "R5.4", "expect": "silent",
     "edits": [(PARSER, "  return f\"__KW_{kw}__\"", "  return f\"__PYKW_{kw}__\""),
               (PARSER, "r\"__KW_(?P<keyword>.+)__\"", "r\"__PYKW_(?P<keyword>\\w+)__\"")]},
    # R5.5
    {"name": "canonical_pyi-skips-ordering", "rule": "R5.5", "file": PARSER,
     "expect": "fire",
     "old": "  ast = ast.Visit(visitors.CanonicalOrderingVisitor())\n  ast.Visit(visitors.VerifyVisitor())",
     "new": "  ast.Visit(visitors.VerifyVisitor())"},
    {"name": "canonical_pyi-skips-verify", "rule": "R5.5", "file": PARSER,
     "expect": "fire",
     "old": "  ast.Visit(visitors.VerifyVisitor())\n  return pytd_utils.Print(ast, multiline_args)",
     "new": "  return pytd_utils.Print(ast, multiline_args)"},
    {"name": "generate_pyi_ast-skips-verify", "rule": "R5.5", "file": IO, "expect": "fire",
     "old": "    mod.Visit(visitors.VerifyVisitor())\n", "new": ""},
    {"name": "generate_pyi_ast-verify-only-when-quick", "rule": "R5.5", "file": IO,
     "expect": "fire",
     "old": "    mod.Visit(visitors.VerifyVisitor())\n",
     "new": "    if options.quick:\n      mod.Visit(visitors.VerifyVisitor())\n"},
    {"name": "generate_pyi_ast-unordered-result", "rule": "R5.5", "file": IO,
     "expect": "fire",
     "old": "    mod = pytd_utils.CanonicalOrdering(mod)\n  ret.ast = mod",
     "new": "    pytd_utils.CanonicalOrdering(mod)\n  ret.ast = mod"},
    {"name": "twin-canonical_pyi-renamed-local", "rule": "R5.5", "file": PARSER,
     "expect": "silent",
     "old": "  ast = ast.Visit(visitors.CanonicalOrderingVisitor())\n  ast.Visit(visitors.VerifyVisitor())\n  return pytd_utils.Print(ast, multiline_args)",
     "new": "  ordered = ast.Visit(visitors.CanonicalOrderingVisitor())\n  ordered.Visit(visitors.VerifyVisitor())\n  return pytd_utils.Print(ordered, multiline_args)"},
    # R5.7
    {"name": "output-emits-unknown-class-keyword", "rule": "R5.7", "file": OUTPUT,
     "expect": "fire",
     "old": "      keywords.append((\"total\", pytd.Literal(False)))",
     "new": "      keywords.append((\"total\", pytd.Literal(False)))\n      keywords.append((\"closed\", pytd.Literal(True)))"},
    {"name": "classdef-rejects-total", "rule": "R5.7", "file": CLASSDEF, "expect": "fire",
     "old": "    if keyword not in (\"metaclass\", \"total\"):",
     "new": "    if keyword not in (\"metaclass\",):"},
    {"name": "twin-classdef-accepts-more", "rule": "R5.7", "file": CLASSDEF,
     "expect": "silent",
     "old": "    if keyword not in (\"metaclass\", \"total\"):",
     "new": "    if keyword not in (\"total\", \"metaclass\", \"closed\"):"},
    # R5.8
    {"name": "printer-writes-unknown-typevar-keyword", "rule": "R5.8", "file": PRINTER,
     "expect": "fire",
     "old": "        args.append(f\"bound={self.Print(t.bound)}\")",
     "new": "        args.append(f\"upper_bound={self.Print(t.bound)}\")"},
    {"name": "parser-drops-default-keyword", "rule": "R5.8", "file": PARSER,
     "expect": "fire",
     "old": "{\"bound\", \"covariant\", \"contravariant\", \"default\"}",
     "new": "{\"bound\", \"covariant\", \"contravariant\"}"},
    {"name": "parser-renames-paramspec-kind", "rule": "R5.8", "file": PARSER,
     "expect": "fire",
     "old": "    for tvar_kind in (\"TypeVar\", \"ParamSpec\"):",
     "new": "    for tvar_kind in (\"TypeVar\", \"ParameterSpec\"):"},
    {"name": "twin-parser-accepts-more-typevar-keywords", "rule": "R5.8", "file": PARSER,
     "expect": "silent",
     "old": "{\"bound\", \"covariant\", \"contravariant\", \"default\"}",
     "new": "{\"default\", \"bound\", \"covariant\", \"contravariant\", \"infer_variance\"}"},
    # R5.9
    {"name": "unbounded-rsplit-unpacked", "rule": "R5.9", "file": PRINTER,
     "expect": "fire",
     "old": "    prefix, suffix = name.rsplit(\".\", 1)\n    while prefix:",
     "new": "    prefix, suffix = name.rsplit(\".\")\n    while prefix:"},
    {"name": "paramspec-form-by-substring", "rule": "R5.9", "file": PRINTER,
     "expect": "fire",
     "old": "    if len(node.args) == 1 and node.args[0] in self._paramspec_names:",
     "new": "    if len(node.args) == 1 and any(\n        p in node.args[0] for p in self._paramspec_names\n    ):"},
    # R5.10
    {"name": "revert-D23-unbounded-split", "rule": "R5.9", "file": PRINTER, "expect": "fire",
     "old": "        name, typ = c.split(\": \", 1)", "new": "        name, typ = c.split(\": \")"},
    {"name": "revert-D24-concatenate-substring", "rule": "R5.9", "file": PRINTER, "expect": "fire",
     "old": "    elif node.args and isinstance(self.old_node.args[0], pytd.Concatenate):",
     "new": "    elif node.args and \"Concatenate\" in node.args[0]:"},
    {"name": "revert-D25-functional-form-drops-keywords", "rule": "R5.10", "file": PRINTER,
     "expect": "fire",
     "old": "        args = \", \".join([f\"'{node.name}'\", fields] + keywords)\n        return f\"{node.name} = TypedDict({args})\"",
     "new": "        return f\"{node.name} = TypedDict('{node.name}', {fields})\""},
    {"name": "twin-typeddict-gains-closed-keyword-everywhere", "rule": "R5.10",
     "expect": "silent",
     "edits": [
         (OUTPUT, "      keywords.append((\"total\", pytd.Literal(False)))",
          "      keywords.append((\"total\", pytd.Literal(False)))\n      keywords.append((\"closed\", pytd.Literal(True)))"),
         (CLASSDEF, "    if keyword not in (\"metaclass\", \"total\"):",
          "    if keyword not in (\"metaclass\", \"total\", \"closed\"):"),
         (DEFS, "      if k.arg != \"total\":", "      if k.arg not in (\"total\", \"closed\"):")]},
    # R5.12
    {"name": "defaults-split-with-neg-len-slice", "rule": "R5.12", "file": "pytype/pyi/function.py",
     "expect": "fire",
     "old": "  _apply_defaults(posonly_params + pos_params, args.defaults)",
     "new": "  _apply_defaults(pos_params, args.defaults)\n  _apply_defaults(posonly_params, args.defaults[: -len(pos_params)])"},
    {"name": "twin-defaults-split-guarded", "rule": "R5.12", "file": "pytype/pyi/function.py",
     "expect": "silent",
     "old": "  _apply_defaults(posonly_params + pos_params, args.defaults)",
     "new": "  _apply_defaults(pos_params, args.defaults)\n  _apply_defaults(posonly_params, args.defaults[: -len(pos_params)] if pos_params else args.defaults)"},
    {"name": "cell-names-guard-dropped", "rule": "R5.12", "file": "pytype/state.py", "expect": "fire",
     "old": "    elif freevars:\n      cell_names = f_code.localsplus[: -len(freevars)]\n    else:\n      cell_names = f_code.localsplus",
     "new": "    else:\n      cell_names = f_code.localsplus[: -len(freevars)]"},
    # R5.3: a flag arm the reader lost is a violation
    {"name": "parser-loses-final-arm", "rule": "R5.3", "file": PARSER, "expect": "fire",
     "old": "      elif self.defs.matches_type(d.name, \"typing.final\"):\n        final = True\n",
     "new": ""},
    # R5.13
    {"name": "seeded-C05-m1", "rule": "R5.13", "patch": "seeded/C05-m1/patch.diff", "expect": "fire"},
    {"name": "slots-forgotten-in-emptiness-test", "rule": "R5.13", "file": PRINTER, "expect": "fire",
     "old": "    if node.classes or node.methods or node.constants or slots:\n",
     "new": "    if node.classes or node.methods or node.constants:\n"},
    {"name": "emptiness-test-mentions-field-that-emits-no-line", "rule": "R5.13", "file": PRINTER,
     "expect": "fire",
     "old": "    if node.classes or node.methods or node.constants or slots:\n",
     "new": "    if node.classes or node.methods or node.constants or slots or node.decorators:\n"},
    {"name": "emptiness-test-requires-methods", "rule": "R5.13", "file": PRINTER,
     "expect": "fire",
     "old": "    if node.classes or node.methods or node.constants or slots:\n",
     "new": "    if (node.classes or slots or node.constants) and node.methods:\n"},
    {"name": "twin-body-built-unconditionally-then-tested", "rule": "R5.13", "file": PRINTER,
     "expect": "silent", "old": _VISITCLASS_TAIL,
     "new": "    class_lines = sum((m.splitlines() for m in node.classes), [])\n"
            "    classes = [self.INDENT + m for m in class_lines]\n"
            "    constants = [self.INDENT + m for m in node.constants]\n"
            "    method_lines = sum((m.splitlines() for m in node.methods), [])\n"
            "    methods = [self.INDENT + m for m in method_lines]\n"
            "    if not (slots or classes or constants or methods):\n"
            "      header[-1] += \" ...\"\n"
            "    lines = decorators + header + slots + classes + constants + methods\n"},
    {"name": "twin-body-collected-in-one-list", "rule": "R5.13", "file": PRINTER,
     "expect": "silent", "old": _VISITCLASS_TAIL,
     "new": "    class_lines = sum((m.splitlines() for m in node.classes), [])\n"
            "    method_lines = sum((m.splitlines() for m in node.methods), [])\n"
            "    body = slots + [self.INDENT + m for m in class_lines]\n"
            "    body += [self.INDENT + m for m in node.constants]\n"
            "    body = body + [self.INDENT + m for m in method_lines]\n"
            "    if len(body) == 0:\n"
            "      header[-1] += \" ...\"\n"
            "    lines = decorators + header + body\n"},
    {"name": "twin-slots-as-conditional-expression", "rule": "R5.13", "file": PRINTER,
     "expect": "silent",
     "old": "    if node.slots is not None:\n      slots_str = \", \".join(f'\"{s}\"' for s in node.slots)\n"
            "      slots = [self.INDENT + f\"__slots__ = [{slots_str}]\"]\n    else:\n      slots = []\n",
     "new": "    slots_str = \", \".join(f'\"{s}\"' for s in node.slots or ())\n"
            "    slots = [self.INDENT + f\"__slots__ = [{slots_str}]\"] if node.slots is not None else []\n"},
    {"name": "twin-emptiness-test-negated-arms-swapped", "rule": "R5.13", "file": PRINTER,
     "expect": "silent", "old": _VISITCLASS_TAIL,
     "new": "    if not (slots or node.constants or node.methods or node.classes):\n"
            "      header[-1] += \" ...\"\n"
            "      constants = classes = methods = []\n"
            "    else:\n"
            "      classes = [self.INDENT + m for c in node.classes for m in c.splitlines()]\n"
            "      constants = [self.INDENT + m for m in node.constants]\n"
            "      methods = [self.INDENT + m for f in node.methods for m in f.splitlines()]\n"
            "    lines = decorators + header + slots + classes + constants + methods\n"},
    # ---- behaviour-preserving refactorings (benign/C05-rN/patch.diff: verified
    # behaviour-identical) as must-silent twins, and the same refactored shape
    # carrying a defect (benign/C05-rN/with_defect_*.diff) as must-fire; the
    # with_<shape>.diff files are refactored shapes that must stay undecided
    {"name": "twin-benign-C05-r1-printer-methods-split-into-helpers", "rule": "*",
     "patch": "benign/C05-r1/patch.diff", "expect": "silent"},
    {"name": "twin-benign-C05-r2-early-returns-and-comprehensions", "rule": "*",
     "patch": "benign/C05-r2/patch.diff", "expect": "silent"},
    {"name": "twin-benign-C05-r3-parser-pipeline-renamed-and-chained", "rule": "*",
     "patch": "benign/C05-r3/patch.diff", "expect": "silent"},
    {"name": "twin-benign-C05-r4-verifier-mixin-and-hoisted-visitor", "rule": "*",
     "patch": "benign/C05-r4/patch.diff", "expect": "silent"},
    # R5.3 / R5.6: decorators built in a helper VisitFunction calls
    {"name": "r1-helper-emits-abstract-decorator-unknown-to-parser", "rule": "R5.3",
     "patch": "benign/C05-r1/with_defect_abstract_spelling.diff", "expect": "fire"},
    {"name": "r1-helper-property-spelled-differently", "rule": "R5.3",
     "patch": "benign/C05-r1/with_defect_property_spelling.diff", "expect": "fire"},
    {"name": "r1-helper-exempts-class_getitem", "rule": "R5.6",
     "patch": "benign/C05-r1/with_defect_extra_exemption.diff", "expect": "fire"},
    {"name": "r1-helper-assigns-decorator-text", "rule": "R5.3",
     "patch": "benign/C05-r1/with_decorator_assigned_not_appended.diff", "expect": "error"},
    {"name": "r1-helper-returns-two-different-values", "rule": "R5.3",
     "patch": "benign/C05-r1/with_helper_returning_two_values.diff", "expect": "error"},
    {"name": "twin-decorators-in-helper-with-renamed-node-parameter", "rule": "R5.3",
     "file": PRINTER, "expect": "silent", "old": _VISITFUNCTION, "new": _VISITFUNCTION_SPLIT},
    {"name": "decorators-in-helper-with-renamed-node-parameter-abstract-misspelled",
     "rule": "R5.3", "file": PRINTER, "expect": "fire", "old": _VISITFUNCTION,
     "new": _VISITFUNCTION_SPLIT.replace("@abstractmethod", "@abstract")},
    {"name": "decorators-in-helper-with-renamed-node-parameter-extra-exemption",
     "rule": "R5.6", "file": PRINTER, "expect": "fire", "old": _VISITFUNCTION,
     "new": _VISITFUNCTION_SPLIT.replace(
         "func.kind == pytd.MethodKind.STATICMETHOD and method_name != \"__new__\"",
         "func.kind == pytd.MethodKind.STATICMETHOD and method_name not in (\"__new__\", \"__call__\")")},
    {"name": "decorator-helper-tests-kind-of-another-object", "rule": "R5.3",
     "file": PRINTER, "expect": "error", "old": _VISITFUNCTION,
     "new": _VISITFUNCTION_SPLIT.replace("func.kind == pytd.MethodKind.PROPERTY",
                                         "self.old_node.kind == pytd.MethodKind.PROPERTY")},
    {"name": "kind-decorators-from-an-unrecognised-helper-expression", "rule": "R5.3",
     "file": PRINTER, "expect": "error", "old": _VISITFUNCTION,
     "new": _VISITFUNCTION_SPLIT.replace(
         "    decorators = self._FunctionDecorators(node)\n",
         "    decorators = \"\" + self._FunctionDecorators(node)\n")},
    # R5.3: the `None` abbreviation by its path condition
    {"name": "twin-none-abbreviation-as-guard-clause", "rule": "R5.3", "file": PRINTER,
     "expect": "silent",
     "old": "    if node_name == \"NoneType\":\n      # PEP 484 allows this special abbreviation.\n      return \"None\"\n    else:\n      return node_name\n",
     "new": "    if node_name != \"NoneType\":\n      return node_name\n    return \"None\"\n"},
    {"name": "twin-none-abbreviation-as-conditional-expression", "rule": "R5.3", "file": PRINTER,
     "expect": "silent",
     "old": "    if node_name == \"NoneType\":\n      # PEP 484 allows this special abbreviation.\n      return \"None\"\n    else:\n      return node_name\n",
     "new": "    return node_name if not node_name == \"NoneType\" else \"None\"\n"},
    {"name": "none-abbreviation-guard-clause-tests-other-name", "rule": "R5.3", "file": PRINTER,
     "expect": "fire",
     "old": "    if node_name == \"NoneType\":\n      # PEP 484 allows this special abbreviation.\n      return \"None\"\n    else:\n      return node_name\n",
     "new": "    if node_name != \"NoneTypes\":\n      return node_name\n    return \"None\"\n"},
    {"name": "none-abbreviation-conditional-expression-tests-other-name", "rule": "R5.3",
     "file": PRINTER, "expect": "fire",
     "old": "    if node_name == \"NoneType\":\n      # PEP 484 allows this special abbreviation.\n      return \"None\"\n    else:\n      return node_name\n",
     "new": "    return \"None\" if node_name == \"Nonetype\" else node_name\n"},
    {"name": "none-abbreviation-under-an-inequality", "rule": "R5.3", "file": PRINTER,
     "expect": "error",
     "old": "    if node_name == \"NoneType\":\n      # PEP 484 allows this special abbreviation.\n      return \"None\"\n    else:\n      return node_name\n",
     "new": "    if node_name != \"NoneType\":\n      return \"None\"\n    return node_name\n"},
    {"name": "r2-none-abbreviation-tests-other-name", "rule": "R5.3",
     "patch": "benign/C05-r2/with_defect_none_abbreviation_other_name.diff", "expect": "fire"},
    # R5.2: forwarded typing suffix in a helper; conditional literal argument
    {"name": "r2-forwarded-suffix-without-typing-guard", "rule": "R5.2",
     "patch": "benign/C05-r2/with_forwarded_suffix_without_typing_guard.diff", "expect": "error"},
    {"name": "r2-conditional-ctor-name-typo", "rule": "R5.2",
     "patch": "benign/C05-r2/with_defect_ctor_typo.diff", "expect": "fire"},
    # R5.2: VisitNamedType split into same-class helpers taking the node's name
    # (early-return form); the forwarded suffix is accepted only with the typing
    # guard and only while every caller of the helper passes `<param>.name`
    {"name": "twin-benign-C05-b3r1-named-type-split-into-name-helpers", "rule": "R5.2",
     "patch": "benign/C05-b3r1/patch.diff", "expect": "silent"},
    {"name": "b3r1-forwarded-suffix-without-typing-guard", "rule": "R5.2",
     "patch": "benign/C05-b3r1/with_forwarded_suffix_without_typing_guard.diff",
     "expect": "error"},
    {"name": "b3r1-typing-guard-inverted-before-early-return", "rule": "R5.2",
     "patch": "benign/C05-b3r1/with_typing_guard_after_early_return_inverted.diff",
     "expect": "error"},
    {"name": "b3r1-second-caller-passes-other-text", "rule": "R5.2",
     "patch": "benign/C05-b3r1/with_second_caller_passing_other_text.diff",
     "expect": "error"},
    {"name": "b3r1-helper-rebinds-name-parameter", "rule": "R5.2",
     "patch": "benign/C05-b3r1/with_helper_parameter_rebound.diff", "expect": "error"},
    # R5.8: constructor chosen by a conditional expression
    {"name": "twin-ctor-name-as-conditional-argument", "rule": "R5.8", "file": PRINTER,
     "expect": "silent",
     "old": "      if isinstance(t, pytd.ParamSpec):\n        typename = self._LookupTypingMember(\"ParamSpec\")\n      else:\n        typename = self._LookupTypingMember(\"TypeVar\")\n",
     "new": "      typename = self._LookupTypingMember(\n          \"TypeVar\" if not isinstance(t, pytd.ParamSpec) else \"ParamSpec\"\n      )\n"},
    {"name": "ctor-name-conditional-argument-arms-swapped", "rule": "R5.8", "file": PRINTER,
     "expect": "fire",
     "old": "      if isinstance(t, pytd.ParamSpec):\n        typename = self._LookupTypingMember(\"ParamSpec\")\n      else:\n        typename = self._LookupTypingMember(\"TypeVar\")\n",
     "new": "      typename = self._LookupTypingMember(\n          \"TypeVar\" if isinstance(t, pytd.ParamSpec) else \"ParamSpec\"\n      )\n"},
    {"name": "ctor-name-conditional-on-something-else", "rule": "R5.8", "file": PRINTER,
     "expect": "error",
     "old": "      if isinstance(t, pytd.ParamSpec):\n        typename = self._LookupTypingMember(\"ParamSpec\")\n      else:\n        typename = self._LookupTypingMember(\"TypeVar\")\n",
     "new": "      typename = self._LookupTypingMember(\n          \"ParamSpec\" if t.name.startswith(\"P\") else \"TypeVar\"\n      )\n"},
    {"name": "r2-conditional-ctor-arms-swapped", "rule": "R5.8",
     "patch": "benign/C05-r2/with_defect_ctor_arms_swapped.diff", "expect": "fire"},
    # R5.9: Callable form tests outside an if/elif chain
    {"name": "twin-callable-forms-as-early-returns", "rule": "R5.9", "file": PRINTER,
     "expect": "silent",
     "old": "    elif node.args and isinstance(self.old_node.args[0], pytd.Concatenate):\n      args = \", \".join(node.args)\n      return f\"{typ}[{args}, {node.ret}]\"\n    else:\n      args = \", \".join(node.args)\n      return f\"{typ}[[{args}], {node.ret}]\"\n",
     "new": "    args = \", \".join(node.args)\n    if node.args and isinstance(self.old_node.args[0], pytd.Concatenate):\n      return f\"{typ}[{args}, {node.ret}]\"\n    return f\"{typ}[[{args}], {node.ret}]\"\n"},
    {"name": "callable-concatenate-form-by-substring-in-conditional-expression", "rule": "R5.9",
     "file": PRINTER, "expect": "fire",
     "old": "    elif node.args and isinstance(self.old_node.args[0], pytd.Concatenate):\n      args = \", \".join(node.args)\n      return f\"{typ}[{args}, {node.ret}]\"\n    else:\n      args = \", \".join(node.args)\n      return f\"{typ}[[{args}], {node.ret}]\"\n",
     "new": "    args = \", \".join(node.args)\n    inner = args if node.args and \"Concatenate\" in node.args[0] else f\"[{args}]\"\n    return f\"{typ}[{inner}, {node.ret}]\"\n"},
    {"name": "callable-form-chosen-by-short-circuit", "rule": "R5.9", "file": PRINTER,
     "expect": "error",
     "old": "    elif node.args and isinstance(self.old_node.args[0], pytd.Concatenate):\n      args = \", \".join(node.args)\n      return f\"{typ}[{args}, {node.ret}]\"\n    else:\n      args = \", \".join(node.args)\n      return f\"{typ}[[{args}], {node.ret}]\"\n",
     "new": "    args = \", \".join(node.args)\n    bare = node.args and \"Concatenate\" in node.args[0]\n    return f\"{typ}[{args}, {node.ret}]\" * bool(bare) or f\"{typ}[[{args}], {node.ret}]\"\n"},
    {"name": "r2-concatenate-form-by-substring", "rule": "R5.9",
     "patch": "benign/C05-r2/with_defect_concatenate_substring.diff", "expect": "fire"},
    {"name": "r2-paramspec-form-by-substring", "rule": "R5.9",
     "patch": "benign/C05-r2/with_defect_paramspec_substring.diff", "expect": "fire"},
    {"name": "r2-callable-arm-unknown-text-predicate", "rule": "R5.9",
     "patch": "benign/C05-r2/with_callable_unknown_text_predicate.diff", "expect": "error"},
    # R5.10: functional TypedDict form built by a helper
    {"name": "r1-functional-form-helper-drops-keywords", "rule": "R5.10",
     "patch": "benign/C05-r1/with_defect_helper_drops_keywords.diff", "expect": "fire"},
    {"name": "r1-functional-form-helper-not-given-keywords", "rule": "R5.10",
     "patch": "benign/C05-r1/with_defect_caller_passes_no_keywords.diff", "expect": "fire"},
    # R5.13: body segments built by helpers
    {"name": "r1-slots-forgotten-in-emptiness-test", "rule": "R5.13",
     "patch": "benign/C05-r1/with_defect_slots_forgotten.diff", "expect": "fire"},
    {"name": "r1-emptiness-test-on-slots-truthiness", "rule": "R5.13",
     "patch": "benign/C05-r1/with_defect_slots_truthiness_test.diff", "expect": "fire"},
    {"name": "r1-methods-indented-from-the-wrong-list", "rule": "R5.13",
     "patch": "benign/C05-r1/with_defect_methods_from_wrong_list.diff", "expect": "fire"},
    {"name": "r1-helper-fills-a-body-list-in-place", "rule": "R5.13",
     "patch": "benign/C05-r1/with_helper_filling_list_in_place.diff", "expect": "error"},
    # R5.5: chained visits / hoisted visitor
    {"name": "twin-canonical_pyi-visits-chained", "rule": "R5.5", "file": PARSER,
     "expect": "silent",
     "old": "  ast = ast.Visit(visitors.ClassTypeToNamedType())\n  ast = ast.Visit(visitors.CanonicalOrderingVisitor())\n",
     "new": "  ast = ast.Visit(visitors.ClassTypeToNamedType()).Visit(\n      visitors.CanonicalOrderingVisitor()\n  )\n"},
    {"name": "canonical_pyi-chained-visits-without-ordering", "rule": "R5.5", "file": PARSER,
     "expect": "fire",
     "old": "  ast = parse_string(pyi, options=options)\n  ast = ast.Visit(visitors.ClassTypeToNamedType())\n  ast = ast.Visit(visitors.CanonicalOrderingVisitor())\n",
     "new": "  ast = parse_string(pyi, options=options).Visit(\n      visitors.ClassTypeToNamedType()\n  )\n"},
    {"name": "canonical_pyi-unknown-transformation", "rule": "R5.5", "file": PARSER,
     "expect": "error",
     "old": "  ast = ast.Visit(visitors.CanonicalOrderingVisitor())\n  ast.Visit(visitors.VerifyVisitor())",
     "new": "  ast = ast.Visit(visitors.CanonicalOrderingVisitor())\n  ast = ast.Visit(visitors.AdjustTypeParameters())\n  ast.Visit(visitors.VerifyVisitor())"},
    {"name": "r3-chained-visits-without-ordering", "rule": "R5.5",
     "patch": "benign/C05-r3/with_defect_ordering_dropped.diff", "expect": "fire"},
    {"name": "r3-verify-dropped", "rule": "R5.5",
     "patch": "benign/C05-r3/with_defect_verify_dropped.diff", "expect": "fire"},
    {"name": "r3-verify-before-the-last-transformation", "rule": "R5.5",
     "patch": "benign/C05-r3/with_defect_verify_before_ordering.diff", "expect": "fire"},
    {"name": "r3-unknown-visitor-in-the-chain", "rule": "R5.5",
     "patch": "benign/C05-r3/with_unknown_visitor_in_chain.diff", "expect": "error"},
    {"name": "twin-Print-visitor-hoisted-into-a-local", "rule": "R5.5", "file": PYTD_UTILS,
     "expect": "silent",
     "old": "  return ast.Visit(printer.PrintVisitor(multiline_args))",
     "new": "  v = printer.PrintVisitor(multiline_args)\n  return ast.Visit(v)"},
    {"name": "Print-uses-another-visitor", "rule": "R5.5", "file": PYTD_UTILS, "expect": "fire",
     "old": "  return ast.Visit(printer.PrintVisitor(multiline_args))",
     "new": "  return ast.Visit(visitors.CanonicalOrderingVisitor())"},
    {"name": "Print-hoisted-local-is-another-visitor", "rule": "R5.5", "file": PYTD_UTILS,
     "expect": "fire",
     "old": "  return ast.Visit(printer.PrintVisitor(multiline_args))",
     "new": "  v = visitors.CanonicalOrderingVisitor()\n  return ast.Visit(v)"},
    {"name": "Print-visitor-local-bound-on-two-paths", "rule": "R5.5", "file": PYTD_UTILS,
     "expect": "error",
     "old": "  return ast.Visit(printer.PrintVisitor(multiline_args))",
     "new": "  v = printer.PrintVisitor(multiline_args)\n  if multiline_args:\n    v = visitors.CanonicalOrderingVisitor()\n  return ast.Visit(v)"},
    {"name": "r4-Print-hoisted-local-is-another-visitor", "rule": "R5.5",
     "patch": "benign/C05-r4/with_defect_print_other_visitor.diff", "expect": "fire"},
    {"name": "r4-Print-visitor-local-rebound", "rule": "R5.5",
     "patch": "benign/C05-r4/with_print_visitor_rebound.diff", "expect": "error"},
    # R5.5: the tail of generate_pyi_ast split out into a module-local helper
    {"name": "twin-generate_pyi_ast-tail-in-a-helper", "rule": "R5.5", "expect": "silent",
     "edits": [(IO, _GEN_TAIL, _GEN_TAIL_CALL), (IO, "def generate_pyi_ast(\n", _GEN_HELPER + "def generate_pyi_ast(\n")]},
    {"name": "twin-generate_pyi_ast-stores-helper-result-directly", "rule": "R5.5", "expect": "silent",
     "edits": [(IO, _GEN_TAIL, "    finished = _finalize_inferred_ast(ret.ast, ret.ast_deps)\n  ret.ast = finished\n"),
               (IO, "def generate_pyi_ast(\n", _GEN_HELPER + "def generate_pyi_ast(\n")]},
    {"name": "twin-generate_pyi_ast-stores-the-helper-call", "rule": "R5.5", "expect": "silent",
     "edits": [(IO, _GEN_TAIL, "    ret.ast = _finalize_inferred_ast(ret.ast, ret.ast_deps)\n"),
               (IO, "def generate_pyi_ast(\n", _GEN_HELPER + "def generate_pyi_ast(\n")]},
    {"name": "generate_pyi_ast-stores-the-call-of-a-helper-that-skips-verify", "rule": "R5.5",
     "expect": "fire",
     "edits": [(IO, _GEN_TAIL, "    ret.ast = _finalize_inferred_ast(ret.ast, ret.ast_deps)\n"),
               (IO, "def generate_pyi_ast(\n",
                _GEN_HELPER.replace("  mod.Visit(visitors.VerifyVisitor())\n", "") + "def generate_pyi_ast(\n")]},
    {"name": "generate_pyi_ast-helper-skips-verify", "rule": "R5.5", "expect": "fire",
     "edits": [(IO, _GEN_TAIL, _GEN_TAIL_CALL),
               (IO, "def generate_pyi_ast(\n",
                _GEN_HELPER.replace("  mod.Visit(visitors.VerifyVisitor())\n", "") + "def generate_pyi_ast(\n")]},
    {"name": "generate_pyi_ast-helper-verifies-on-one-path-only", "rule": "R5.5", "expect": "fire",
     "edits": [(IO, _GEN_TAIL, _GEN_TAIL_CALL),
               (IO, "def generate_pyi_ast(\n",
                _GEN_HELPER.replace("  mod.Visit(visitors.VerifyVisitor())\n",
                                    "  if ast_deps:\n    mod.Visit(visitors.VerifyVisitor())\n")
                + "def generate_pyi_ast(\n")]},
    {"name": "generate_pyi_ast-helper-returns-unordered", "rule": "R5.5", "expect": "fire",
     "edits": [(IO, _GEN_TAIL, _GEN_TAIL_CALL),
               (IO, "def generate_pyi_ast(\n",
                _GEN_HELPER.replace("  return pytd_utils.CanonicalOrdering(mod)\n",
                                    "  pytd_utils.CanonicalOrdering(mod)\n  return mod\n")
                + "def generate_pyi_ast(\n")]},
    {"name": "generate_pyi_ast-helper-orders-then-optimizes", "rule": "R5.5", "expect": "fire",
     "edits": [(IO, _GEN_TAIL, _GEN_TAIL_CALL),
               (IO, "def generate_pyi_ast(\n",
                _GEN_HELPER.replace("  return pytd_utils.CanonicalOrdering(mod)\n",
                                    "  mod = pytd_utils.CanonicalOrdering(mod)\n"
                                    "  mod = optimize.Optimize(mod, ast_deps)\n  return mod\n")
                + "def generate_pyi_ast(\n")]},
    {"name": "generate_pyi_ast-helper-result-replaced-afterwards", "rule": "R5.5", "expect": "fire",
     "edits": [(IO, _GEN_TAIL, "    mod = _finalize_inferred_ast(ret.ast, ret.ast_deps)\n    mod = mod.Visit(visitors.ClassTypeToNamedType())\n  ret.ast = mod\n"),
               (IO, "def generate_pyi_ast(\n", _GEN_HELPER + "def generate_pyi_ast(\n")]},
    {"name": "twin-benign-C04-r4-generate_pyi_ast-tail-split-out", "rule": "*",
     "patch": "benign/C04-r4/patch.diff", "expect": "silent"},
    # R5.1/R5.2: printer methods inherited from a module-local mixin
    {"name": "twin-visit-methods-moved-to-a-local-mixin", "rule": "R5.1", "expect": "silent",
     "edits": [
         (PRINTER, "class PrintVisitor(base_visitor.Visitor):\n",
          "class _SimpleTypesPrinter:\n\n  def VisitLateType(self, node):\n    return self.VisitNamedType(node)\n\n\n"
          "class PrintVisitor(_SimpleTypesPrinter, base_visitor.Visitor):\n"),
         (PRINTER, "  def VisitLateType(self, node):\n    return self.VisitNamedType(node)\n\n  def VisitClassType", "  def VisitClassType")]},
    {"name": "visit-method-moved-to-a-mixin-that-is-not-a-base", "rule": "R5.1", "expect": "fire",
     "edits": [
         (PRINTER, "class PrintVisitor(base_visitor.Visitor):\n",
          "class _SimpleTypesPrinter:\n\n  def VisitLateType(self, node):\n    return self.VisitNamedType(node)\n\n\n"
          "class PrintVisitor(base_visitor.Visitor):\n"),
         (PRINTER, "  def VisitLateType(self, node):\n    return self.VisitNamedType(node)\n\n  def VisitClassType", "  def VisitClassType")]},
]

EXPLANATION += (
    ' R5.20 (rules/c05_implicit_self.py): a convention the stub reader applies implicitly (a type mutation synthesised for a first parameter named `self` annotated with a GenericType) needs a counterpart on the producing side (output.py sets mutated_type under a test on the parameter name, or the printer decides the `self = T` body from the same condition), otherwise print(parse(print(ast))) != print(ast). Today there is none: known finding D60.'
)
ASSUMPTIONS += [
    "R5.20 recognises a counterpart only in output.py's pytd.Parameter constructions / Replace(mutated_type=) calls and in PrintVisitor.VisitSignature and the PrintVisitor methods it calls; a repair placed elsewhere would have to be added to the rule.",
]

EXPLANATION += (
    " R5.21 / R5.22 (rules/c05_smallscope.py) decide two print/parse agreements by evaluating the code of the "
    "printer / reader, taken from /repo as an AST, on an exhaustive small scope (rules/_minieval.py plus local "
    "closures; host str/list/re semantics; nothing from /repo is imported): R5.21 - the text VisitParameter "
    "produces for `self` / `cls` parameters is the same whether the class stack EnterClass builds carries "
    "templates (`Outer[T]`: the inferencer's AST) or not (the AST the reader builds from the printed stub has "
    "template=()), for nesting depth 1-3, every subset of levels generic, names with and without module prefix, "
    "bare and parameterised class types; a difference means the implicit first parameter is elided on one side "
    "only, i.e. print(parse(print(ast))) != print(ast).  R5.22 - for each spelling PrintVisitor._FromTyping("
    "'Literal') evaluates to (no name collision: `Literal`; the module defines its own `Literal`: `typing.Literal`), "
    "_AnnotationVisitor.enter_Subscript on the python AST of `<spelling>['int']` (also nested in `list[...]`) "
    "followed by visit_Pyval must hand the string constant back unchanged (a literal value, not a late "
    "annotation; Definitions.matches_type is evaluated from definitions.py), and leave_Subscript must restore "
    "the stack so that the context ends with the subscript.  Blind spots: everything outside the scope "
    "(template parameters whose printed form contains dots or brackets, aliases of typing installed by "
    "`import typing as t`, typing_extensions aliases), import bookkeeping side effects of the elision, and "
    "any construct outside the evaluated fragment (analysis error, never a verdict).")
ASSUMPTIONS += [
    "R5.21: the stub reader builds classes without templates and leaves parameter type texts as printed "
    "(confirmed on a scratch build: parse_string gives Outer.template == ()); PrintVisitor.Print of a "
    "TemplateItem is what VisitTemplateItem returns for its type_param text.",
    "R5.22: the world model of Definitions is identity alias resolution (_resolve_alias(name) == name), "
    "resolve_type / new_type return opaque NamedType records; ast nodes are records with the fields of "
    "ast.Name / ast.Attribute / ast.Subscript; a ParseError raised by enter_Subscript counts as 'the reader "
    "rejects what the printer wrote', any other exception there is an analysis error.",
]

EXPLANATION += (
    "  R5.23 (rules/c05_order_guard.py; agreement of the two sides of the round trip on 'field order is "
    "semantic'): the visitor of pytd_visitors.py whose VisitClass hands back a plain class with sorted constants "
    "(found by evaluation, not by the spelling of the sort) is evaluated, with everything it calls "
    "(_PreserveConstantsOrdering, IsNamedTuple), on classes with unsorted constants whose base list holds the "
    "namedtuple marker the producers write (pytd.NamedType('typing.NamedTuple') in output.py / "
    "codegen/namedtuple.py) as NamedType (the AST the stub reader builds, canonical_pyi after "
    "ClassTypeToNamedType) and as ClassType (the inferred AST after LookupClasses), at every position of base "
    "lists of length 1-3 whose other bases are a resolved class, an unresolved name or Generic[T] in both "
    "forms; the constants must come back in declaration order, else the layout printed and the layout "
    "re-read differ.  One instance per (marker, node class).  R5.24 (rules/c05_param_kinds.py; printer <-> "
    "reader agreement on parameter kinds): PrintVisitor.VisitSignature is evaluated for every well-formed "
    "sequence of kinds with up to 4 named parameters (positional-only, regular, keyword-only) x *args x "
    "**kwargs x one-line / multi-line layout; the text is parsed with the host's python grammar and the fields "
    "of ast.arguments are mapped back to kinds with the table read from pyi/function.py (which comprehension "
    "over which field gets which ParameterKind); names, kinds and star parameters must be the printed ones.  "
    "One instance per what follows the positional-only run (nothing, a regular parameter, *args, a bare *, "
    "**kwargs) plus 'no positional-only parameters'.  Blind spots of both: only the small scope is decided "
    "(3 bases, 4 parameters); defaults, annotations and the parameter texts themselves are taken as printed; "
    "LateType bases and the functional marker 'collections.namedtuple' (no producer writes it as a base) are "
    "not exercised; anything outside the evaluated fragment is an analysis error.")
ASSUMPTIONS += [
    "R5.23: sorting is modelled on field names (strings) instead of pytd.Constant records; a base is a record "
    "with the fields of its node class, `name` included for GenericType (base_type.name); the visitor is "
    "applied to the inferred AST before printing and by canonical_pyi after re-reading (io._output_ast, "
    "serialize_ast, parser.canonical_pyi - not re-derived here).",
    "R5.24: the stub reader parses signatures with python's own grammar (ast.parse) and takes parameter kinds "
    "from ast.arguments.posonlyargs / args / kwonlyargs / vararg / kwarg (table read from pyi/function.py, "
    "concatenation order posonly + regular + kwonly assumed); _FormatContainerContents yields the star "
    "parameter's text (modelled as its name).",
]
