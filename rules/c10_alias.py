"""C10 extension: rows consumed by the in-place C3 merge are private copies.

R10.22  `MergeSequences` removes the emitted head from its rows with
        `del row[0]`: it *consumes* the lists it is given.  A linearisation
        that is kept for later (a memo table keyed by class, an attribute, the
        rows carried by an MROError, a module-level list, a default argument)
        must therefore never be the same object as a row that reaches a
        destructive operation - otherwise the first merge empties the memoised
        MRO and every later use of that class contributes no precedence
        constraints (a non-C3 order, or an MROError for a class CPython
        creates).

The rule decides this with a module-wide, flow- and context-insensitive
inclusion-based points-to analysis of pytype/pytd/mro.py (allocation sites =
list/dict/set/tuple displays, comprehensions, list()/tuple()/sorted()/...
calls, slices, `a + b`, instances of module-local classes; one `elements`
field per site; parameters of module-local functions receive the arguments of
every module-local call; publicly callable functions also get a placeholder for
the caller's objects).  A *destructive operation* is `del x[i]`, `x.pop()`,
`x.popitem()`, `x.popleft()`, `x.remove()`, `x.clear()` or `x[a:b] = ...`; a
site is *retained* when it is reachable through `elements` edges from a dict, an
instance, an attribute load, a caller-owned object the module stores into, a
module-level variable or a default argument.  Obligation: no mutable site is
both the possible operand of a destructive operation and retained.  Tuples are
immutable and can be neither.
"""
import ast
import collections

from sa.core import rule, AnalysisError
from sa.pyindex import get_module, dotted, src

MRO = "pytype/pytd/mro.py"

_MODULE = "<module>"

# builtins that neither keep nor mutate nor return (an alias of) an argument
_PURE = {"isinstance", "issubclass", "len", "any", "all", "hasattr", "id", "hash",
         "str", "repr", "bool", "int", "float", "min", "max", "type", "callable",
         "print", "format", "ord", "chr", "abs", "range"}
# builtins returning a new container over the elements of their arguments
_NEW_LIST = {"list": "list", "sorted": "list", "set": "set", "frozenset": "tuple",
             "tuple": "tuple", "dict": "dict", "reversed": "iter", "iter": "iter",
             "collections.deque": "list", "deque": "list",
             "collections.OrderedDict": "dict", "OrderedDict": "dict"}
_TUPLE_ITERS = {"enumerate", "zip"}
_LOG_ROOTS = {"log", "logging", "logger"}

_DESTRUCTIVE = {"pop", "popitem", "popleft", "remove", "clear"}
_ADD_ONE = {"append": 0, "add": 0, "appendleft": 0, "insert": 1}
_ADD_MANY = {"extend", "update", "extendleft"}
_IMMUTABLE = {"tuple"}
_RETAINING = {"dict", "obj", "attr"}


class _Site:
  __slots__ = ("kind", "func", "line", "label")

  def __init__(self, kind, func, line, label):
    self.kind, self.func, self.line, self.label = kind, func, line, label

  def __repr__(self):
    return f"{self.kind}:{self.func}:{self.label}@{self.line}"

  def show(self):
    return f"{self.func}:{self.line}:`{self.label}`"


class PointsTo:
  """Inclusion-based points-to analysis of one module (see module docstring)."""

  def __init__(self, mod, rel):
    self.mod, self.rel = mod, rel
    self.funcs = {}          # qual -> FunctionDef
    self.owner = {}          # qual -> class name or None
    self.classes = {c.name: c for c in mod.tree.body if isinstance(c, ast.ClassDef)}
    for n in mod.tree.body:
      if isinstance(n, (ast.FunctionDef, ast.AsyncFunctionDef)):
        self.funcs[n.name] = n
        self.owner[n.name] = None
      elif isinstance(n, ast.ClassDef):
        for m in n.body:
          if isinstance(m, (ast.FunctionDef, ast.AsyncFunctionDef)):
            self.funcs[f"{n.name}.{m.name}"] = m
            self.owner[f"{n.name}.{m.name}"] = n.name
    self.pts = collections.defaultdict(set)    # (scope, var) -> sites
    self.elem = collections.defaultdict(set)   # site -> sites
    self.sites = {}                            # key -> _Site
    self.destroyed = collections.defaultdict(list)  # site -> [(func, line, text)]
    self.stored_into = set()                   # caller-owned sites the module stores into
    self.store_at = collections.defaultdict(list)   # holder site -> [(func, line, text)]
    self.taken = set()                         # functions used as values
    self.locals = {}
    self.nested = {}                           # scope -> {name: FunctionDef}
    self.changed = True
    self._compenv = []         # innermost-last: comprehension variable scopes
    self._scan_scopes()
    self._solve()

  # -- scopes ------------------------------------------------------------------

  def _scan_scopes(self):
    module_names = set()
    for n in self.mod.tree.body:
      if isinstance(n, (ast.FunctionDef, ast.AsyncFunctionDef, ast.ClassDef,
                        ast.Import, ast.ImportFrom)):
        continue
      for x in ast.walk(n):
        if isinstance(x, ast.Name) and isinstance(x.ctx, ast.Store):
          module_names.add(x.id)
    self.locals[_MODULE] = module_names
    for q, fn in self.funcs.items():
      names, nested, globs = set(), {}, set()
      for x in ast.walk(fn):
        if isinstance(x, ast.arg):
          names.add(x.arg)
        elif isinstance(x, ast.Name) and isinstance(x.ctx, ast.Store):
          names.add(x.id)
        elif isinstance(x, ast.ExceptHandler) and x.name:
          names.add(x.name)
        elif isinstance(x, (ast.FunctionDef, ast.AsyncFunctionDef)) and x is not fn:
          nested[x.name] = x
        elif isinstance(x, (ast.Global, ast.Nonlocal)):
          globs.update(x.names)
        elif isinstance(x, (ast.Match, ast.ClassDef)):
          raise AnalysisError(
              f"{self.rel}:{q}: {type(x).__name__} statement inside a function is "
              "outside the points-to model")
        elif isinstance(x, (ast.Yield, ast.YieldFrom, ast.Await)):
          raise AnalysisError(
              f"{self.rel}:{q}: generators/coroutines are outside the points-to model")
      self.locals[q] = names - globs
      self.nested[q] = nested

  def _var(self, scope, name):
    for env in reversed(self._compenv):
      if name in env:
        return env[name]
    if scope != _MODULE and name in self.locals[scope]:
      return (scope, name)
    if name in self.locals[_MODULE]:
      return (_MODULE, name)
    return None

  # -- sites -------------------------------------------------------------------

  def _site(self, key, kind, func, line, label):
    s = self.sites.get(key)
    if s is None:
      s = self.sites[key] = _Site(kind, func, line, label[:60])
      if kind in ("attr", "escape"):
        self.elem[s].add(s)        # unknown depth
    return s

  def _alloc(self, node, kind, scope):
    return self._site(("alloc", id(node)), kind, scope, getattr(node, "lineno", 0),
                      src(node))

  def _add(self, target, sites):
    before = len(target)
    target |= sites
    if len(target) != before:
      self.changed = True

  def _elems(self, sites):
    out = set()
    for s in sites:
      out |= self.elem[s]
    return out

  def _holders_store(self, holders, values, scope, node):
    for h in holders:
      self._add(self.elem[h], values)
      if values:
        rec = (scope, getattr(node, "lineno", 0), src(node)[:70])
        if rec not in self.store_at[h]:
          self.store_at[h].append(rec)
        if h.kind in ("ext", "extelem") and h not in self.stored_into:
          self.stored_into.add(h)
          self.changed = True

  def _destroy(self, sites, scope, node):
    rec = (scope, getattr(node, "lineno", 0), src(node)[:70])
    for s in sites:
      if rec not in self.destroyed[s]:
        self.destroyed[s].append(rec)

  # -- solving -----------------------------------------------------------------

  def _externally_callable(self, q):
    name = q.split(".")[-1]
    return self.owner[q] is not None or not name.startswith("_") or q in self.taken

  def _solve(self):
    rounds = 0
    while self.changed:
      self.changed = False
      rounds += 1
      if rounds > 200:
        raise AnalysisError(f"{self.rel}: points-to analysis does not converge")
      for n in self.mod.tree.body:
        if not isinstance(n, (ast.FunctionDef, ast.AsyncFunctionDef, ast.ClassDef)):
          self._stmt(n, _MODULE)
      for q, fn in self.funcs.items():
        self._function(q, fn)

  def _params(self, fn):
    a = fn.args
    return [p.arg for p in a.posonlyargs + a.args]

  def _function(self, q, fn):
    a = fn.args
    if self._externally_callable(q):
      for p in a.posonlyargs + a.args + a.kwonlyargs:
        ext = self._site(("ext", q, p.arg), "ext", q, fn.lineno, f"parameter {p.arg}")
        e1 = self._site(("extelem", q, p.arg), "extelem", q, fn.lineno,
                        f"elements of parameter {p.arg}")
        e2 = self._site(("extdeep", q, p.arg), "extelem", q, fn.lineno,
                        f"elements of the elements of parameter {p.arg}")
        self._add(self.elem[ext], {e1})
        self._add(self.elem[e1], {e2})
        self._add(self.elem[e2], {e2})          # unknown depth below
        self._add(self.pts[(q, p.arg)], {ext})
    for extra in (a.vararg, a.kwarg):
      if extra is not None:
        s = self._site(("varargs", q, extra.arg), "tuple" if extra is a.vararg else "dict",
                       q, fn.lineno, f"*{extra.arg}")
        self._add(self.pts[(q, extra.arg)], {s})
    pos = a.posonlyargs + a.args
    for p, d in zip(pos[len(pos) - len(a.defaults):], a.defaults):
      self._default(q, p.arg, d)
    for p, d in zip(a.kwonlyargs, a.kw_defaults):
      if d is not None:
        self._default(q, p.arg, d)
    for s in fn.body:
      self._stmt(s, q)

  def _default(self, q, pname, d):
    vals = self._eval(d, _MODULE)
    self._add(self.pts[(q, pname)], vals)
    self._add(self.pts[(_MODULE, f"<default {q}.{pname}>")], vals)

  def _stmt(self, s, scope, ret="<return>"):
    if isinstance(s, (ast.FunctionDef, ast.AsyncFunctionDef)):
      # nested def: its variables live in the scope of the enclosing function
      for st in s.body:
        self._stmt(st, scope, f"<return {s.name}>")
      return
    if isinstance(s, ast.Return):
      if s.value is not None:
        self._add(self.pts[(scope, ret)], self._eval(s.value, scope))
      return
    if isinstance(s, ast.Assign):
      v = self._eval(s.value, scope)
      for t in s.targets:
        self._assign(t, v, scope, s)
      return
    if isinstance(s, ast.AnnAssign):
      if s.value is not None:
        self._assign(s.target, self._eval(s.value, scope), scope, s)
      return
    if isinstance(s, ast.AugAssign):
      v = self._eval(s.value, scope)
      cur = self._eval_target_load(s.target, scope)
      if isinstance(s.op, ast.Add):
        self._holders_store(cur, self._elems(v), scope, s)      # list += in place
        new = self._alloc(s, "list", scope)
        self._add(self.elem[new], self._elems(v) | self._elems(cur))
        self._assign(s.target, {new}, scope, s)                 # tuple += rebinds
      return
    if isinstance(s, (ast.For, ast.AsyncFor)):
      self._assign(s.target, self._elems(self._eval(s.iter, scope)), scope, s)
      for b in s.body + s.orelse:
        self._stmt(b, scope, ret)
      return
    if isinstance(s, ast.While):
      self._eval(s.test, scope)
      for b in s.body + s.orelse:
        self._stmt(b, scope, ret)
      return
    if isinstance(s, ast.If):
      self._eval(s.test, scope)
      for b in s.body + s.orelse:
        self._stmt(b, scope, ret)
      return
    if isinstance(s, (ast.With, ast.AsyncWith)):
      for it in s.items:
        v = self._eval(it.context_expr, scope)
        if it.optional_vars is not None:
          self._assign(it.optional_vars, v | {self._opaque(it.context_expr, scope)},
                       scope, s)
      for b in s.body:
        self._stmt(b, scope, ret)
      return
    if isinstance(s, (ast.Try, getattr(ast, "TryStar", ast.Try))):
      for b in s.body + s.orelse + s.finalbody:
        self._stmt(b, scope, ret)
      for h in s.handlers:
        if h.type is not None:
          self._eval(h.type, scope)
        for b in h.body:
          self._stmt(b, scope, ret)
      return
    if isinstance(s, ast.Delete):
      for t in s.targets:
        if isinstance(t, ast.Subscript):
          self._eval(t.slice, scope)
          self._destroy(self._eval(t.value, scope), scope, s)
        elif isinstance(t, ast.Attribute):
          self._eval(t.value, scope)
      return
    if isinstance(s, ast.Raise):
      if s.exc is not None:
        self._eval(s.exc, scope)
      if s.cause is not None:
        self._eval(s.cause, scope)
      return
    if isinstance(s, ast.Expr):
      self._eval(s.value, scope)
      return
    if isinstance(s, ast.Assert):
      self._eval(s.test, scope)
      return
    if isinstance(s, (ast.Pass, ast.Break, ast.Continue, ast.Import, ast.ImportFrom,
                      ast.Global, ast.Nonlocal)):
      return
    raise AnalysisError(
        f"{self.rel}:{scope}: statement `{type(s).__name__}` is outside the "
        "points-to model")

  def _eval_target_load(self, t, scope):
    load = ast.parse(src(t), mode="eval").body
    ast.copy_location(load, t)
    return self._eval(load, scope)

  def _assign(self, t, values, scope, stmt):
    if isinstance(t, ast.Name):
      v = self._var(scope, t.id)
      if v is None:
        raise AnalysisError(f"{self.rel}:{scope}: store to unknown name {t.id}")
      self._add(self.pts[v], values)
    elif isinstance(t, (ast.Tuple, ast.List)):
      inner = self._elems(values)
      for e in t.elts:
        self._assign(e.value if isinstance(e, ast.Starred) else e,
                     inner if not isinstance(e, ast.Starred) else values, scope, stmt)
    elif isinstance(t, ast.Starred):
      self._assign(t.value, values, scope, stmt)
    elif isinstance(t, ast.Subscript):
      holders = self._eval(t.value, scope)
      self._eval(t.slice, scope)
      if isinstance(t.slice, ast.Slice):
        self._holders_store(holders, self._elems(values), scope, stmt)
        self._destroy(holders, scope, stmt)
      else:
        self._holders_store(holders, values, scope, stmt)
    elif isinstance(t, ast.Attribute):
      holders = self._eval(t.value, scope)
      self._holders_store(holders, values, scope, stmt)
      for h in holders:
        if h not in self.stored_into:
          self.stored_into.add(h)      # an object attribute keeps the value
          self.changed = True
    else:
      raise AnalysisError(f"{self.rel}:{scope}: assignment target {src(t)}")

  def _opaque(self, node, scope):
    return self._site(("attr", scope, src(node)), "attr", scope,
                      getattr(node, "lineno", 0), src(node))

  def _comprehension(self, node, scope):
    """Binds the targets of a comprehension in a scope of their own (pushed on
    self._compenv; the caller pops it after evaluating the element)."""
    env = {}
    self._compenv.append(env)
    for g in node.generators:
      it = self._elems(self._eval(g.iter, scope))
      for x in ast.walk(g.target):
        if isinstance(x, ast.Name):
          env[x.id] = (scope, f"{x.id}<comprehension {id(node)}>")
      self._assign(g.target, it, scope, node)
      for c in g.ifs:
        self._eval(c, scope)

  def _eval(self, e, scope):
    """-> set of sites the value of expression `e` may be."""
    if e is None or isinstance(e, ast.Constant):
      return set()
    if isinstance(e, ast.Name):
      v = self._var(scope, e.id)
      if v is not None:
        return set(self.pts[v])
      if e.id in self.funcs and e.id not in self.taken:
        self.taken.add(e.id)           # function used as a value: unknown callers
        self.changed = True
      return set()
    if isinstance(e, (ast.List, ast.Tuple, ast.Set)):
      kind = {ast.List: "list", ast.Tuple: "tuple", ast.Set: "set"}[type(e)]
      s = self._alloc(e, kind, scope)
      for x in e.elts:
        if isinstance(x, ast.Starred):
          self._add(self.elem[s], self._elems(self._eval(x.value, scope)))
        else:
          self._add(self.elem[s], self._eval(x, scope))
      return {s}
    if isinstance(e, ast.Dict):
      s = self._alloc(e, "dict", scope)
      for k, v in zip(e.keys, e.values):
        if k is None:
          self._holders_store({s}, self._elems(self._eval(v, scope)), scope, e)
        else:
          self._eval(k, scope)
          self._holders_store({s}, self._eval(v, scope), scope, e)
      return {s}
    if isinstance(e, (ast.ListComp, ast.SetComp, ast.GeneratorExp)):
      kind = {ast.ListComp: "list", ast.SetComp: "set", ast.GeneratorExp: "iter"}[type(e)]
      s = self._alloc(e, kind, scope)
      self._comprehension(e, scope)
      try:
        self._add(self.elem[s], self._eval(e.elt, scope))
      finally:
        self._compenv.pop()
      return {s}
    if isinstance(e, ast.DictComp):
      s = self._alloc(e, "dict", scope)
      self._comprehension(e, scope)
      try:
        self._eval(e.key, scope)
        self._holders_store({s}, self._eval(e.value, scope), scope, e)
      finally:
        self._compenv.pop()
      return {s}
    if isinstance(e, ast.BinOp):
      l, r = self._eval(e.left, scope), self._eval(e.right, scope)
      if isinstance(e.op, (ast.Add, ast.Mult, ast.BitOr, ast.BitAnd, ast.Sub)) and (l or r):
        s = self._alloc(e, "list", scope)
        self._add(self.elem[s], self._elems(l) | self._elems(r))
        return {s}
      return set()
    if isinstance(e, ast.BoolOp):
      out = set()
      for v in e.values:
        out |= self._eval(v, scope)
      return out
    if isinstance(e, ast.IfExp):
      self._eval(e.test, scope)
      return self._eval(e.body, scope) | self._eval(e.orelse, scope)
    if isinstance(e, ast.NamedExpr):
      v = self._eval(e.value, scope)
      self._assign(e.target, v, scope, e)
      return v
    if isinstance(e, ast.Compare):
      self._eval(e.left, scope)
      for c in e.comparators:
        self._eval(c, scope)
      return set()
    if isinstance(e, ast.UnaryOp):
      self._eval(e.operand, scope)
      return set()
    if isinstance(e, ast.Starred):
      return self._eval(e.value, scope)
    if isinstance(e, ast.Subscript):
      base = self._eval(e.value, scope)
      if isinstance(e.slice, ast.Slice):
        for part in (e.slice.lower, e.slice.upper, e.slice.step):
          self._eval(part, scope)
        if not base:
          return set()
        s = self._alloc(e, "list", scope)
        self._add(self.elem[s], self._elems(base))
        return {s}
      self._eval(e.slice, scope)
      return self._elems(base)
    if isinstance(e, ast.Attribute):
      self._eval(e.value, scope)
      return {self._opaque(e, scope)}
    if isinstance(e, ast.JoinedStr):
      for v in e.values:
        if isinstance(v, ast.FormattedValue):
          self._eval(v.value, scope)
      return set()
    if isinstance(e, ast.Lambda):
      return self._eval(e.body, scope) and set()
    if isinstance(e, ast.Call):
      return self._call(e, scope)
    if isinstance(e, ast.Slice):
      return set()
    raise AnalysisError(
        f"{self.rel}:{scope}: expression `{src(e)[:60]}` is outside the points-to model")

  # -- calls -------------------------------------------------------------------

  def _bind(self, q, fn, call, scope, receiver=None, ret="<return>"):
    """Binds the arguments of `call` (evaluated in `scope`) to the parameters of
    `fn`, whose variables live in scope `q`; -> what the call may return."""
    a = fn.args
    params = [p.arg for p in a.posonlyargs + a.args]
    if receiver is not None:
      if not params:
        raise AnalysisError(f"{self.rel}:{q}: method without a receiver parameter")
      self._add(self.pts[(q, params[0])], receiver)
      params = params[1:]
    i = 0
    for x in call.args:
      if isinstance(x, ast.Starred):
        inner = self._elems(self._eval(x.value, scope))
        for p in params[i:]:
          self._add(self.pts[(q, p)], inner)
        if a.vararg is not None:
          self._holders_store(self.pts[(q, a.vararg.arg)], inner, scope, call)
        i = len(params)
        continue
      v = self._eval(x, scope)
      if i < len(params):
        self._add(self.pts[(q, params[i])], v)
      elif a.vararg is not None:
        self._holders_store(set(self.pts[(q, a.vararg.arg)]), v, scope, call)
      i += 1
    names = set(params) | {p.arg for p in a.kwonlyargs}
    for k in call.keywords:
      v = self._eval(k.value, scope)
      if k.arg is None:
        inner = self._elems(v)
        for p in names:
          self._add(self.pts[(q, p)], inner)
      elif k.arg in names:
        self._add(self.pts[(q, k.arg)], v)
      elif a.kwarg is not None:
        self._holders_store(set(self.pts[(q, a.kwarg.arg)]), v, scope, call)
    return set(self.pts[(q, ret)])

  def _instantiate(self, cname, call, scope):
    obj = self._site(("obj", id(call)), "obj", scope, call.lineno, src(call))
    init = self.funcs.get(f"{cname}.__init__")
    if init is not None:
      self._bind(f"{cname}.__init__", init, call, scope, receiver={obj})
    else:
      for x in call.args:
        self._holders_store({obj}, self._eval(x, scope), scope, call)
      for k in call.keywords:
        self._holders_store({obj}, self._eval(k.value, scope), scope, call)
    return {obj}

  def _escape(self, call, scope, values):
    if values:
      esc = self._site(("escape", scope, src(call.func)), "escape", scope,
                       call.lineno, f"argument of {src(call.func)}(...)")
      self._add(self.elem[esc], values)

  def _call(self, call, scope):
    f = call.func
    d = dotted(f)
    # module-local function / class / nested def
    if isinstance(f, ast.Name) and self._var(scope, f.id) is None:
      nested = self.nested.get(scope, {}).get(f.id)
      if nested is not None:
        return self._bind(scope, nested, call, scope, ret=f"<return {f.id}>")
      if f.id in self.funcs:
        return self._bind(f.id, self.funcs[f.id], call, scope)
      if f.id in self.classes:
        return self._instantiate(f.id, call, scope)
    if isinstance(f, ast.Name) and self._var(scope, f.id) is not None:
      raise AnalysisError(
          f"{self.rel}:{scope}: call through the variable `{f.id}` is outside the "
          "points-to model")
    args = list(call.args) + [k.value for k in call.keywords]
    if d in _PURE or (d and d.split(".")[0] in _LOG_ROOTS):
      for x in args:
        self._eval(x.value if isinstance(x, ast.Starred) else x, scope)
      return set()
    if d == "getattr":
      vals = [self._eval(x, scope) for x in call.args]
      out = {self._opaque(call, scope)}
      if len(vals) == 3:
        out |= vals[2]
      return out
    if d in ("super",):
      return {self._opaque(call, scope)}
    if d in _NEW_LIST:
      s = self._alloc(call, _NEW_LIST[d], scope)
      for x in call.args:
        self._add(self.elem[s], self._elems(self._eval(
            x.value if isinstance(x, ast.Starred) else x, scope)))
      for k in call.keywords:
        self._eval(k.value, scope)
      return {s}
    if d in _TUPLE_ITERS:
      s = self._alloc(call, "iter", scope)
      t = self._site(("tuple-of", id(call)), "tuple", scope, call.lineno, src(call))
      self._add(self.elem[s], {t})
      for x in call.args:
        self._add(self.elem[t], self._elems(self._eval(x, scope)))
      return {s}
    if d in ("map", "filter", "next", "sum", "functools.reduce", "itertools.chain"):
      raise AnalysisError(
          f"{self.rel}:{scope}: `{d}(...)` is outside the points-to model")
    if isinstance(f, ast.Attribute):
      recv = self._eval(f.value, scope)
      m = f.attr
      # method of the enclosing module-local class called on its receiver
      cname = self.owner.get(scope)
      if cname is not None and isinstance(f.value, ast.Name) and \
          self._params(self.funcs[scope])[:1] == [f.value.id] and \
          f"{cname}.{m}" in self.funcs:
        return self._bind(f"{cname}.{m}", self.funcs[f"{cname}.{m}"], call, scope,
                          receiver=recv)
      known = _DESTRUCTIVE | _ADD_MANY | set(_ADD_ONE) | {
          "get", "setdefault", "copy", "values", "items", "keys", "sort",
          "reverse", "index", "count"}
      if isinstance(f.value, (ast.Constant, ast.JoinedStr)):
        for x in args:                      # "sep".join(..) / "..".format(..)
          self._eval(x.value if isinstance(x, ast.Starred) else x, scope)
        return set()
      if recv and m not in known and any(
          r.kind in ("list", "set", "dict", "tuple", "iter") for r in recv):
        raise AnalysisError(
            f"{self.rel}:{scope}: method `{m}` called on a tracked container is "
            "outside the points-to model")
      if recv and m in known:
        vals = [self._eval(x.value if isinstance(x, ast.Starred) else x, scope)
                for x in args]
        if m in _DESTRUCTIVE:
          self._destroy(recv, scope, call)
          return self._elems(recv) | (vals[1] if m == "pop" and len(vals) > 1 else set())
        if m in _ADD_ONE:
          if len(vals) > _ADD_ONE[m]:
            self._holders_store(recv, vals[_ADD_ONE[m]], scope, call)
          return set()
        if m in _ADD_MANY:
          for v in vals:
            self._holders_store(recv, self._elems(v), scope, call)
          return set()
        if m == "get":
          return self._elems(recv) | (vals[1] if len(vals) > 1 else set())
        if m == "setdefault":
          if len(vals) > 1:
            self._holders_store(recv, vals[1], scope, call)
          return self._elems(recv)
        if m == "copy":
          s = self._alloc(call, "list", scope)
          self._add(self.elem[s], self._elems(recv))
          return {s}
        if m in ("values", "keys"):
          s = self._alloc(call, "iter", scope)
          self._add(self.elem[s], self._elems(recv))
          return {s}
        if m == "items":
          s = self._alloc(call, "iter", scope)
          t = self._site(("tuple-of", id(call)), "tuple", scope, call.lineno, src(call))
          self._add(self.elem[s], {t})
          self._add(self.elem[t], self._elems(recv))
          return {s}
        return set()                         # sort / reverse / index / count
      # a method of an object the module does not own
      for x in args:
        self._escape(call, scope, self._eval(
            x.value if isinstance(x, ast.Starred) else x, scope))
      return {self._opaque(call, scope)}
    # a function the module does not define
    for x in args:
      self._escape(call, scope, self._eval(
          x.value if isinstance(x, ast.Starred) else x, scope))
    return {self._opaque(call, scope)}

  # -- queries -----------------------------------------------------------------

  def roots(self):
    """-> {site: description} of the objects that keep what they hold."""
    out = {}
    for s in self.sites.values():
      if s.kind in _RETAINING:
        out[s] = {"dict": "dict", "obj": "instance",
                  "attr": "object outside the module"}[s.kind] + " " + s.show()
      elif s.kind == "escape":
        out[s] = "code outside the module: " + s.show()
    for s in self.stored_into:
      out.setdefault(s, "caller-owned object the module stores into: " + s.show())
    for (scope, name), sites in self.pts.items():
      if scope == _MODULE:
        for s in sites:
          out.setdefault(s, f"module-level `{name}`")
          # the module-level object itself is retained as well
    return out

  def module_level_sites(self):
    out = {}
    for (scope, name), sites in self.pts.items():
      if scope == _MODULE:
        for s in sites:
          out[s] = f"module-level `{name}`"
    return out

  def reach(self, root):
    seen, todo = set(), [root]
    while todo:
      s = todo.pop()
      for x in self.elem[s]:
        if x not in seen:
          seen.add(x)
          todo.append(x)
    return seen

  def holder_name(self, site):
    """A stable name for a holder: `<function>:<variable bound to it>`."""
    names = sorted(f"{scope}:{name}" for (scope, name), sites in self.pts.items()
                   if site in sites and scope == site.func and not name.startswith("<"))
    if names:
      return names[0]
    return f"{site.func}:{site.label.split('(')[0]}"


def points_to(ctx, rel):
  return ctx.memo(("c10-points-to", rel), lambda: PointsTo(get_module(ctx, rel), rel))


@rule("R10.22", "C10", floor=3)
def r10_22(ctx):
  """No list that the module keeps (memo, attribute, exception payload, global,
  default argument) can be a row the consuming merge deletes from."""
  pt = points_to(ctx, MRO)
  mutable_destroyed = {s: recs for s, recs in pt.destroyed.items()
                       if recs and s.kind not in _IMMUTABLE}
  if not mutable_destroyed:
    # a merge that never removes in place cannot corrupt what is kept
    ctx.ok("module:no-in-place-removal", MRO, 1,
           {"destructive_operations": 0, "functions": sorted(pt.funcs)})
  roots = pt.roots()
  module_sites = pt.module_level_sites()
  retained = collections.defaultdict(list)      # site -> [root description]
  order = {"dict": 0, "obj": 2, "attr": 3, "escape": 4}
  for r, desc in sorted(roots.items(), key=lambda kv: (order.get(kv[0].kind, 1), kv[1])):
    for s in pt.reach(r):
      retained[s].append((r, desc))
  for s, desc in module_sites.items():
    retained[s].insert(0, (s, desc))
  # (a) one instance per destructive operation
  by_op = collections.defaultdict(set)
  for s, recs in mutable_destroyed.items():
    for rec in recs:
      by_op[rec].add(s)
  for (func, line, text), sites in sorted(by_op.items()):
    construct = f"{func}:consumes:{text.split('(')[0].strip()}"
    unknown = [s for s in sites if s in retained
               and all(r.kind == "escape" for r, _ in retained[s])]
    if unknown:
      raise AnalysisError(
          f"{MRO}:{func}:{line}: `{text}` may remove elements from "
          f"{unknown[0].show()}, which was handed to code outside the module: "
          "cannot decide whether it is kept there")
    kept = sorted((s for s in sites if s in retained and s.kind != "extelem"
                   and s.kind != "ext"), key=lambda s: (s.func, s.line))
    contract = sorted(s.show() for s in sites if s.kind in ("ext", "extelem"))
    facts = {"operation": text, "may_shrink": sorted(s.show() for s in sites)[:12],
             "callers_rows_consumed_by_contract": contract}
    if kept:
      ctx.bad(construct, MRO, line,
              f"`{text}` in {func} removes elements in place from "
              + "; ".join(f"{s.show()} (kept by {retained[s][0][1]})" for s in kept[:4])
              + ": a linearisation that is kept for later is emptied by the first "
              "merge it takes part in, so later merges lose its precedence "
              "constraints; hand the merge a copy (list(row)) or keep an "
              "immutable tuple", facts)
    else:
      ctx.ok(construct, MRO, line, facts)
  # (b) one instance per keeping object that holds sequences
  used = collections.Counter()
  for r, desc in sorted(roots.items(), key=lambda kv: (kv[0].func, kv[0].line, kv[0].label)):
    if r.kind in ("attr", "escape", "ext", "extelem"):
      continue
    held = [s for s in pt.reach(r) if s.kind in ("list", "set", "dict", "tuple", "iter")]
    if not held:
      continue
    hit = sorted((s for s in held if s in mutable_destroyed),
                 key=lambda s: (s.func, s.line))
    base = pt.holder_name(r)
    used[base] += 1
    construct = (base if used[base] == 1 else f"{base}#{used[base]}") + \
        ":kept-sequences-never-consumed"
    facts = {"keeper": desc, "holds": sorted(f"{s.kind} {s.show()}" for s in held)[:10],
             "stored_at": [f"{f}:{l}: {t}" for f, l, t in pt.store_at[r][:4]]}
    if hit:
      op = mutable_destroyed[hit[0]][0]
      ctx.bad(construct, MRO, r.line,
              f"{desc} keeps {hit[0].show()}, a list that `{op[2]}` ({op[0]}:{op[1]}) "
              "may shrink in place: what is read back later is not the "
              "linearisation that was stored", facts)
    else:
      ctx.ok(construct, MRO, r.line, facts)


_MEMO_OLD = ("      mros[t] = tuple(\n          MROMerge(\n"
             "              [[t]] + base_mros + [_Degenerify(_GetClass(t, lookup_ast).bases)]\n"
             "          )\n      )\n")
_MEMO_LIST = ("      mros[t] = MROMerge(\n"
              "          [[t]] + base_mros + [_Degenerify(_GetClass(t, lookup_ast).bases)]\n"
              "      )\n")
_DEDUP_TAIL = "    seen.add(s)\n  return result\n"
_ROWS = "  seqs = [Dedup(s) for s in input_seqs]\n"

VARIANTS = [
    {"name": "seeded-C10-r3m2", "rule": "R10.22", "patch": "seeded/C10-r3m2/patch.diff",
     "expect": "fire"},
    # the fast path alone already hands the callers' rows to the consuming merge:
    # the rows an MROError carries into the error message are emptied
    {"name": "Dedup-returns-its-input-when-nothing-is-removed", "rule": "R10.22",
     "file": MRO, "expect": "fire", "old": _DEDUP_TAIL,
     "new": "    seen.add(s)\n  if isinstance(seq, list) and len(result) == len(seq):\n"
            "    return seq\n  return result\n"},
    {"name": "MROMerge-copies-only-the-outer-list", "rule": "R10.22", "file": MRO,
     "expect": "fire", "old": _ROWS, "new": "  seqs = list(input_seqs)\n"},
    {"name": "ComputeMRO-feeds-memoised-lists-to-MergeSequences", "rule": "R10.22",
     "file": MRO, "expect": "fire", "old": _MEMO_OLD,
     "new": "      mros[t] = MergeSequences(\n"
            "          [[t]] + base_mros + [_Degenerify(_GetClass(t, lookup_ast).bases)]\n"
            "      )\n"},
    {"name": "memo-of-list-copies-and-conditional-alias-in-Dedup", "rule": "R10.22",
     "expect": "fire",
     "edits": [(MRO, "      mros[t] = tuple(\n          MROMerge(",
                "      mros[t] = list(\n          MROMerge("),
               (MRO, _DEDUP_TAIL,
                "    seen.add(s)\n  return seq if len(seen) == len(seq) else result\n")]},
    {"name": "memoised-row-popped-in-place", "rule": "R10.22", "file": MRO, "expect": "fire",
     "old": "  return tuple(MROMerge(base_mros + [_Degenerify(cls.bases)]))",
     "new": "  cache = {id(cls): [list(m) for m in base_mros]}\n"
            "  for m in cache[id(cls)]:\n    m.pop()\n"
            "  return tuple(MROMerge(base_mros + [_Degenerify(cls.bases)]))"},
    # twins
    {"name": "twin-memo-holds-the-merged-list-rows-still-copied", "rule": "R10.22",
     "file": MRO, "expect": "silent", "old": _MEMO_OLD, "new": _MEMO_LIST},
    {"name": "twin-Dedup-via-dict-fromkeys", "rule": "R10.22", "file": MRO,
     "expect": "silent",
     "old": "  seen = set()\n  result = []\n  for s in seq:\n    if s not in seen:\n"
            "      result.append(s)\n    seen.add(s)\n  return result\n",
     "new": "  return list(dict.fromkeys(seq))\n"},
    {"name": "twin-rows-copied-in-a-loop", "rule": "R10.22", "file": MRO, "expect": "silent",
     "old": _ROWS,
     "new": "  seqs = []\n  for row in input_seqs:\n    seqs.append(Dedup(list(row)))\n"},
    {"name": "twin-fast-path-in-Dedup-but-rows-copied-first", "rule": "R10.22",
     "expect": "silent",
     "edits": [(MRO, _MEMO_OLD, _MEMO_LIST),
               (MRO, _DEDUP_TAIL,
                "    seen.add(s)\n  return seq if len(seen) == len(seq) else result\n"),
               (MRO, _ROWS, "  seqs = [Dedup(list(s)) for s in input_seqs]\n")]},
    {"name": "module-level-list-handed-to-the-consuming-merge", "rule": "R10.22",
     "expect": "fire",
     "edits": [(MRO, "def _ComputeMRO(t, mros, lookup_ast):\n",
                "_NO_BASES = []\n\n\ndef _ComputeMRO(t, mros, lookup_ast):\n"),
               (MRO, "  return tuple(MROMerge(base_mros + [_Degenerify(cls.bases)]))",
                "  return tuple(MergeSequences(base_mros + [_NO_BASES]))")]},
    {"name": "twin-head-removed-with-pop", "rule": "R10.22", "file": MRO, "expect": "silent",
     "old": "            del other_seq[0]", "new": "            other_seq.pop(0)"},
    {"name": "twin-memo-lookup-via-get", "rule": "R10.22", "file": MRO, "expect": "silent",
     "old": "        if base in mros:\n          if mros[base] is None:\n"
            "            raise MROError([[t]])\n          else:\n"
            "            base_mro = mros[base]\n",
     "new": "        if base in mros:\n          base_mro = mros.get(base)\n"
            "          if base_mro is None:\n            raise MROError([[t]])\n"},
    {"name": "twin-merge-without-in-place-removal", "rule": "R10.22", "file": MRO,
     "expect": "silent",
     "old": "        for other_seq in seqs:\n          if other_seq and other_seq[0] == cand:\n"
            "            del other_seq[0]\n        break\n",
     "new": "        seqs = [s[1:] if s and s[0] == cand else s for s in seqs]\n        break\n"},
]
