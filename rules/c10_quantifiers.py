"""C10 extension: the two quantifiers C3 and super() rest on.

R10.20  A C3 candidate (the head of one row) is rejected iff it occurs in the
        tail of ANY other row.  R10.6 decides the shape of the membership test
        (`cand in row[1:]`) and that it sits in the rejecting arm; this rule
        decides the quantifier around it: existential, over every row the
        merge currently holds, with no filter other than "not the row the
        candidate was taken from".
R10.21  `super()` continues in the MRO of the *instance's* class right after
        the class the method was found in: the set of classes the look-up
        skips is the prefix of `starting_cls.mro` up to and including
        `current_cls` - built by an in-order scan of that very MRO that adds
        every element it passes and stops at the first match.  Selecting the
        skipped classes by membership in some other linearisation (e.g.
        `current_cls.mro`) is a different set as soon as a sibling sits
        between `current_cls` and a shared ancestor.
"""
import ast

from sa.core import rule, AnalysisError
from sa.pyindex import get_module, dotted, src, walk_no_nested
from sa import flow

MRO = "pytype/pytd/mro.py"
ATTR = "pytype/attribute.py"

_COMPS = (ast.GeneratorExp, ast.ListComp, ast.SetComp)


def _strip_not(t, pol=True):
  while isinstance(t, ast.UnaryOp) and isinstance(t.op, ast.Not):
    t, pol = t.operand, not pol
  return t, pol


def _conjuncts(e):
  if isinstance(e, ast.BoolOp) and isinstance(e.op, ast.And):
    out = []
    for v in e.values:
      out.extend(_conjuncts(v))
    return out
  return [e]


def _rows_domain(it, rows):
  """Classifies the iteration expression of the tail quantifier.

  -> ("all", None) every row; ("part", why) a proper part / reordered prefix;
  None: not understood.
  """
  if isinstance(it, ast.Name) and it.id == rows:
    return ("all", None)
  if isinstance(it, ast.Call) and dotted(it.func) in ("list", "tuple", "iter", "reversed") \
      and len(it.args) == 1 and not it.keywords:
    return _rows_domain(it.args[0], rows)   # order is irrelevant to `any`
  if isinstance(it, ast.Subscript) and isinstance(it.slice, ast.Slice) and \
      isinstance(it.value, ast.Name) and it.value.id == rows:
    s = it.slice
    if s.lower is None and s.upper is None and s.step is None:
      return ("all", None)
    return ("part", f"the slice `{src(it)}` of the rows")
  return None


def _tail_tests(mod):
  """`x in row[1:]` tests inside a comprehension that binds `row`, anywhere in
  the module: (function, compare, comprehension)."""
  out = []
  for n in ast.walk(mod.tree):
    if isinstance(n, ast.Compare) and len(n.ops) == 1 and \
        isinstance(n.ops[0], (ast.In, ast.NotIn)) and isinstance(n.left, ast.Name):
      sub = n.comparators[0]
      if isinstance(sub, ast.Subscript) and isinstance(sub.slice, ast.Slice) and \
          isinstance(sub.value, ast.Name):
        fn = mod.enclosing_function(n)
        while fn is not None and mod.enclosing_function(fn) is not None:
          fn = mod.enclosing_function(fn)
        if fn is not None and fn.name in _merge_closure(mod):
          out.append((fn, n))
  return out


def _merge_closure(mod):
  """MergeSequences and the module-level helpers it (transitively) calls."""
  seen, todo = set(), ["MergeSequences"]
  while todo:
    f = todo.pop()
    if f in seen or f not in mod.functions:
      continue
    seen.add(f)
    for c in ast.walk(mod.functions[f]):
      if isinstance(c, ast.Call) and isinstance(c.func, ast.Name):
        todo.append(c.func.id)
  return seen


def _rows_reach(mod, fn, name, depth=0):
  """Is parameter `name` of helper `fn` always bound to ALL rows of the merge?

  -> ("all", None) | ("part", why); raises AnalysisError when not understood.
  """
  params = [a.arg for a in fn.args.args]
  if name not in params:
    raise AnalysisError(f"{fn.name}: `{name}` is not a parameter (rows not traceable)")
  if fn.name == "MergeSequences":
    if params[0] != name:
      raise AnalysisError("MergeSequences: rows are not the first parameter")
    return ("all", None)
  if depth > 3:
    raise AnalysisError("MergeSequences helpers nest too deep")
  calls = [c for n2, f2 in mod.functions.items() if n2 in _merge_closure(mod)
           for c in ast.walk(f2) if isinstance(c, ast.Call)
           and isinstance(c.func, ast.Name) and c.func.id == fn.name]
  if not calls:
    raise AnalysisError(f"{fn.name}: no call site found")
  for c in calls:
    idx = params.index(name)
    arg = c.args[idx] if idx < len(c.args) else next(
        (k.value for k in c.keywords if k.arg == name), None)
    if arg is None or any(isinstance(a, ast.Starred) for a in c.args):
      raise AnalysisError(f"{fn.name}: call `{src(c)[:60]}` not understood")
    caller = mod.enclosing_function(c)
    while mod.enclosing_function(caller) is not None:
      caller = mod.enclosing_function(caller)
    base = arg
    while isinstance(base, (ast.Subscript, ast.Call)):
      base = base.value if isinstance(base, ast.Subscript) else (
          base.args[0] if base.args else None)
    if not isinstance(base, ast.Name):
      raise AnalysisError(f"{fn.name}: rows argument `{src(arg)}` not understood")
    dom = _rows_domain(arg, base.id)
    if dom is None:
      if any(isinstance(x, ast.Slice) for x in ast.walk(arg)):
        return ("part", f"`{src(arg)}` (passed to {fn.name})")
      raise AnalysisError(f"{fn.name}: rows argument `{src(arg)}` not understood")
    if dom[0] != "all":
      return ("part", f"{dom[1]} (passed to {fn.name})")
    up = _rows_reach(mod, caller, base.id, depth + 1)
    if up[0] != "all":
      return up
  return ("all", None)


@rule("R10.20", "C10", floor=2)
def r10_20(ctx):
  """Every candidate is tested against the tails of ALL other rows."""
  mod = get_module(ctx, MRO)
  mod.func("MergeSequences")
  tails = _tail_tests(mod)
  if len(tails) != 1:
    raise AnalysisError(
        f"MergeSequences: {len(tails)} tail-membership tests `x in row[..:]` "
        "found in the merge and its helpers, expected one")
  fn, t = tails[0]
  var = t.comparators[0].value.id
  # the comprehension that binds the row variable
  comp = t
  while comp is not None and not (
      isinstance(comp, _COMPS) and any(
          isinstance(g.target, ast.Name) and g.target.id == var
          for g in comp.generators)):
    if isinstance(comp, ast.stmt):
      comp = None
      break
    comp = mod.parent.get(comp)
  if comp is None:
    raise AnalysisError(
        "MergeSequences: the tail test is not inside a comprehension over the "
        "rows (explicit loops are outside what R10.20 understands)")
  if len(comp.generators) != 1:
    raise AnalysisError("MergeSequences: nested tail quantifier not understood")
  g = comp.generators[0]
  facts = {"domain": src(g.iter), "filters": [src(i) for i in g.ifs],
           "element": src(comp.elt)}
  # -- the domain
  base = g.iter
  while isinstance(base, (ast.Subscript, ast.Call)):
    base = base.value if isinstance(base, ast.Subscript) else (
        base.args[0] if base.args else None)
  if not isinstance(base, ast.Name):
    raise AnalysisError(
        f"MergeSequences: tail quantifier ranges over `{src(g.iter)}`, not understood")
  rows = base.id
  dom = _rows_domain(g.iter, rows)
  if dom is None:
    # a domain that mentions an index of the scan is a positional restriction
    if any(isinstance(x, ast.Slice) for x in ast.walk(g.iter)):
      dom = ("part", f"`{src(g.iter)}`")
    else:
      raise AnalysisError(
          f"MergeSequences: tail quantifier ranges over `{src(g.iter)}`, not understood")
  if dom[0] == "all":
    dom = _rows_reach(mod, fn, rows)
  ctx.check(dom[0] == "all", "MergeSequences:tail-test-ranges-over-every-row",
            MRO, t.lineno,
            f"the candidate is looked for in the tails of {dom[1]} only: C3 "
            "rejects a head that occurs in the tail of ANY other row (a row "
            "scanned earlier whose own head was rejected still blocks it), so "
            "a class is emitted before one of its subclasses' siblings and "
            "inconsistent hierarchies are accepted", facts)
  # -- the filters: the tail test itself, and exclusion of the current row
  where = "filter" if any(t is x or any(t is y for y in ast.walk(x)) for x in g.ifs) \
      else "element"
  extra = []
  conds = []
  for i in g.ifs:
    conds.extend(_conjuncts(i))
  if where == "element":
    e, pol = _strip_not(comp.elt)
    if e is not t or not pol:
      raise AnalysisError(
          f"MergeSequences: tail quantifier element `{src(comp.elt)}` not understood")
  for c in conds:
    c0, pol = _strip_not(c)
    if c0 is t:
      if not pol:
        raise AnalysisError("MergeSequences: negated tail filter not understood")
      continue
    if isinstance(c0, ast.Compare) and len(c0.ops) == 1 and \
        isinstance(c0.ops[0], (ast.IsNot, ast.NotEq)) and pol:
      sides = [c0.left, c0.comparators[0]]
      names = [x.id for x in sides if isinstance(x, ast.Name)]
      if len(names) == 2 and var in names and names[0] != names[1] and rows not in names:
        continue      # `row is not <the candidate's own row>`
    if isinstance(c0, ast.Name) and c0.id == var and pol:
      continue      # `if s`: an empty row has no tail
    extra.append(src(c))
  if extra:
    raise AnalysisError(
        f"MergeSequences: tail quantifier is filtered by {extra}; only the "
        "exclusion of the candidate's own row is understood")
  # -- the quantifier
  user = mod.parent.get(comp)
  q = dotted(user.func) if isinstance(user, ast.Call) and comp in user.args else None
  if q is None and isinstance(user, (ast.If, ast.While)) and user.test is comp and \
      isinstance(comp, ast.ListComp):
    q = "any"     # truthiness of the list of blocking rows
  if q not in ("any", "all"):
    raise AnalysisError(
        f"MergeSequences: tail quantifier consumed by `{q or type(user).__name__}`, "
        "not understood")
  # any(x in tail) [blocked] and all(x not in tail) [free] are the two
  # existential readings; which arm rejects is R10.6's business
  member = isinstance(t.ops[0], ast.In)
  if where == "filter" and q == "all":
    raise AnalysisError("MergeSequences: all(..) over filtered rows not understood")
  ctx.check((q == "any") == member,
            "MergeSequences:tail-test-is-existential", MRO, t.lineno,
            f"the condition is `{q}(.. {src(t)} ..)`: ONE row with the "
            "candidate in its tail is enough to block it, so the test has to "
            "read any(x in tail) / all(x not in tail)",
            dict(facts, quantifier=q, membership="in" if member else "not in"))


# -- R10.21 ------------------------------------------------------------------------

def _lookup_call(mod, fn):
  """The call that performs the super look-up: (call, cls arg, skip arg)."""
  out = []
  for n in walk_no_nested(fn):
    if isinstance(n, ast.Call) and isinstance(n.func, ast.Attribute) and \
        n.func.attr.startswith("_lookup_from_mro"):
      out.append(n)
  if len(out) != 1:
    raise AnalysisError(
        "_get_attribute_from_super_instance: MRO look-up call not recognised")
  call = out[0]
  callee = None
  for c in mod.classes.values():
    for st in c.body:
      if isinstance(st, ast.FunctionDef) and st.name == call.func.attr:
        callee = st
  if callee is None:
    raise AnalysisError(f"{call.func.attr} not found")
  params = [a.arg for a in callee.args.args][1:]
  bound = dict(zip(params, call.args))
  for k in call.keywords:
    bound[k.arg] = k.value
  if "cls" not in bound or "skip" not in bound:
    raise AnalysisError(f"{call.func.attr}: cls/skip parameters not recognised")
  return call, bound["cls"], bound["skip"]


def _cmp_sides(test):
  """{a, b} (unparsed, `.full_name` stripped) of an ==/is comparison, else None."""
  if isinstance(test, ast.Compare) and len(test.ops) == 1 and \
      isinstance(test.ops[0], (ast.Eq, ast.Is)):
    def strip(e):
      d = dotted(e)
      if d and d.endswith(".full_name"):
        d = d[:-len(".full_name")]
      return d
    return {strip(test.left), strip(test.comparators[0])}
  return None


_CONSTRUCTS = ("skip-scans-starting-mro", "every-passed-class-is-skipped",
               "scan-stops-at-current-class")


@rule("R10.21", "C10", floor=3)
def r10_21(ctx):
  """super(): skip exactly the prefix of starting_cls.mro ending at current_cls."""
  mod = get_module(ctx, ATTR)
  fn = mod.func("AbstractAttributeHandler._get_attribute_from_super_instance")
  call, cls_arg, skip_arg = _lookup_call(mod, fn)
  if not (isinstance(cls_arg, ast.Name) and isinstance(skip_arg, ast.Name)):
    raise AnalysisError("super look-up: cls/skip arguments are not local names")
  start, skip = cls_arg.id, skip_arg.id
  # definitions of `skip`
  defs = [n for n in walk_no_nested(fn) if isinstance(n, (ast.Assign, ast.AnnAssign, ast.AugAssign))
          and any(isinstance(x, ast.Name) and x.id == skip
                  for x in (n.targets if isinstance(n, ast.Assign) else [n.target]))]
  empty, builders = [], []
  for d in defs:
    v = d.value
    if isinstance(v, (ast.Tuple, ast.List)) and not v.elts or \
        (isinstance(v, ast.Call) and dotted(v.func) in ("set", "frozenset", "tuple", "list")
         and not v.args and not v.keywords):
      empty.append(d)
    else:
      builders.append(d)
  # which of the empty initialisations is followed by an accumulating loop?
  loops = []
  for n in walk_no_nested(fn):
    if isinstance(n, ast.For) and any(
        isinstance(c, ast.Call) and isinstance(c.func, ast.Attribute)
        and dotted(c.func.value) == skip and c.func.attr in ("add", "append", "update", "extend")
        for c in ast.walk(n)):
      loops.append(n)
  what = "super-lookup"
  # the class the method was found in: the name compared with the loop element,
  # or, failing that, the local bound to `obj.super_cls`
  by_name = {}
  for n in walk_no_nested(fn):
    if isinstance(n, ast.Assign) and len(n.targets) == 1 and \
        isinstance(n.targets[0], ast.Name):
      by_name.setdefault(n.targets[0].id, []).append(
          (dotted(n.value) or "").endswith(".super_cls"))
  cur_names = {k for k, v in by_name.items() if all(v)}
  if builders:
    # skip computed by an expression: understood only well enough to tell a
    # selection by membership in another linearisation from anything else
    b = builders[0]
    other_mros = sorted({dotted(a.value) for a in ast.walk(b.value)
                         if isinstance(a, ast.Attribute) and a.attr == "mro"
                         and dotted(a.value) and dotted(a.value) != start})
    # one level of local indirection (ancestors = set(current_cls.mro[1:]))
    for nm in flow.names_in(b.value):
      for n in walk_no_nested(fn):
        if isinstance(n, ast.Assign) and len(n.targets) == 1 and \
            isinstance(n.targets[0], ast.Name) and n.targets[0].id == nm:
          other_mros += sorted({dotted(a.value) for a in ast.walk(n.value)
                                if isinstance(a, ast.Attribute) and a.attr == "mro"
                                and dotted(a.value) and dotted(a.value) != start})
    if other_mros:
      for c in _CONSTRUCTS:
        ctx.bad(f"{what}:{c}", ATTR, b.lineno,
                f"the classes skipped by super() are computed as `{src(b.value)[:80]}`, "
                f"which selects them by the linearisation of {sorted(set(other_mros))}: "
                f"super() continues in `{start}.mro` right after the current "
                "class, so the skipped classes are a PREFIX of that MRO (an "
                "in-order scan that stops at the current class); with "
                "multiple inheritance the classes that follow the current class "
                "there without being its ancestors (a sibling in a diamond) must "
                "not be skipped", {"skip": src(b.value)[:120], "other_mro": other_mros})
      return
    raise AnalysisError(
        f"super look-up: `{skip}` is computed by `{src(b.value)[:60]}`, not understood")
  if len(loops) != 1 or not empty:
    raise AnalysisError("super look-up: skip-building loop not recognised")
  loop = loops[0]
  if not isinstance(loop.target, ast.Name) or loop.orelse:
    raise AnalysisError("super look-up: skip-building loop target not understood")
  elt = loop.target.id
  facts = {"domain": src(loop.iter), "starting": start}
  # (a) the scan is over the MRO of the class the look-up starts from, forward
  it = loop.iter
  dom = dotted(it)
  if dom is None:
    whole = isinstance(it, ast.Call) and dotted(it.func) in ("list", "tuple", "iter") \
        and len(it.args) == 1 and dotted(it.args[0])
    if whole:
      dom = dotted(it.args[0])
  if dom is None:
    mros = [dotted(a.value) for a in ast.walk(it)
            if isinstance(a, ast.Attribute) and a.attr == "mro"]
    if not mros:
      raise AnalysisError(f"super look-up: skip loop iterates `{src(it)}`, not understood")
    ctx.bad(f"{what}:skip-scans-starting-mro", ATTR, loop.lineno,
            f"the skip-building loop iterates `{src(it)}`: the skipped classes "
            f"must be a prefix of `{start}.mro`, scanned whole and in order", facts)
  elif not dom.endswith(".mro"):
    raise AnalysisError(f"super look-up: skip loop iterates `{dom}`, not an MRO")
  else:
    ctx.check(dom == f"{start}.mro", f"{what}:skip-scans-starting-mro", ATTR,
              loop.lineno,
              f"the skip-building loop iterates `{dom}` but the look-up walks "
              f"`{start}.mro`: super() continues in the MRO of the class the "
              "look-up starts from", facts)
  # (b) every element passed is added, before the stop test can leave the loop
  def is_add(unit):
    return any(isinstance(c.func, ast.Attribute) and dotted(c.func.value) == skip
               and c.func.attr in ("add", "append") and len(c.args) == 1
               and dotted(c.args[0]) == elt for c in flow.unconditional_calls(unit))
  breaks = [n for n in flow._walk_loop_body(loop) if isinstance(n, ast.Break)]
  conts = [n for n in flow._walk_loop_body(loop) if isinstance(n, ast.Continue)]
  if len(breaks) != 1:
    for c in _CONSTRUCTS[1:]:
      ctx.bad(f"{what}:{c}", ATTR, loop.lineno,
              f"the skip-building loop has {len(breaks)} `break`s: it must stop "
              "at (and only at) the class the method was found in, or it skips "
              "the whole MRO / too little", facts)
    return
  wrap = ast.FunctionDef(name="_", args=fn.args, body=loop.body, decorator_list=[],
                         lineno=loop.lineno, col_offset=0)
  f = flow.flow(wrap, lambda u: ["added"] if is_add(u) else [], mode="must")
  before_break = f.before.get(breaks[0])
  ends = [s for k, n, s in f.exits if k == "end"]
  added_always = before_break is not None and "added" in before_break and \
      all("added" in s for s in ends) and not conts
  ctx.check(added_always, f"{what}:every-passed-class-is-skipped", ATTR, loop.lineno,
            f"some path through the skip-building loop passes an element of "
            f"`{src(loop.iter)}` without adding it to `{skip}` (or leaves the "
            "loop before adding the current class itself): every class up to "
            "AND including the current one is skipped", facts)
  # (c) the stop test compares the element with the current class
  g = flow.guards(mod.parent, breaks[0], stop=loop)
  stop_ok = False
  seen = []
  for test, pol in g:
    sides = _cmp_sides(test)
    seen.append((src(test), pol))
    if pol and sides and elt in sides and (sides - {elt}) <= cur_names and len(sides) == 2:
      stop_ok = True
  if not stop_ok and not any(elt in flow.names_in(t) for t, _ in g):
    raise AnalysisError(f"super look-up: stop test {seen} not understood")
  ctx.check(stop_ok and len(g) == 1, f"{what}:scan-stops-at-current-class", ATTR,
            breaks[0].lineno,
            f"the scan must stop exactly when the element is the class the "
            f"method was found in ({sorted(cur_names)}); the break is guarded by {seen}",
            dict(facts, stop=seen))


VARIANTS = [
    # R10.20
    {"name": "seeded-C10-r2m1", "rule": "R10.20", "patch": "seeded/C10-r2m1/patch.diff",
     "expect": "fire"},
    {"name": "tail-test-skips-class-row", "rule": "R10.20", "file": MRO, "expect": "fire",
     "old": "if any(s for s in seqs if cand in s[1:] and s is not seq):",
     "new": "if any(s for s in seqs[1:] if cand in s[1:] and s is not seq):"},
    {"name": "tail-test-universal", "rule": "R10.20", "file": MRO, "expect": "fire",
     "old": "if any(s for s in seqs if cand in s[1:] and s is not seq):",
     "new": "if all(cand in s[1:] for s in seqs if s is not seq):"},
    {"name": "tail-test-earlier-rows-only", "rule": "R10.20", "expect": "fire",
     "edits": [(MRO, "    for seq in seqs:  # find merge candidates among seq heads",
                "    for k, seq in enumerate(seqs):  # find merge candidates among seq heads"),
               (MRO, "if any(s for s in seqs if cand in s[1:] and s is not seq):",
                "if any(cand in s[1:] for s in seqs[:k]):")]},
    {"name": "tail-test-in-helper-called-with-later-rows", "rule": "R10.20", "expect": "fire",
     "edits": [(MRO, "      if any(s for s in seqs if cand in s[1:] and s is not seq):",
                "      if _InOtherTail(cand, seq, seqs[1:]):"),
               (MRO, "def Dedup(seq):",
                "def _InOtherTail(cand, own, rows):\n  return any(cand in r[1:] for r in rows if r is not own)\n\n\ndef Dedup(seq):")]},
    {"name": "tail-test-filtered-by-unknown-predicate", "rule": "R10.20", "file": MRO, "expect": "error",
     "old": "if any(s for s in seqs if cand in s[1:] and s is not seq):",
     "new": "if any(s for s in seqs if cand in s[1:] and len(s) > 2):"},
    {"name": "twin-tail-test-boolean-elements", "rule": "R10.20", "file": MRO, "expect": "silent",
     "old": "if any(s for s in seqs if cand in s[1:] and s is not seq):",
     "new": "if any(cand in s[1:] for s in seqs if s is not seq):"},
    {"name": "twin-tail-test-list-of-blockers", "rule": "R10.20", "file": MRO, "expect": "silent",
     "old": "if any(s for s in seqs if cand in s[1:] and s is not seq):",
     "new": "if any([other for other in seqs if other is not seq and cand in other[1:]]):"},
    {"name": "twin-tail-test-copy-of-rows", "rule": "R10.20", "file": MRO, "expect": "silent",
     "old": "if any(s for s in seqs if cand in s[1:] and s is not seq):",
     "new": "if any(s for s in list(seqs) if s is not seq if cand in s[1:]):"},
    # R10.21
    {"name": "seeded-C10-r2m2", "rule": "R10.21", "patch": "seeded/C10-r2m2/patch.diff",
     "expect": "fire"},
    {"name": "skip-scans-current-class-mro", "rule": "R10.21", "file": ATTR, "expect": "fire",
     "old": "      for base in starting_cls.mro:\n        skip.add(base)",
     "new": "      for base in current_cls.mro:\n        skip.add(base)"},
    {"name": "skip-excludes-current-class", "rule": "R10.21", "file": ATTR, "expect": "fire",
     "old": "        skip.add(base)\n        if base.full_name == current_cls.full_name:\n          break",
     "new": "        if base.full_name == current_cls.full_name:\n          break\n        skip.add(base)"},
    {"name": "skip-stops-at-starting-class", "rule": "R10.21", "file": ATTR, "expect": "fire",
     "old": "        if base.full_name == current_cls.full_name:\n          break",
     "new": "        if base.full_name == starting_cls.full_name:\n          break"},
    {"name": "twin-skip-loop-renamed-identity-test", "rule": "R10.21", "file": ATTR, "expect": "silent",
     "old": "      for base in starting_cls.mro:\n        skip.add(base)\n        if base.full_name == current_cls.full_name:\n          break",
     "new": "      for klass in starting_cls.mro:\n        skip.add(klass)\n        if current_cls.full_name == klass.full_name:\n          break"},
    {"name": "twin-skip-list-accumulator", "rule": "R10.21", "expect": "silent",
     "edits": [(ATTR, "      skip = set()\n      for base in starting_cls.mro:\n        skip.add(base)",
                "      skip = []\n      for base in starting_cls.mro:\n        skip.append(base)")]},
]
