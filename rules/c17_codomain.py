"""C17 - R17.8: what And / Or / _And.simplify / _Or.simplify may return.

Paper argument (rules/c17.py): `simplify_exprs(members, K, stop, skip)` is
equivalent to the plain connective over the members (R17.1) and the four
callers instantiate it correctly (R17.2).  That makes the callers equivalent
to the connective only if what they *return* is what the combinator returned.
In particular a constant may be returned only because something was found to
BE that constant (the combinator's result, a member): `_Or.simplify` may
answer TRUE only when some operand simplified to TRUE.  A constant returned
on a path that never compared anything with it rests on a different argument
(pivots, sizes, the table) that the schema does not cover - and pivots are a
per-variable projection, so `(x==a & y==a) | (x==b & y==b)` "covers" x and y
without being TRUE.  The rule decides the codomain on the returned
expressions and the path condition of each return; it does not interpret the
other tests.
"""
import ast

from sa.core import rule, AnalysisError
from sa.pyindex import dotted, src, calls_in, walk_no_nested
from rules import _schema as S
from rules import _util_c12c17c18 as U

BQ = "pytype/pytd/booleq.py"
_QUALS = ("And", "Or", "_And.simplify", "_Or.simplify")
_CONSTS = ("TRUE", "FALSE")


def _vmod(ctx):
  # the same virtual module rules/c17.py reads (memoised per argument set)
  return U.virtual(ctx, BQ, inline=("And", "Or", "_And.simplify", "_Or.simplify"),
                   keep=("simplify_exprs",), flatten=True)


def _mentions_const(test, k):
  """How a path test involves the constant k: 'is' (some comparison of
  something with k by is / == / in), 'other' (k occurs differently), None."""
  found = None
  for n in ast.walk(test):
    if isinstance(n, ast.Compare) and len(n.ops) == 1:
      sides = [n.left, n.comparators[0]]
      if any(isinstance(s, ast.Name) and s.id == k for s in sides):
        if isinstance(n.ops[0], (ast.Is, ast.Eq, ast.In)):
          return "is"
        found = "other"
    elif isinstance(n, ast.Name) and n.id == k and found is None:
      found = "other"
  return found


def _local_defs2(fn, name):
  defs, stores = [], 0
  for n in walk_no_nested(fn):
    if isinstance(n, ast.Name) and n.id == name and \
        isinstance(n.ctx, (ast.Store, ast.Del)):
      stores += 1
    if isinstance(n, ast.Assign) and len(n.targets) == 1 and \
        isinstance(n.targets[0], ast.Name) and n.targets[0].id == name:
      defs.append(n.value)
  return defs if defs and stores == len(defs) else None


@rule("R17.8", "C17", floor=4)
def r17_8(ctx):
  """The constructors / simplify return the combinator's result, nothing else."""
  mod = _vmod(ctx)
  for nm in _CONSTS:
    if nm not in mod.assigns:
      raise AnalysisError(f"booleq.{nm} not found")
  for qual in _QUALS:
    fn = mod.func(qual)
    ps = S.params_of(fn)
    me = ps[0] if "." in qual and ps else None
    calls = calls_in(fn, name="simplify_exprs")
    if len(calls) != 1:
      raise AnalysisError(f"{qual}: {len(calls)} simplify_exprs calls")
    call = calls[0]
    for n in walk_no_nested(fn):
      if isinstance(n, (ast.Yield, ast.YieldFrom)):
        raise AnalysisError(f"{qual}: generator")

    def is_result(e, depth=0):
      if e is call:
        return True
      if isinstance(e, ast.Name) and e.id not in ps and depth < 4:
        defs = _local_defs2(fn, e.id)
        return bool(defs) and all(is_result(d, depth + 1) for d in defs)
      return False

    rets = [r for r in walk_no_nested(fn) if isinstance(r, ast.Return)]
    if not rets:
      raise AnalysisError(f"{qual}: no return")
    kinds, wrong = [], []
    for r in rets:
      if r.value is None:
        wrong.append((r, "None", "a bare return"))
        continue
      g = S.guards(mod, r)
      for leaf, conds in S.expand_ifexp(r.value):
        path = g + conds
        if is_result(leaf):
          kinds.append("combinator result")
        elif me is not None and isinstance(leaf, ast.Name) and leaf.id == me and \
            _local_defs2(fn, me) is None and not any(
                isinstance(n, ast.Name) and n.id == me and isinstance(n.ctx, ast.Store)
                for n in walk_no_nested(fn)):
          kinds.append("the term itself")
        elif isinstance(leaf, ast.Name) and leaf.id in _CONSTS:
          how = [(_mentions_const(t, leaf.id), pol) for t, pol in path]
          if any(h == "is" and pol for h, pol in how):
            kinds.append(f"{leaf.id} where something is {leaf.id}")
          elif any(h is not None for h, _ in how):
            raise AnalysisError(
                f"{qual}: returns {leaf.id} under tests that involve {leaf.id} "
                "in a way the rule does not read: "
                f"{[src(t)[:50] for t, _ in path]}")
          else:
            wrong.append((r, leaf.id,
                          f"the constant {leaf.id} on a path that never found "
                          f"anything to be {leaf.id} "
                          f"(tests: {[src(t)[:60] for t, _ in path] or 'none'})"))
        else:
          raise AnalysisError(
              f"{qual}: returns `{src(leaf)[:60]}`, neither the combinator's "
              "result, the term itself nor a constant")
    facts = {"returns": sorted(set(kinds)),
             "wrong": [w[2][:120] for w in wrong]}
    cons = f"{qual}:codomain"
    if wrong:
      r, what, why = wrong[0]
      ctx.bad(cons, BQ, r.lineno,
              f"{qual} returns {why}: it may only return what simplify_exprs "
              "returned over all members (the term itself is also equivalent); "
              "a constant that the combinator did not produce claims an "
              "equivalence the schema does not establish", facts)
    else:
      ctx.ok(cons, BQ, fn.lineno, facts)


_OR_SIMPLIFY = ("    return simplify_exprs(\n"
                "        (e.simplify(assignments) for e in self.exprs), _Or, TRUE, FALSE\n"
                "    )\n")
_AND_SIMPLIFY = ("    return simplify_exprs(\n"
                 "        (e.simplify(assignments) for e in self.exprs), _And, FALSE, TRUE\n"
                 "    )\n")
_OR_LOCAL = ("    result = simplify_exprs(\n"
             "        (e.simplify(assignments) for e in self.exprs), _Or, TRUE, FALSE\n"
             "    )\n")
_AND_LOCAL = ("    result = simplify_exprs(\n"
              "        (e.simplify(assignments) for e in self.exprs), _And, FALSE, TRUE\n"
              "    )\n")

VARIANTS = [
    {"name": "seeded-C17-r4m2", "rule": "R17.8",
     "patch": "seeded/C17-r4m2/patch.diff", "expect": "fire"},
    {"name": "_Or.simplify-gives-up-on-large-terms", "rule": "R17.8", "file": BQ,
     "expect": "fire", "old": _OR_SIMPLIFY,
     "new": _OR_LOCAL + "    if isinstance(result, _Or) and len(result.exprs) > 8:\n"
                        "      return TRUE\n    return result\n"},
    {"name": "_And.simplify-empty-pivots-is-FALSE", "rule": "R17.8", "file": BQ,
     "expect": "fire", "old": _AND_SIMPLIFY,
     "new": _AND_LOCAL + "    if isinstance(result, _And) and not result.extract_pivots(assignments):\n"
                         "      return FALSE\n    return result\n"},
    {"name": "_Or.simplify-conditional-expression-TRUE", "rule": "R17.8", "file": BQ,
     "expect": "fire", "old": _OR_SIMPLIFY,
     "new": _OR_LOCAL + "    return TRUE if not assignments else result\n"},
    {"name": "Or-of-many-is-TRUE", "rule": "R17.8", "file": BQ, "expect": "fire",
     "old": "  return simplify_exprs(exprs, _Or, TRUE, FALSE)\n",
     "new": "  exprs = tuple(exprs)\n  if len(exprs) > 64:\n    return TRUE\n"
            "  return simplify_exprs(exprs, _Or, TRUE, FALSE)\n"},
    {"name": "twin-_Or.simplify-through-local", "rule": "R17.8", "file": BQ,
     "expect": "silent", "old": _OR_SIMPLIFY, "new": _OR_LOCAL + "    return result\n"},
    {"name": "twin-_Or.simplify-TRUE-when-result-is-TRUE", "rule": "R17.8", "file": BQ,
     "expect": "silent", "old": _OR_SIMPLIFY,
     "new": _OR_LOCAL + "    if result is TRUE:\n      return TRUE\n    return result\n"},
    {"name": "twin-_And.simplify-unchanged-term-kept", "rule": "R17.8", "file": BQ,
     "expect": "silent", "old": _AND_SIMPLIFY,
     "new": _AND_LOCAL + "    if result == self:\n      return self\n    return result\n"},
    {"name": "twin-benign-C17-r2", "rule": "R17.8",
     "patch": "benign/C17-r2/patch.diff", "expect": "silent"},
]
