"""C20 extension: the stub printer does not invent a `Generic[...]` base.

merge-pyi applies the stub with libcst's ApplyTypeAnnotationsVisitor.  Besides
annotations that visitor copies two things from a stub class into the source
(codemod/visitors/_apply_type_annotations.py): (1) in leave_ClassDef, a base
`Generic[...]` of the stub class when the source class has none
(`_find_generic_base`: a Subscript of the bare Name `Generic`), and (2) in
leave_Module, whole stub classes the source does not define.  (1) changes the
class header - the syntax tree differs in more than annotations - so the stub
pytype prints for a class may list a `Generic[...]` base only if the class
itself has one: the printed bases have to be the node's own.

R20.21 (element provenance over PrintVisitor.VisitClass, reaching
definitions): every string that can become an element of the sequence joined
into the `class NAME(...):` header is derived from an element of
`node.bases` or `node.keywords` (and constants); an element built without
them is *synthesised* - a violation when its text can spell `Generic`
(`self._FromTyping("Generic")` or a literal containing it), harmless when it
is a constant that is not a Generic subscript, an ANALYSIS-ERROR when its
text is unknown.  The header template itself may only add the class name and
punctuation.
"""
import ast
import re

from sa.core import rule, AnalysisError
from sa.pyindex import get_module, dotted, src
from rules.provenance import ReachingDefs

PR = "pytype/pytd/printer.py"
_OWN = {"bases", "keywords"}
_SEQ_WRAPPERS = {"tuple", "list", "sorted", "reversed", "iter"}
_STR_FUNCS = {"str", "repr", "format"}
_GENERIC = re.compile(r"(^|[^\w])Generic($|[^\w])")


class _Prov:
  """Roots of string values / of the elements of sequence values."""

  def __init__(self, mod, fn, depth=0):
    self.mod, self.fn, self.depth = mod, fn, depth
    self.rd = ReachingDefs(mod, fn)
    a = fn.args.args
    if len(a) != 2:
      raise AnalysisError(f"{fn.name}: expected (self, node)")
    self.self_, self.node = a[0].arg, a[1].arg
    self.joined = []      # [(label, roots)] elements of sequences joined into strings
    self._in_elem = 0

  def _helper(self, e):
    """`self.H(node)`: H is a method of the same class taking (self, node) and
    is handed this method's own, never re-bound node parameter, so `node.f` in
    H is the same field as here.  Returns (provenance of H, its return values)
    or None."""
    d = dotted(e.func) or ""
    cls = self.mod.parent.get(self.fn)
    if not d.startswith(self.self_ + ".") or d.count(".") != 1 or \
        not isinstance(cls, ast.ClassDef) or self.depth >= 3:
      return None
    h = self.mod.methods(cls.name).get(d.split(".")[1])
    if h is None or h is self.fn or not isinstance(h, ast.FunctionDef):
      return None
    a = h.args
    if len(a.args) != 2 or a.vararg or a.kwarg or a.kwonlyargs or a.posonlyargs \
        or a.defaults or h.decorator_list:
      return None
    if len(e.args) != 1 or e.keywords or not isinstance(e.args[0], ast.Name) \
        or e.args[0].id != self.node:
      return None
    ds = self.rd.defs_of(e.args[0])
    if len(ds) != 1 or next(iter(ds)).kind != "param":
      return None
    rets = [r.value for r in ast.walk(h) if isinstance(r, ast.Return)
            and self.mod.enclosing_function(r) is h]
    if not rets or any(v is None for v in rets):
      return None
    sub = _Prov(self.mod, h, self.depth + 1)
    sub._in_elem = self._in_elem   # a join inside an element stays inside it
    return sub, rets

  # roots: ("field", f) | ("const", text) | ("typing", member) | ("opaque", text)
  def roots(self, e, seen):
    if isinstance(e, ast.Constant):
      return {("const", e.value if isinstance(e.value, str) else repr(e.value))}
    if isinstance(e, ast.JoinedStr):
      out = set()
      for v in e.values:
        out |= self.roots(v.value if isinstance(v, ast.FormattedValue) else v, seen)
      return out
    if isinstance(e, ast.BinOp) and isinstance(e.op, (ast.Add, ast.Mod)):
      return self.roots(e.left, seen) | self.roots(e.right, seen)
    if isinstance(e, ast.IfExp):
      return self.roots(e.body, seen) | self.roots(e.orelse, seen)
    if isinstance(e, ast.Tuple):     # `"%s" % (a, b)`
      out = set()
      for x in e.elts:
        out |= self.roots(x, seen)
      return out
    if isinstance(e, ast.Attribute):
      d = dotted(e)
      if d and d.startswith(self.node + ".") and d.count(".") == 1:
        return {("field", e.attr)}
      return {("opaque", src(e))}
    if isinstance(e, ast.Subscript):
      return self.roots(e.value, seen)
    if isinstance(e, ast.NamedExpr):
      return self.roots(e.value, seen)
    if isinstance(e, ast.Name):
      return self._name(e, seen, scalar=True)
    if isinstance(e, ast.Call):
      d = dotted(e.func) or ""
      if d in (f"{self.self_}._FromTyping", f"{self.self_}._LookupTypingMember") \
          and len(e.args) == 1 and isinstance(e.args[0], ast.Constant):
        return {("typing", e.args[0].value)}
      if d in _STR_FUNCS and len(e.args) == 1:
        return self.roots(e.args[0], seen)
      helper = self._helper(e)
      if helper:
        sub, rets = helper
        out = set()
        for v in rets:
          if isinstance(v, ast.Constant) and v.value is None:
            continue
          out |= sub.roots(v, frozenset())
        if not self._in_elem:
          self.joined += sub.joined  # sequences the helper joined into its result
        return out
      if d.startswith("re.") and e.args:
        out = set()
        for a in e.args[1:]:
          out |= self.roots(a, seen)
        return out
      if isinstance(e.func, ast.Attribute):
        if e.func.attr == "join" and len(e.args) == 1:
          sep = self.roots(e.func.value, seen)
          if self._in_elem:
            # a join inside one base element: its parts are parts of that element
            for _, r in self.elems(e.args[0], seen):
              sep |= r
            return sep
          self._in_elem += 1
          try:
            for label, r in self.elems(e.args[0], seen):
              self.joined.append((label, r))
          finally:
            self._in_elem -= 1
          return sep
        if e.func.attr in ("group", "strip", "lstrip", "rstrip", "removeprefix",
                           "removesuffix", "replace", "format", "lower", "upper",
                           "rpartition", "partition", "split", "rsplit"):
          out = self.roots(e.func.value, seen)
          if e.func.attr in ("format", "replace"):
            for a in e.args:
              out |= self.roots(a, seen)
          return out
      return {("opaque", src(e)[:60])}
    return {("opaque", src(e)[:60])}

  def _name(self, e, seen, scalar):
    ds = self.rd.defs_of(e)
    if not ds:
      return {("opaque", e.id)} if scalar else [(e.id, {("opaque", e.id)})]
    acc_roots, acc_elems = set(), []
    for d in sorted(ds, key=lambda d: getattr(d.node, "lineno", 0)):
      key = (id(d.node), d.name, d.path, scalar)
      if key in seen:
        continue
      seen = seen | {key}
      if d.kind in ("assign", "walrus") and not d.path:
        if scalar:
          acc_roots |= self.roots(d.value, seen)
        else:
          acc_elems += self.elems(d.value, seen)
      elif d.kind == "aug" and isinstance(d.op, ast.Add):
        prior = d.node.target
        if scalar:
          acc_roots |= self.roots(d.value, seen) | self._name(prior, seen, True)
        else:
          acc_elems += self.elems(d.value, seen) + self._name(prior, seen, False)
      elif d.kind in ("for", "comp", "unpack") and scalar:
        # an element (or a component of an element) of the iterated sequence
        it = d.value
        if d.kind == "unpack":
          acc_roots |= self.roots(it, seen)
        else:
          for _, r in self.elems(it, seen):
            acc_roots |= r
      else:
        lab = ("opaque", f"{e.id}<-{d.describe()}")
        if scalar:
          acc_roots.add(lab)
        else:
          acc_elems.append((e.id, {lab}))
    if not scalar:
      acc_elems += self._mutations(e.id, seen)
    return acc_roots if scalar else acc_elems

  def _mutations(self, name, seen):
    """Elements added in place to the list held in local `name`."""
    out = []
    for c in ast.walk(self.fn):
      if isinstance(c, ast.Call) and isinstance(c.func, ast.Attribute) and \
          isinstance(c.func.value, ast.Name) and c.func.value.id == name:
        if c.func.attr == "append" and len(c.args) == 1:
          out.append((src(c.args[0])[:50], self.roots(c.args[0], seen)))
        elif c.func.attr == "insert" and len(c.args) == 2:
          out.append((src(c.args[1])[:50], self.roots(c.args[1], seen)))
        elif c.func.attr == "extend" and len(c.args) == 1:
          out += self.elems(c.args[0], seen)
        elif c.func.attr in ("remove", "pop", "index", "count", "copy", "clear",
                             "sort", "reverse"):
          continue
        else:
          out.append((src(c)[:50], {("opaque", src(c)[:50])}))
    return out

  def elems(self, e, seen):
    """[(label, roots)] for the possible elements of the sequence `e`."""
    if isinstance(e, ast.Constant) and e.value == ():
      return []
    if isinstance(e, (ast.Tuple, ast.List)):
      out = []
      for x in e.elts:
        if isinstance(x, ast.Starred):
          out += self.elems(x.value, seen)
        else:
          out.append((src(x)[:60], self.roots(x, seen)))
      return out
    if isinstance(e, ast.Attribute):
      d = dotted(e)
      if d and d.startswith(self.node + ".") and d.count(".") == 1:
        return [(f"{d}[*]", {("field", e.attr)})]
      return [(src(e), {("opaque", src(e))})]
    if isinstance(e, ast.Name):
      return self._name(e, seen, scalar=False)
    if isinstance(e, ast.BinOp) and isinstance(e.op, ast.Add):
      return self.elems(e.left, seen) + self.elems(e.right, seen)
    if isinstance(e, ast.IfExp):
      return self.elems(e.body, seen) + self.elems(e.orelse, seen)
    if isinstance(e, ast.Call):
      d = dotted(e.func) or ""
      if d in _SEQ_WRAPPERS and len(e.args) >= 1:
        return self.elems(e.args[0], seen)
      if d in _SEQ_WRAPPERS and not e.args:
        return []
      if isinstance(e.func, ast.Attribute) and e.func.attr == "items" and not e.args:
        return self.elems(e.func.value, seen)
      helper = self._helper(e)
      if helper:
        sub, rets = helper
        out = []
        for v in rets:
          out += sub.elems(v, frozenset())
        return out
    if isinstance(e, (ast.ListComp, ast.GeneratorExp)):
      return [(src(e.elt)[:60], self.roots(e.elt, seen))]
    if isinstance(e, ast.Subscript) and isinstance(e.slice, ast.Slice):
      return self.elems(e.value, seen)
    return [(src(e)[:60], {("opaque", src(e)[:60])})]


def _header(mod, fn):
  """The expression(s) that spell `class NAME(...)`: f-strings / concatenations
  whose first literal part starts with `class `."""
  out = []
  for n in ast.walk(fn):
    first = None
    if isinstance(n, ast.JoinedStr) and n.values and isinstance(n.values[0], ast.Constant):
      first = n.values[0].value
    elif isinstance(n, ast.BinOp) and isinstance(n.op, (ast.Add, ast.Mod)):
      l = n
      while isinstance(l, ast.BinOp):
        l = l.left
      if isinstance(l, ast.Constant) and not isinstance(mod.parent.get(n), ast.BinOp):
        first = l.value
    if isinstance(first, str) and first.startswith("class "):
      out.append(n)
  return out


def _spells_generic(roots):
  return any((k == "typing" and v == "Generic") or
             (k == "const" and isinstance(v, str) and _GENERIC.search(v))
             for k, v in roots)


@rule("R20.21", "C20", floor=3)
def r20_21(ctx):
  """Bases printed for a class are the class's own bases and keywords."""
  mod = get_module(ctx, PR)
  fn = mod.func("PrintVisitor.VisitClass")
  headers = _header(mod, fn)
  if len(headers) != 1:
    raise AnalysisError(
        f"VisitClass: expected one `class NAME(...)` header expression, found {len(headers)}")
  pv = _Prov(mod, fn)
  hroots = pv.roots(headers[0], frozenset())
  if not pv.joined:
    raise AnalysisError("VisitClass: the header joins no base sequence")
  # the template around the joined bases
  extra_fields = {v for k, v in hroots if k == "field"} - {"name"}
  opaque = [v for k, v in hroots if k == "opaque"]
  if _spells_generic(hroots):
    ctx.bad("VisitClass:header-template", PR, headers[0].lineno,
            "the class header itself spells a `Generic` base that is not one of "
            "node.bases: libcst copies a stub class's Generic[...] base onto a "
            "source class that has none, so the merged source gets a new base class",
            {"roots": sorted(map(str, hroots))})
  elif extra_fields or opaque:
    raise AnalysisError(
        f"VisitClass: the class header also depends on {sorted(extra_fields) + opaque}: "
        "not understood")
  else:
    ctx.ok("VisitClass:header-template", PR, headers[0].lineno,
           {"roots": sorted(map(str, hroots))})
  seen_labels = {}
  for label, roots in pv.joined:
    fields = {v for k, v in roots if k == "field"}
    own = fields & _OWN
    foreign = fields - _OWN
    unknown = [v for k, v in roots if k == "opaque"]
    typing_ = [v for k, v in roots if k == "typing"]
    k = seen_labels[label] = seen_labels.get(label, 0) + 1
    construct = f"VisitClass:base-element:{label}" + (f"#{k}" if k > 1 else "")
    facts = {"element": label, "roots": sorted(map(str, roots))}
    if own and not foreign and not unknown and not typing_:
      ctx.ok(construct, PR, fn.lineno, facts | {"derived_from": sorted(own)})
      continue
    if own:
      raise AnalysisError(
          f"VisitClass: base element `{label}` mixes node.{sorted(own)[0]} with "
          f"{sorted(foreign) + unknown + typing_}: not understood")
    # synthesised: nothing of node.bases / node.keywords in it
    if _spells_generic(roots):
      ctx.bad(construct, PR, fn.lineno,
              f"VisitClass adds the base `{label}` that is not derived from "
              "node.bases/node.keywords and spells `Generic[...]`: libcst's "
              "ApplyTypeAnnotationsVisitor.leave_ClassDef copies a stub class's "
              "Generic base onto a source class that has none, so merging the "
              "inferred stub changes the class's bases (more than annotations)",
              facts)
    elif not foreign and not unknown and not typing_:
      ctx.ok(construct, PR, fn.lineno, facts | {"synthesised": "constant, not Generic"})
    else:
      raise AnalysisError(
          f"VisitClass: base element `{label}` is built from "
          f"{sorted(foreign) + unknown + typing_}, not from node.bases/node.keywords; "
          "whether it can spell Generic[...] is not known")


_OBJ = ("    if bases == (\"object\",):\n"
        "      bases = ()\n")

_KW_LOOP = """    keywords = []
    for k, v in node.keywords:
      vmatch = re.fullmatch(r"Literal\\[(.+)\\]", v)
      if vmatch:
        self._imports.decrement_typing_count("Literal")
        vprint = vmatch.group(1)
      else:
        vprint = v
      keywords.append(f"{k}={vprint}")
"""
_VC_DEF = "  def VisitClass(self, node):\n"
_KW_HELPER = ("  def _FormatClassKeywords(self, node):\n" + _KW_LOOP
              + "    return keywords\n\n")

VARIANTS = [
    {"name": "twin-keywords-formatted-by-a-helper-method", "rule": "R20.21",
     "expect": "silent",
     "edits": [(PR, _KW_LOOP, "    keywords = self._FormatClassKeywords(node)\n"),
               (PR, _VC_DEF, _KW_HELPER + _VC_DEF)]},
    {"name": "helper-method-adds-a-generic-base", "rule": "R20.21", "expect": "fire",
     "edits": [(PR, _KW_LOOP, "    keywords = self._FormatClassKeywords(node)\n"),
               (PR, _VC_DEF, _KW_HELPER.replace(
                   "    return keywords\n",
                   "    if node.template:\n"
                   "      keywords.insert(0, \"Generic[\" + \", \".join(node.template) + \"]\")\n"
                   "    return keywords\n") + _VC_DEF)]},
    # a helper that is not handed the node itself is outside the model: refusal
    {"name": "header-built-by-a-helper-given-the-bases", "rule": "R20.21", "expect": "error",
     "edits": [(PR, "    bases_str = f\"({', '.join(bases)})\" if bases else \"\"\n",
                "    bases_str = self._FormatBases(bases)\n"),
               (PR, _VC_DEF, "  def _FormatBases(self, bases):\n"
                "    return f\"({', '.join(bases)})\" if bases else \"\"\n\n" + _VC_DEF)]},
    {"name": "seeded-C20-r2m2", "rule": "R20.21", "patch": "seeded/C20-r2m2/patch.diff",
     "expect": "fire"},
    {"name": "header-spells-generic-for-templated-classes", "rule": "R20.21", "file": PR,
     "expect": "fire",
     "old": "    header = [f\"class {node.name}{bases_str}:\"]",
     "new": "    if node.template and not bases:\n"
            "      bases_str = \"(Generic[\" + \", \".join(t for t in node.template) + \"])\"\n"
            "    header = [f\"class {node.name}{bases_str}:\"]"},
    {"name": "generic-base-inserted-into-keyword-list", "rule": "R20.21", "file": PR,
     "expect": "fire",
     "old": "    bases += tuple(keywords)\n",
     "new": "    if node.template:\n"
            "      keywords.insert(0, self._FromTyping(\"Generic\") + \"[\" + \", \".join(node.template) + \"]\")\n"
            "    bases += tuple(keywords)\n"},
    {"name": "twin-object-base-filtered-elementwise", "rule": "R20.21", "file": PR,
     "expect": "silent", "old": _OBJ,
     "new": "    if len(bases) == 1:\n"
            "      bases = tuple(b for b in bases if b != \"object\")\n"},
    {"name": "twin-bases-and-keywords-concatenated-once", "rule": "R20.21", "file": PR,
     "expect": "silent",
     "old": "    bases += tuple(keywords)\n    bases_str = f\"({', '.join(bases)})\" if bases else \"\"\n",
     "new": "    all_bases = list(bases) + keywords\n"
            "    bases_str = \"(\" + \", \".join(all_bases) + \")\" if all_bases else \"\"\n"},
    {"name": "twin-keyword-formatted-with-percent", "rule": "R20.21", "file": PR,
     "expect": "silent",
     "old": "      keywords.append(f\"{k}={vprint}\")",
     "new": "      keywords.append(\"%s=%s\" % (k, vprint))"},
]
