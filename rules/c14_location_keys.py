"""C14 extension: a per-location memo is keyed by the location itself.

R14.25  pytype hands out ONE abstract object per code location (the instance
        `A()` creates, the Unknown a call produces, the instance a class
        annotation is instantiated to) by memoising on the opcode that is
        being executed (`<..>.current_opcode`).  The memo is what makes two
        *different* program points yield two different objects: attributes
        stored on one of them (`a.foo = 1`) must not become visible on the
        other (`b.foo` -> AttributeError in CPython, must be flagged).  A
        memo key therefore has to be at least as fine as the identity of the
        thing it stands for: the component that denotes the location must be
        the opcode object itself (Opcode has identity equality), or a set of
        its fields that identifies it - its code object together with its
        index in it.  Any other projection (line, code.name, code.filename,
        type(op), str(op), index alone ...) is shared by distinct opcodes -
        `a, b = A(), A()` are two CALLs on one line - and merges what the memo
        exists to keep apart.

        The rule finds the memos by role, not by name: in every non-test
        module of pytype/ that mentions `current_opcode`, a function that
        both stores into a container under a key (`D[K] = ..`,
        `D.setdefault(K, ..)`) and looks the same container up under the same
        key (`D[K]`, `K in D`, `D.get(K)`).  The key is followed through
        reaching definitions of local names, `or`/`and`/conditional
        expressions (alternatives), tuples (components) and module-local /
        same-class helper functions (their return values).
"""
import ast
import itertools

from sa.core import rule, AnalysisError
from sa.pyindex import get_module, dotted, src, all_py_files, walk_no_nested
from rules._pytd_schema import reaching, defs_at

OPCODES = "pytype/pyc/opcodes.py"
_SOURCE_ATTR = "current_opcode"
# fields of an Opcode that together identify it (its position in its code object)
_IDENTIFYING = frozenset({("code",), ("index",)})
_PROJECTING_CALLS = ("type", "str", "repr")


class _Fn:
  """One function with its reaching definitions (computed lazily)."""

  def __init__(self, mod, fn):
    self.mod, self.fn = mod, fn
    self._rd = None

  @property
  def rd(self):
    if self._rd is None:
      self._rd = reaching(self.fn)
    return self._rd

  def stmt(self, node):
    """The flow unit `node` is evaluated in (simple statement, or the compound
    statement whose header holds it)."""
    cur = node
    while cur in self.mod.parent and not isinstance(cur, ast.stmt):
      cur = self.mod.parent[cur]
    return cur

  def qual(self):
    parts, cur = [self.fn.name], self.fn
    while cur in self.mod.parent:
      cur = self.mod.parent[cur]
      if isinstance(cur, (ast.FunctionDef, ast.ClassDef)):
        parts.append(cur.name)
    return ".".join(reversed(parts))


def _is_source(e):
  return isinstance(e, ast.Attribute) and e.attr == _SOURCE_ATTR


def _opcode_valued(F, e, stmt, depth=0):
  """True: `e` evaluates to the current opcode (or a falsy placeholder);
  False: it has nothing to do with it; raises when it cannot tell."""
  if depth > 6:
    raise AnalysisError(f"{F.qual()}: chain of aliases of the current opcode too long")
  if _is_source(e):
    return True
  if isinstance(e, ast.NamedExpr):
    return _opcode_valued(F, e.value, stmt, depth + 1)
  if isinstance(e, ast.Name):
    defs = _defs(F, stmt, e.id)
    if not defs:
      return False  # parameter / global
    verdicts = set()
    for d in defs:
      v = _bound_value(d, e.id)
      verdicts.add(v is not None and _opcode_valued(F, v, d, depth + 1))
    if verdicts == {True, False}:
      raise AnalysisError(f"{F.qual()}: `{e.id}` is the current opcode on some paths only")
    return verdicts == {True}
  return False


def _defs(F, stmt, name):
  """Definitions of `name` reaching its use in `stmt` (a walrus inside `stmt`
  itself binds the name before the use in every shape met here)."""
  if any(isinstance(n, ast.NamedExpr) and n.target.id == name for n in ast.walk(stmt)
         ) and not isinstance(stmt, (ast.For, ast.While, ast.FunctionDef)):
    return [stmt]
  return defs_at(F.rd, stmt, name)


def _bound_value(d, name):
  """The expression bound to `name` by the defining unit `d` (None = not a
  plain binding: loop target, tuple unpacking, with-as ...)."""
  if isinstance(d, ast.Assign) and len(d.targets) == 1 and \
      isinstance(d.targets[0], ast.Name) and d.targets[0].id == name:
    return d.value
  if isinstance(d, ast.AnnAssign) and isinstance(d.target, ast.Name) and \
      d.target.id == name and d.value is not None:
    return d.value
  for n in ast.walk(d):
    if isinstance(n, ast.NamedExpr) and n.target.id == name:
      return n.value
  return None


def _mentions_opcode(F, e, stmt):
  for n in ast.walk(e):
    if _is_source(n):
      return True
    if isinstance(n, ast.Name) and isinstance(n.ctx, ast.Load) and \
        _opcode_valued(F, n, stmt):
      return True
  return False


def _classify_leaf(F, e, stmt):
  """-> None (no location in it) | ("whole",) | ("field", path) | ("call", name)."""
  if _opcode_valued(F, e, stmt):
    return ("whole",)
  if not _mentions_opcode(F, e, stmt):
    return None
  path, cur = [], e
  while isinstance(cur, ast.Attribute) and not _is_source(cur):
    path.append(cur.attr)
    cur = cur.value
  if path and _opcode_valued(F, cur, stmt):
    return ("field", tuple(reversed(path)))
  if isinstance(e, ast.Call) and dotted(e.func) in _PROJECTING_CALLS and \
      len(e.args) == 1 and not e.keywords and _opcode_valued(F, e.args[0], stmt):
    return ("call", dotted(e.func))
  raise AnalysisError(f"{F.qual()}: the key component `{src(e)[:80]}` is derived from the "
                      "current opcode in a way that is not understood")


def _resolve_helper(F, call):
  d = dotted(call.func)
  if d is None:
    return None
  if d in F.mod.functions:
    return F.mod.functions[d]
  if d.startswith(("self.", "cls.")) and d.count(".") == 1:
    cur = F.fn
    while cur in F.mod.parent:
      cur = F.mod.parent[cur]
      if isinstance(cur, ast.ClassDef):
        for st in cur.body:
          if isinstance(st, ast.FunctionDef) and st.name == d.split(".")[1]:
            return st
        return None
  return None


def _alternatives(F, e, stmt, depth=0):
  """The key values `e` may evaluate to, each a list of classified leaves
  (tuples are flattened: only *which* components a key has matters here)."""
  if depth > 8:
    raise AnalysisError(f"{F.qual()}: memo key computed through too many steps")
  if isinstance(e, ast.Tuple):
    parts = [_alternatives(F, x, stmt, depth + 1) for x in e.elts]
    n = 1
    for p in parts:
      n *= len(p)
    if n > 64:
      raise AnalysisError(f"{F.qual()}: too many alternatives for the key `{src(e)[:60]}`")
    return [list(itertools.chain.from_iterable(c)) for c in itertools.product(*parts)]
  if isinstance(e, ast.BoolOp):
    return [a for v in e.values for a in _alternatives(F, v, stmt, depth + 1)]
  if isinstance(e, ast.IfExp):
    return _alternatives(F, e.body, stmt, depth + 1) + \
        _alternatives(F, e.orelse, stmt, depth + 1)
  if isinstance(e, ast.NamedExpr):
    return _alternatives(F, e.value, stmt, depth + 1)
  if isinstance(e, ast.Name):
    defs = _defs(F, stmt, e.id)
    vals = [(_bound_value(d, e.id), d) for d in defs]
    if defs and all(v is not None for v, _ in vals):
      return [a for v, d in vals for a in _alternatives(F, v, d, depth + 1)]
    if any(v is not None and _mentions_opcode(F, v, d) for v, d in vals):
      raise AnalysisError(f"{F.qual()}: `{e.id}` holds the current opcode on some paths only")
    return [[None]]
  if isinstance(e, ast.Call):
    h = _resolve_helper(F, e)
    if h is not None and h is not F.fn:
      H = _Fn(F.mod, h)
      rets = [r for r in walk_no_nested(h) if isinstance(r, ast.Return) and r.value is not None]
      out = [a for r in rets for a in _alternatives(H, r.value, r, depth + 1)]
      if any(leaf is not None for a in out for leaf in a):
        return out
      if any(_mentions_opcode(F, a, stmt) for a in list(e.args) + [k.value for k in e.keywords]):
        raise AnalysisError(f"{F.qual()}: the current opcode is handed to {h.name}(), whose "
                            "result is part of a memo key; not followed")
      return [[None]]
  return [[_classify_leaf(F, e, stmt)]]


def _memo_sites(F):
  """{(container text, key text): (key expr, use stmt, line)} for keys under
  which F both stores into and looks up the same container."""
  stores, reads = {}, {}
  for n in walk_no_nested(F.fn):
    if isinstance(n, ast.Subscript):
      d = dotted(n.value)
      if d:
        (stores if isinstance(n.ctx, ast.Store) else reads).setdefault(
            (d, src(n.slice)), n.slice)
    elif isinstance(n, ast.Compare) and len(n.ops) == 1 and \
        isinstance(n.ops[0], (ast.In, ast.NotIn)):
      d = dotted(n.comparators[0])
      if d:
        reads.setdefault((d, src(n.left)), n.left)
    elif isinstance(n, ast.Call) and isinstance(n.func, ast.Attribute) and n.args and \
        n.func.attr in ("get", "setdefault"):
      d = dotted(n.func.value)
      if d:
        reads.setdefault((d, src(n.args[0])), n.args[0])
        if n.func.attr == "setdefault":
          stores.setdefault((d, src(n.args[0])), n.args[0])
  return {k: stores[k] for k in stores if k in reads}


def _describe(leaf):
  if leaf[0] == "field":
    return "." + ".".join(leaf[1])
  if leaf[0] == "call":
    return f"{leaf[1]}(..)"
  return "the opcode"


@rule("R14.25", "C14", floor=4)
def r14_25(ctx):
  """A memo keyed by the current opcode keys on the opcode, not on a projection."""
  om = get_module(ctx, OPCODES)
  base = om.cls("Opcode")
  value_eq = []
  for c in om.classes.values() if isinstance(om.classes, dict) else om.classes:
    for st in c.body:
      if isinstance(st, ast.FunctionDef) and st.name in ("__eq__", "__hash__"):
        value_eq.append(f"{c.name}.{st.name}")
      if isinstance(st, ast.Assign) and any(dotted(t) in ("__eq__", "__hash__") for t in st.targets):
        value_eq.append(f"{c.name}.{dotted(st.targets[0])}")
  if value_eq:
    raise AnalysisError(f"{OPCODES}: {value_eq} make opcodes compare by value; what a "
                        "memo keyed by an opcode distinguishes is not decided")
  ctx.ok("Opcode:identity-equality", OPCODES, base.lineno,
         {"note": "no class of pyc/opcodes.py defines __eq__/__hash__"})
  n_files = 0
  for rel in all_py_files(ctx):
    if rel.endswith("_test.py") or "/rewrite/" in rel or _SOURCE_ATTR not in ctx.read(rel):
      continue
    n_files += 1
    mod = get_module(ctx, rel)
    for fn in ast.walk(mod.tree):
      if not isinstance(fn, (ast.FunctionDef, ast.AsyncFunctionDef)):
        continue
      F = _Fn(mod, fn)
      sites = _memo_sites(F)
      for (cont, ktxt), kexpr in sorted(sites.items()):
        stmt = F.stmt(kexpr)
        alts = _alternatives(F, kexpr, stmt)
        located = [[l for l in a if l is not None] for a in alts]
        located = [a for a in located if a]
        if not located:
          continue
        construct = f"{rel.removeprefix('pytype/')}:{F.qual()}:{cont}"
        shown = [sorted({_describe(l) for l in a}) for a in located]
        coarse = []
        for a in located:
          if ("whole",) in a:
            continue
          fields = {l[1] for l in a if l[0] == "field"}
          if _IDENTIFYING <= fields:
            continue
          coarse.append(sorted({_describe(l) for l in a}))
        ctx.check(not coarse, construct, rel, kexpr.lineno,
                  f"{F.qual()} memoises in `{cont}` under a key whose location "
                  f"component is only {coarse[0] if coarse else ''} of the current "
                  "opcode: distinct opcodes share it (two calls on one source line, "
                  "the same index in two code objects), so two program points receive "
                  "ONE abstract object - after `a, b = A(), A(); a.foo = 1` the read "
                  "`b.foo` finds a's attribute and the AttributeError is not reported. "
                  "Key on the opcode object itself (or on its code object and index)",
                  {"container": cont, "key": ktxt, "location_components": shown})
  if n_files < 3:
    raise AnalysisError(f"only {n_files} modules mention `{_SOURCE_ATTR}`")


CM = "pytype/abstract/class_mixin.py"
TV = "pytype/tracer_vm.py"
CV = "pytype/convert.py"
_CM_KEY = "    key = self.ctx.vm.current_opcode or node\n"
_TV_KEY = "    key = (self.current_opcode, extra_key)\n"
_CV_KEY = '    key = ("unknown", self.ctx.vm.frame.current_opcode, action)\n'

VARIANTS = [
    {"name": "seeded-C14-r4m1", "rule": "R14.25", "patch": "seeded/C14-r4m1/patch.diff",
     "expect": "fire"},
    {"name": "instance-memo-keyed-by-line", "rule": "R14.25", "file": CM, "expect": "fire",
     "old": _CM_KEY,
     "new": "    op = self.ctx.vm.current_opcode\n"
            "    key = op.line if op else node\n"},
    {"name": "instance-memo-keyed-by-index-alone", "rule": "R14.25", "file": CM,
     "expect": "fire", "old": _CM_KEY,
     "new": "    op = self.ctx.vm.current_opcode\n"
            "    if op:\n"
            "      key = (type(self), op.index)\n"
            "    else:\n"
            "      key = node\n"},
    {"name": "init-class-memo-keyed-by-opcode-class", "rule": "R14.25", "file": TV,
     "expect": "fire", "old": _TV_KEY,
     "new": "    key = (type(self.current_opcode), extra_key)\n"},
    {"name": "unknown-memo-keyed-by-line-via-helper", "rule": "R14.25", "expect": "fire",
     "edits": [
         (CV, _CV_KEY, '    key = ("unknown", self._location(), action)\n'),
         (CV, "  def _create_new_unknown_value(self, action) -> abstract.Unknown:\n",
          "  def _location(self):\n"
          "    op = self.ctx.vm.frame.current_opcode\n"
          "    return (op.code.name, op.line)\n\n"
          "  def _create_new_unknown_value(self, action) -> abstract.Unknown:\n")]},
    {"name": "twin-instance-memo-guard-clause", "rule": "R14.25", "file": CM,
     "expect": "silent", "old": _CM_KEY,
     "new": "    location = self.ctx.vm.current_opcode\n"
            "    if location is None:\n"
            "      key = node\n"
            "    else:\n"
            "      key = location\n"},
    {"name": "twin-instance-memo-conditional-expression", "rule": "R14.25", "file": CM,
     "expect": "silent", "old": _CM_KEY,
     "new": "    key = op if (op := self.ctx.vm.current_opcode) else node\n"},
    {"name": "twin-instance-memo-code-and-index", "rule": "R14.25", "file": CM,
     "expect": "silent", "old": _CM_KEY,
     "new": "    op = self.ctx.vm.current_opcode\n"
            "    key = (op.code, op.index) if op else node\n"},
    {"name": "twin-unknown-memo-location-helper", "rule": "R14.25", "expect": "silent",
     "edits": [
         (CV, _CV_KEY, '    key = ("unknown", self._location(), action)\n'),
         (CV, "  def _create_new_unknown_value(self, action) -> abstract.Unknown:\n",
          "  def _location(self):\n"
          "    return self.ctx.vm.frame.current_opcode\n\n"
          "  def _create_new_unknown_value(self, action) -> abstract.Unknown:\n")]},
    {"name": "twin-init-class-memo-local-alias", "rule": "R14.25", "file": TV,
     "expect": "silent", "old": _TV_KEY,
     "new": "    where = self.current_opcode\n"
            "    key = (where, extra_key)\n"},
    {"name": "opcode-derived-key-not-understood", "rule": "R14.25", "file": CM,
     "expect": "error", "old": _CM_KEY,
     "new": "    key = id(self.ctx.vm.current_opcode) or node\n"},
]
