"""C02 extension: bare local annotations must survive source preprocessing.

`x: int` inside a function produces no bytecode, so vm.run_program first
rewrites the source with preprocess.augment_annotations (`x: int = ...`).
The annotated-assignment enforcement site of C02 only sees annotations this
pass makes visible, and the rewritten text must still compile (C15).  Three
structural necessary conditions, each of which was violated on the original
tree (D45, repaired):

R2.20  a visitor that tracks function scope handles `async def` like `def`;
R2.21  the scope marker is restored, not reset, after visiting a function
       (otherwise a nested def/class-with-method ends the outer scope);
R2.22  the ` = ...` is inserted at the annotation's own end column, not by a
       line-level edit (`#` in a string literal, `;`-separated statements).
"""
import ast

from sa.core import rule, AnalysisError
from sa.pyindex import get_module, dotted, src

PRE = "pytype/preprocess.py"
SCOPE_VISITOR_FILES = [PRE, "pytype/directors/parser.py", "pytype/pyi/parser.py"]


def _class_members(cls):
  defs, aliases = {}, {}
  for st in cls.body:
    if isinstance(st, (ast.FunctionDef, ast.AsyncFunctionDef)):
      defs[st.name] = st
    elif isinstance(st, ast.Assign):
      for t in st.targets:
        if isinstance(t, ast.Name) and isinstance(st.value, ast.Name):
          aliases[t.id] = st.value.id
  return defs, aliases


def _delegates(fn):
  """Names of self.<helper> calls in a one-statement method body."""
  return sorted({dotted(c.func) for c in ast.walk(fn) if isinstance(c, ast.Call)
                 and (dotted(c.func) or "").startswith("self.")})


@rule("R2.20", "C02", floor=3)
def r2_20(ctx):
  """Function-scope visitors treat `async def` like `def`."""
  for rel in SCOPE_VISITOR_FILES:
    mod = get_module(ctx, rel)
    for cls in ast.walk(mod.tree):
      if not isinstance(cls, ast.ClassDef):
        continue
      defs, aliases = _class_members(cls)
      if "visit_FunctionDef" not in defs and "visit_FunctionDef" not in aliases:
        continue
      key = f"{rel}:{cls.name}"
      if aliases.get("visit_AsyncFunctionDef") == "visit_FunctionDef" or \
          aliases.get("visit_FunctionDef") == "visit_AsyncFunctionDef":
        ctx.ok(key, rel, cls.lineno, {"how": "alias"})
        continue
      if "visit_AsyncFunctionDef" not in defs:
        ctx.bad(key, rel, cls.lineno,
                f"{cls.name} handles visit_FunctionDef but not "
                "visit_AsyncFunctionDef: whatever it collects inside functions "
                "is lost inside `async def`", {"methods": sorted(defs)})
        continue
      a, s = defs["visit_AsyncFunctionDef"], defs["visit_FunctionDef"]
      same = [src(x) for x in a.body] == [src(x) for x in s.body] or \
          (_delegates(a) and _delegates(a) == _delegates(s)) or \
          "self.visit_FunctionDef" in _delegates(a)
      if not same:
        raise AnalysisError(f"{key}: sync/async handlers differ in a way the rule does not understand")
      ctx.ok(key, rel, cls.lineno, {"how": "same body / same helper"})


@rule("R2.21", "C02", floor=1)
def r2_21(ctx):
  """The function-scope marker is restored after a function, not reset."""
  mod = get_module(ctx, PRE)
  cls = mod.cls("CollectAnnotationLines")
  defs, aliases = _class_members(cls)
  ann = defs.get("visit_AnnAssign")
  fn = defs.get("visit_FunctionDef") or defs.get(aliases.get("visit_FunctionDef", ""))
  if ann is None or fn is None:
    raise AnalysisError("CollectAnnotationLines: visit_AnnAssign / visit_FunctionDef not found")
  read = {dotted(n) for n in ast.walk(ann) if isinstance(n, ast.Attribute)
          and isinstance(n.ctx, ast.Load) and (dotted(n) or "").startswith("self.")}
  written = {}
  for n in ast.walk(fn):
    if isinstance(n, ast.Assign):
      for t in n.targets:
        if (dotted(t) or "").startswith("self."):
          written.setdefault(dotted(t), []).append(n)
    elif isinstance(n, ast.AugAssign) and (dotted(n.target) or "").startswith("self."):
      written.setdefault(dotted(n.target), []).append(n)
  markers = sorted(read & set(written))
  if len(markers) != 1:
    raise AnalysisError(f"CollectAnnotationLines: scope marker not identified ({markers})")
  m = markers[0]
  ws = sorted(written[m], key=lambda n: n.lineno)
  # statements that visit children
  visits = [n.lineno for n in ast.walk(fn) if isinstance(n, ast.Call) and
            (dotted(n.func) or "") in ("self.visit", "self.generic_visit")]
  if not visits:
    raise AnalysisError("visit_FunctionDef does not visit its children")
  before = [w for w in ws if w.lineno < min(visits)]
  after = [w for w in ws if w.lineno > max(visits)]
  if not before or not after:
    raise AnalysisError("scope marker is not set before and restored after the child visits")
  ok = True
  why = ""
  for w in after:
    if isinstance(w, ast.AugAssign):
      inc = [b for b in before if isinstance(b, ast.AugAssign)
             and type(b.op) in (ast.Add, ast.Sub) and type(b.op) is not type(w.op)
             and src(b.value) == src(w.value)]
      if not inc:
        ok, why = False, f"`{src(w)}` does not undo an earlier increment"
    elif isinstance(w.value, ast.Constant):
      ok, why = False, (f"`{src(w)}` resets the marker to a constant: after a nested "
                        "def (or a class with a method) the rest of the enclosing "
                        "function is treated as module level")
    elif isinstance(w.value, ast.Name):
      saved = [n for n in ast.walk(fn) if isinstance(n, ast.Assign)
               and any(isinstance(t, ast.Name) and t.id == w.value.id for t in n.targets)
               and src(n.value) == m and n.lineno < min(visits)]
      if not saved:
        ok, why = False, f"`{src(w)}` restores from a name that does not hold the previous marker"
    else:
      raise AnalysisError(f"scope marker restore `{src(w)}` not understood")
  ctx.check(ok, "CollectAnnotationLines:scope-marker-restored", PRE, fn.lineno,
            why or "marker restored", {"marker": m, "after": [src(w) for w in after]})


@rule("R2.22", "C02", floor=2)
def r2_22(ctx):
  """The ` = ...` is inserted at the annotation's end column."""
  mod = get_module(ctx, PRE)
  cls = mod.cls("CollectAnnotationLines")
  defs, _ = _class_members(cls)
  ann = defs.get("visit_AnnAssign")
  if ann is None:
    raise AnalysisError("visit_AnnAssign not found")
  recorded = {n.attr for n in ast.walk(ann) if isinstance(n, ast.Attribute)
              and dotted(n.value) == "node"}
  ctx.check("end_col_offset" in recorded and "end_lineno" in recorded,
            "visit_AnnAssign:records-end-position", PRE, ann.lineno,
            f"visit_AnnAssign records {sorted(recorded)} of the annotation; "
            "without its end column the edit can only be line-level, which "
            "breaks `x: int; y = 1` (invalid syntax) and `x: Literal['#']`",
            {"recorded": sorted(recorded)})
  fn = mod.func("augment_annotations")
  text_searches = [src(c) for c in ast.walk(fn) if isinstance(c, ast.Call)
                   and isinstance(c.func, ast.Attribute)
                   and c.func.attr in ("partition", "rpartition", "split", "find", "index", "rfind")
                   and c.args and isinstance(c.args[0], ast.Constant) and c.args[0].value == "#"]
  ctx.check(not text_searches, "augment_annotations:no-comment-text-search", PRE, fn.lineno,
            f"{text_searches} locates the comment by searching the line text "
            "for '#', which also matches a '#' inside a string literal of the "
            "annotation", {"searches": text_searches})


_OLD_VISITOR = '''    self.annotation_ends = []
    self.function_depth = 0

  def visit_AnnAssign(self, node):
    if self.function_depth and node.value is None:
      self.annotation_ends.append((node.end_lineno - 1, node.end_col_offset))

  def visit_FunctionDef(self, node):
    self.function_depth += 1
    for n in node.body:
      self.visit(n)
    self.function_depth -= 1

  visit_AsyncFunctionDef = visit_FunctionDef
'''

VARIANTS = [
    {"name": "revert-D45-no-async", "rule": "R2.20", "file": PRE, "expect": "fire",
     "old": "  visit_AsyncFunctionDef = visit_FunctionDef\n", "new": ""},
    {"name": "revert-D45-flag-reset", "rule": "R2.21", "file": PRE, "expect": "fire",
     "old": "    self.function_depth += 1\n    for n in node.body:\n      self.visit(n)\n    self.function_depth -= 1\n",
     "new": "    self.function_depth = True\n    for n in node.body:\n      self.visit(n)\n    self.function_depth = False\n"},
    {"name": "twin-save-restore", "rule": "R2.21", "file": PRE, "expect": "silent",
     "old": "    self.function_depth += 1\n    for n in node.body:\n      self.visit(n)\n    self.function_depth -= 1\n",
     "new": "    outer = self.function_depth\n    self.function_depth = 1\n    for n in node.body:\n      self.visit(n)\n    self.function_depth = outer\n"},
    {"name": "revert-D45-line-level-edit", "rule": "R2.22", "file": PRE, "expect": "fire",
     "old": "      line = lines[2 * i].encode(\"utf-8\")\n      lines[2 * i] = (line[:col] + b\" = ...\" + line[col:]).decode(\"utf-8\")\n",
     "new": "      line, mark, comment = lines[2 * i].partition(\"#\")\n      lines[2 * i] = line + \" = ...\" + mark + comment\n"},
    {"name": "end-column-not-recorded", "rule": "R2.22", "file": PRE, "expect": "fire",
     "old": "      self.annotation_ends.append((node.end_lineno - 1, node.end_col_offset))",
     "new": "      self.annotation_ends.append((node.end_lineno - 1, len(node.target.id)))"},
    {"name": "twin-async-def-delegates", "rule": "R2.20", "file": PRE, "expect": "silent",
     "old": "  visit_AsyncFunctionDef = visit_FunctionDef\n",
     "new": "  def visit_AsyncFunctionDef(self, node):\n    self.visit_FunctionDef(node)\n"},
]
