"""C02 - annotations enforced exactly: tables and wiring of the enforcement sites.

Decides: the promotion (compat) table, the builtin nominal hierarchy and the
ABC/protocol membership of ground builtin types as the stubs define them
(against CPython reference tables), monotonicity of protocol attributes, and
that the three enforcement sites call the matcher and report under the right
error name.  Does NOT decide the 2000-line matcher itself.
"""
import ast

from sa.core import rule, AnalysisError
from sa.pyindex import get_module, dotted, src, calls_in, kwarg, try_fold
from sa import flow, stubs
from refs import cpython312 as REF
from rules import _util_c13c02c10 as U
from rules._util_c13c02c10 import (
    bool_formula as _bool_formula, implies_literal as _implies_literal,
    formula_text as _formula_text, formula_atoms as _formula_atoms,
    formula_eval as _formula_eval)

TECHNIQUE = ("static analysis: table extraction from pep484.py / the bundled "
             "stubs compared with frozen CPython reference tables; call-graph "
             "and must-pass-through rules on the three enforcement sites")
EXPLANATION = (
    "R2.1 the matcher's promotion table (pep484._COMPAT_ITEMS, as the matcher "
    "is built by default) restricted to the numeric types is exactly PEP 484's "
    "tower int->float->complex (transitively closed, antisymmetric), the rest "
    "is within {bytearray,memoryview}->bytes, and _match_base_class_flat "
    "consults it only under allow_compat_builtins (the method is the first "
    "definition along AbstractMatcher's module-local MRO, so it may sit in a "
    "module-local mixin/base; an own override shadows the mixin's; a "
    "non-local base earlier in the MRO is an analysis error); R2.2 for every pair of "
    "classes of builtins.pytd that are CPython builtin types, stub "
    "reachability through bases equals issubclass in CPython 3.12; R2.3 "
    "return, annotated-store and argument sites reach the matcher and log the "
    "error on a bad match (InterpreterFunction.match_args is decided path by "
    "path: the paths of its loop-free body are enumerated - if/else, guard "
    "clauses, conditional expressions, once-bound locals substituted - and "
    "every path must either return super().match_args(<its own parameters in "
    "order>) or return None under a path condition that propositionally "
    "implies `not self.signature.has_param_annotations`; any other returned "
    "value or statement kind is an analysis error; "
    "_match_args_sequentially must hand compute_matches one types.Arg(name, "
    "argument, annotation') for every item of self.signature.iter_args(args) "
    "- accumulator loop or comprehension alike - and may leave an item out "
    "only under a condition that implies `<annotation> is None`; the guards "
    "of the return / annotated-store checks are compared as propositional "
    "formulas over roles, not spellings: _check_return runs exactly when the "
    "frame checks returns and the local handed to it as declared type is "
    "truthy; bad_return_type is logged exactly when <match result>.success "
    "is false (and errors are reported); check_annotation_type_mismatch runs "
    "under check_types unless the store is reported as a Final violation; its "
    "early exits together imply `no annotation or no value or value is ... "
    "or (allow_none and value is None)`); R2.4 those log methods are registered under "
    "bad-return-type / annotation-type-mismatch / wrong-arg-types; R2.5 for "
    "16 ground builtin types x 20 ABCs/Supports* protocols, the stubs make T "
    "an inhabitant of X (nominal ancestor, or structural protocol whose "
    "attributes - computed as Class._init_protocol_attributes does, extra "
    "sets read from its source - T's stub MRO defines) iff CPython says so; "
    "R2.6 a sub-protocol's attribute set includes its super-protocol's; "
    "R2.7 Signature.iter_args (the (name, argument, expected type) stream the "
    "argument matcher consumes) gives a keyword argument the annotation of "
    "the parameter it binds to: the keyword loop is executed symbolically "
    "once per kind of keyword name (positional-only, positional-or-keyword, "
    "keyword-only, extra), membership tests against param_names / its "
    "posonly_count slices / posonly_params / kwonly_params / annotations are "
    "evaluated for that kind, and for positional-or-keyword and keyword-only "
    "names every path must perform self.annotations.get(name) and may replace "
    "its result (by the **kwargs element type) only when it was None; for a "
    "positional-only name the lookup must not happen (such a keyword belongs "
    "to **kwargs); conditions or statements outside that vocabulary are "
    "analysis errors. "
    "These are necessary conditions of exact enforcement for ground values; "
    "what the matcher computes for generics, unions, callables and user "
    "classes is not decided.")
ASSUMPTIONS = [
    "refs/cpython312.py (host CPython introspection) is the oracle for "
    "issubclass / ABC membership of builtin types",
    "the static stub model (sa/stubs.py) mirrors Class._init_abstract_methods "
    "/ _init_protocol_attributes / matcher._get_attribute_names; it was "
    "calibrated against the real matcher at design time",
    "options default: none_is_not_bool off (recorded as known finding D19)",
    "R2.7: Signature.param_names lists the positional parameters with the "
    "first posonly_count of them positional-only, kwonly_params the "
    "keyword-only ones; a name missing from Signature.annotations looks up "
    "as None, so a guard `name in self.annotations` loses nothing; stub "
    "(PyTD) signatures take their expected types from "
    "PyTDSignature._map_args, which R2.7 does not cover",
]
# rules/c02_saverestore.py (R2.23), rules/c02_stores.py (R2.24)
EXPLANATION += (
    "  R2.23 (rules/c02_saverestore.py) save/restore discipline in matcher.py, "
    "vm.py, vm_utils.py, annotation_utils.py and abstract/{_function_base,"
    "_interpreter_function,function}.py: for every pair `saved = A` / "
    "`saved = copy-of(A)` ... `A = saved` in one function (A an attribute "
    "path, `saved` bound once) the snapshot is a copy (set/dict/list/"
    "frozenset/tuple(A), A.copy(), copy.copy(A), A[:], {*A}), or A is "
    "re-bound to another object on every path before the restore (must-flow), "
    "or the class never mutates A in place; a bare alias of a container that "
    "is mutated in place (`A.add/append/update/..`, `A[k] = v`, `del A[k]`, "
    "`A |= ..`) and not re-bound makes the restore a no-op - a violation.  "
    "In AbstractMatcher._track_partially_matched_protocols the surviving "
    "entries are recursion-guard keys that make _match_against_protocol "
    "answer 'matches'.  R2.24 (rules/c02_stores.py) every handler of an "
    "opcode that stores into the frame's own scope (STORE_NAME and the "
    "STORE_* members of CPython's haslocal/hasfree opcode classes: "
    "STORE_FAST, STORE_DEREF) is followed through the VM's helper methods "
    "with constant-argument propagation (`local=True`, conditional "
    "expressions and if-statements on propagated constants folded) to the "
    "_apply_annotation calls it can reach: at least one is reached and every "
    "one receives self.current_annotated_locals as annotations_dict and a "
    "true check_types; and _apply_annotation falls back to the table's "
    "recorded type inside its `annotations_dict is not None` arm.  Blind "
    "spots: R2.23 matches in-place mutations by the attribute's dotted path "
    "inside the class (aliases of the container held elsewhere are not "
    "followed) and does not look at element-level save/restore "
    "(`old = d.get(k)` .. `d[k] = old`); R2.24 does not decide which paths "
    "of a handler bypass _apply_annotation (the match-statement `as` capture "
    "and the deletion path of STORE_FAST do, by design), nor stores to "
    "globals/nonlocals from an inner scope.")
ASSUMPTIONS += [
    "R2.23: `copy-of` calls are shallow copies of a flat container, which is "
    "what the restored state needs (the protocol cache holds tuples)",
    "R2.24: the host CPython's opcode.haslocal / hasfree tables classify "
    "which STORE_* opcodes address the frame's own variables; a cell variable "
    "(STORE_DEREF) is a local of the frame that creates it",
]

NUMERIC = {"bool", "int", "float", "complex"}


@rule("R2.1", "C02", floor=6)
def r2_1(ctx):
  """Promotion table = PEP 484 numeric tower (+ bytes-likes)."""
  rel = "pytype/pytd/pep484.py"
  items = stubs.compat_items(ctx)
  mod = get_module(ctx, rel)
  line = mod.const("_COMPAT_ITEMS").lineno
  num = {p for p in items if p[0] in NUMERIC and p[1] in NUMERIC}
  want = {("int", "float"), ("int", "complex"), ("float", "complex")}
  ctx.check(num == want, "_COMPAT_ITEMS:numeric-tower", rel, line,
            f"numeric promotions are {sorted(num)}; PEP 484 allows exactly "
            f"{sorted(want)}", {"numeric": sorted(num)})
  rest = set(items) - num
  allowed = {("bytearray", "bytes"), ("memoryview", "bytes")}
  for p in sorted(rest):
    ctx.check(p in allowed, f"_COMPAT_ITEMS:{p[0]}->{p[1]}", rel, line,
              f"promotion {p[0]} -> {p[1]} is not a PEP 484 promotion: a "
              f"{p[0]} would be accepted where {p[1]} is annotated",
              {"pair": p})
  # get_compat_items: the only extras are the None->bool pair under the flag
  fn = mod.func("get_compat_items")
  extra = None
  for n in ast.walk(fn):
    if isinstance(n, ast.IfExp) and dotted(n.test) == "none_matches_bool":
      extra = (try_fold(n.body), try_fold(n.orelse))
  rets = [src(r.value) for r in ast.walk(fn) if isinstance(r, ast.Return)]
  ok = extra is not None and extra[1] == [] and set(map(tuple, extra[0] or [])) <= {
      ("NoneType", "bool"), ("None", "bool")} and rets == ["_COMPAT_ITEMS + extra"]
  ctx.check(ok, "get_compat_items:extras", rel, fn.lineno,
            f"get_compat_items adds {extra} and returns {rets}; only the "
            "flag-controlled None->bool pair may be added", {"extra": str(extra)})
  # the matcher's default table
  mrel = "pytype/matcher.py"
  mm = get_module(ctx, mrel)
  init = mm.func("AbstractMatcher.__init__")
  calls = [c for c in calls_in(init) if (dotted(c.func) or "").endswith("get_compat_items")]
  if len(calls) != 1:
    raise AnalysisError("AbstractMatcher.__init__: get_compat_items call not found")
  kw = kwarg(calls[0], "none_matches_bool")
  crel = "pytype/config.py"
  default_off = _option_default(ctx, "none_is_not_bool")
  if kw is None:
    default_has_none = False
  elif src(kw) == "not ctx.options.none_is_not_bool":
    default_has_none = default_off is False
  else:
    raise AnalysisError(f"matcher compat flag expression not understood: {src(kw)}")
  ctx.check(not default_has_none, "default:NoneType->bool", mrel, calls[0].lineno,
            "with default options the matcher's compat table contains "
            "(NoneType, bool): f(None) is accepted for `x: bool`",
            {"flag_expr": src(kw) if kw is not None else None,
             "none_is_not_bool_default": default_off})
  # consulted only under allow_compat_builtins
  # resolved through the module-local MRO: the method may live in a module-local
  # mixin/base of AbstractMatcher (the first definition along the MRO is the one
  # AbstractMatcher instances run; a non-local base before it is a refusal)
  _owner, fn = U.resolve_method(mm, "AbstractMatcher", "_match_base_class_flat")
  uses = [n for n in ast.walk(fn) if isinstance(n, ast.Compare)
          and any("_compatible_builtins" in src(c) for c in n.comparators)]
  ok = len(uses) == 1
  if ok:
    # the membership test must be and-ed with allow_compat_builtins
    par = mm.parent.get(uses[0])
    ok = isinstance(par, ast.BoolOp) and isinstance(par.op, ast.And) and \
        any(dotted(v) == "allow_compat_builtins" for v in par.values)
  ctx.check(ok, "_match_base_class_flat:compat-guard", mrel, fn.lineno,
            "the compat table must be consulted only when "
            "allow_compat_builtins is set")
  # key spelling: pairs are compared as ("builtins."+a, "builtins."+b) of (left, formal)
  pairs = [src(n) for n in ast.walk(fn) if isinstance(n, ast.Tuple) and
           mm.parent.get(n) in uses]
  ctx.check(pairs == ["(name1, name2)"], "_match_base_class_flat:pair-order", mrel,
            fn.lineno, f"the table is probed with {pairs}; expected "
            "(value-class name, annotation-class name)", {"probe": pairs})


def _option_default(ctx, name):
  """Default of a boolean feature flag in config.py (False if declared with
  the `_flag("--x", False, ...)` helper)."""
  mod = get_module(ctx, "pytype/config.py")
  flag = "--" + name.replace("_", "-")
  for n in ast.walk(mod.tree):
    if isinstance(n, ast.Call) and n.args and isinstance(n.args[0], ast.Constant) \
        and n.args[0].value == flag:
      if len(n.args) > 1:
        v = try_fold(n.args[1])
        if isinstance(v, bool):
          return v
      d = kwarg(n, "default")
      if d is not None and isinstance(try_fold(d), bool):
        return try_fold(d)
      act = kwarg(n, "action")
      if act is not None and try_fold(act) == "store_true":
        return False
  raise AnalysisError(f"default of option {name} not found in config.py")


@rule("R2.2", "C02", floor=70)
def r2_2(ctx):
  """Builtin nominal hierarchy of the stub == CPython's."""
  st = stubs.get_stubs(ctx)
  ref = REF.BUILTIN_MRO
  common = sorted(n for n in ref if f"builtins.{n}" in st.classes)
  if len(common) < 70:
    raise AnalysisError(f"only {len(common)} builtin classes in common with CPython")
  bad_pairs = {}
  n_pairs = 0
  for a in common:
    anc = {q.split(".", 1)[1] for q in st.ancestors(st.cls(f"builtins.{a}"))
           if q.startswith("builtins.")}
    for b in common:
      if a == b:
        continue
      n_pairs += 1
      stub_sub = b in anc
      ref_sub = b in ref[a]
      if stub_sub != ref_sub:
        bad_pairs.setdefault(a, []).append((b, stub_sub, ref_sub))
  for a in common:
    if a in bad_pairs:
      b, s, r = bad_pairs[a][0]
      ctx.bad(f"hierarchy:{a}", stubs.BUILTINS, st.cls(f"builtins.{a}").line,
              f"stub says issubclass({a}, {b}) is {s}, CPython 3.12 says {r}"
              + (f" (+{len(bad_pairs[a]) - 1} more)" if len(bad_pairs[a]) > 1 else ""),
              {"mismatches": bad_pairs[a][:6]})
  # one instance per compared ordered pair that agrees, aggregated per class
  for a in common:
    if a not in bad_pairs:
      ctx.ok(f"hierarchy:{a}", stubs.BUILTINS, st.cls(f"builtins.{a}").line,
             {"bases_in_ref": ref[a][:4], "pairs_compared": len(common) - 1})
  ctx.note(f"R2.2: {len(common)} classes, {n_pairs} ordered pairs compared")


ABCS = ["Iterable", "Iterator", "Reversible", "Sized", "Container", "Collection",
        "Sequence", "MutableSequence", "Mapping", "MutableMapping", "AbstractSet",
        "MutableSet", "Hashable", "SupportsInt", "SupportsFloat",
        "SupportsComplex", "SupportsAbs", "SupportsRound", "SupportsBytes",
        "SupportsIndex"]


@rule("R2.5", "C02", floor=300)
def r2_5(ctx):
  """ABC / protocol membership of ground builtin types."""
  st = stubs.get_stubs(ctx)
  adm = ctx.memo(("admission",), lambda: stubs.Admission(ctx, st))
  n = 0
  for tn in REF.SURFACE_TYPES:
    t = st.cls(f"builtins.{tn}")
    for x in ABCS:
      c = st.classes.get(f"typing.{x}")
      if c is None:
        raise AnalysisError(f"typing.{x} not in typing.pytd")
      got = adm.admits_class(t, c) == stubs.ADMIT
      want = REF.ABC_MEMBERSHIP[tn][x]
      n += 1
      if got == want:
        ctx.ok(f"{tn}:{x}", stubs.BUILTINS, t.line, {"member": got})
      else:
        why = ("the stub makes %s an inhabitant of %s but CPython does not: a "
               "%s value is accepted where %s is annotated" if got else
               "CPython's %s is a %s but the stub does not make it one: a "
               "conforming %s value is rejected for %s") % (tn, x, tn, x)
        ctx.bad(f"{tn}:{x}", stubs.BUILTINS, t.line, why,
                {"stub": got, "cpython": want,
                 "protocol_attrs": sorted(st.protocol_attributes(c, adm.extra) or [])})


@rule("R2.6", "C02", floor=10)
def r2_6(ctx):
  """Protocol attributes are monotone along protocol inheritance."""
  st = stubs.get_stubs(ctx)
  adm = ctx.memo(("admission",), lambda: stubs.Admission(ctx, st))
  for q, c in sorted(st.classes.items()):
    if c.module != "typing" or not st.is_protocol(c):
      continue
    pa = st.protocol_attributes(c, adm.extra)
    for b in st.bases(c):
      if b.module == "typing" and st.is_protocol(b) and b.name not in ("Protocol", "Generic"):
        pb = st.protocol_attributes(b, adm.extra)
        # attributes the sub-protocol implements concretely are legitimately dropped
        implemented = {a for a in pb if a in c.members and not any(
            isinstance(e, stubs.Method) and e.abstract for e in c.members[a])}
        missing = pb - pa - implemented
        # inherited-and-implemented by an intermediate base is fine too
        missing = {a for a in missing if a not in st.abstract_methods(b) or
                   a in st.abstract_methods(c)} if False else missing
        # extra (non-abstract) attributes required of the super-protocol
        extra_missing = (adm.extra.get(b.qual, set()) - pa)
        abstract_missing = {a for a in (st.abstract_methods(b) - pa)
                            if a not in c.members and not _implemented_between(st, c, b, a)}
        miss = extra_missing | abstract_missing
        ctx.check(not miss, f"{c.name}>={b.name}", stubs.TYPING, c.line,
                  f"protocol {c.name} inherits {b.name} but does not require "
                  f"{sorted(miss)}: a value accepted as {c.name} can be "
                  f"rejected as {b.name}", {"sub": sorted(pa), "super": sorted(pb)})


def _implemented_between(st, c, b, attr):
  """attr is given a concrete definition by c or a class between c and b."""
  for k in st.mro(c):
    if k is b:
      return False
    if attr in k.members and not any(isinstance(e, stubs.Method) and e.abstract
                                     for e in k.members[attr]):
      return True
  return False


# -- R2.3 (c): InterpreterFunction.match_args, decided path by path -------------------

def _subst_locals(expr, env):
  """Replaces once-bound locals by the expression they were bound to."""
  if not env:
    return expr
  import copy

  class T(ast.NodeTransformer):
    def visit_Name(self, node):
      if isinstance(node.ctx, ast.Load) and node.id in env:
        return copy.deepcopy(env[node.id])
      return node
  return T().visit(copy.deepcopy(expr))


def _function_paths(body, state, what):
  """Enumerates the paths of a small loop-free body.  state = (conds, env):
  the path condition so far and the locals bound by plain assignments.
  -> (finished: [(conds, return-value-expr-or-None)], open: [state])"""
  finished, open_ = [], [state]
  for st in body:
    if not open_:
      break
    if isinstance(st, (ast.Pass, ast.Expr, ast.Assert)) and not (
        isinstance(st, ast.Expr) and isinstance(st.value, (ast.Yield, ast.YieldFrom, ast.Await))):
      continue
    if isinstance(st, (ast.Assign, ast.AnnAssign)) and (
        isinstance(st, ast.AnnAssign) or len(st.targets) == 1) and \
        isinstance(st.targets[0] if isinstance(st, ast.Assign) else st.target, ast.Name) \
        and st.value is not None:
      name = (st.targets[0] if isinstance(st, ast.Assign) else st.target).id
      open_ = [(c, dict(env, **{name: _subst_locals(st.value, env)}))
               for c, env in open_]
    elif isinstance(st, ast.Return):
      for c, env in open_:
        finished += _split_value(
            c, None if st.value is None else _subst_locals(st.value, env))
      open_ = []
    elif isinstance(st, ast.If):
      nxt = []
      for c, env in open_:
        f = _bool_formula(_subst_locals(st.test, env))
        fb_, ob = _function_paths(st.body, (c + [f], env), what)
        fe, oe = _function_paths(st.orelse, (c + [("not", f)], env), what)
        finished += fb_ + fe
        nxt += ob + oe
      open_ = nxt
    elif isinstance(st, ast.Raise):
      open_ = []
    else:
      raise AnalysisError(
          f"{what}: statement `{src(st)[:60]}` outside the path enumeration "
          "(only if / return / raise / expression statements and plain local "
          "assignments are understood)")
  return finished, open_


def _split_value(cond, value):
  if isinstance(value, ast.IfExp):
    f = _bool_formula(value.test)
    return _split_value(cond + [f], value.body) + \
        _split_value(cond + [("not", f)], value.orelse)
  return [(cond, value)]


def _match_args_delegates(ctx, fi, fn):
  """Every path through InterpreterFunction.match_args either returns
  super().match_args(<its own parameters, in order>) or returns None under a
  path condition that implies `not self.signature.has_param_annotations`."""
  what = "InterpreterFunction.match_args"
  construct = f"{what}:delegates"
  atom = "self.signature.has_param_annotations"
  params = [a.arg for a in fn.args.posonlyargs + fn.args.args][1:]
  if fn.args.vararg or fn.args.kwarg or fn.args.kwonlyargs:
    raise AnalysisError(f"{what}: */**/keyword-only parameters not understood")
  finished, open_ = _function_paths(fn.body, ([], {}), what)
  paths = finished + [(c, None) for c, _ in open_]
  if not paths:
    raise AnalysisError(f"{what}: no path reaches an exit")
  delegating, problems, facts = 0, [], []
  for conds, value in paths:
    f = ("and", conds)
    sat = _implies_literal(f, atom, False)
    if sat is None:
      continue  # contradictory path
    is_none = value is None or (isinstance(value, ast.Constant) and value.value is None)
    ctext = " and ".join(_formula_text(c) for c in conds) or "True"
    if is_none:
      facts.append({"when": ctext, "returns": "None"})
      if not sat:
        problems.append(f"matching is skipped when `{ctext}`")
      continue
    if not (isinstance(value, ast.Call) and isinstance(value.func, ast.Attribute)
            and value.func.attr == "match_args"
            and src(value.func.value) == "super()"):
      raise AnalysisError(
          f"{what}: returns `{src(value)[:70]}`, neither None nor "
          "super().match_args(..)")
    if any(isinstance(a, ast.Starred) for a in value.args) or \
        any(k.arg is None for k in value.keywords):
      raise AnalysisError(f"{what}: */** arguments in the delegation")
    passed = [src(a) for a in value.args]
    names = list(params)
    got = dict(zip(names, passed))
    for k in value.keywords:
      got[k.arg] = src(k.value)
    facts.append({"when": ctext, "returns": src(value)[:60]})
    if got != {n: n for n in params}:
      problems.append(f"delegates with {src(value)} instead of its own "
                      f"parameters {params}")
    delegating += 1
  if not delegating:
    problems.append("never delegates to super().match_args")
  ctx.check(not problems, construct, fi.rel, fn.lineno,
            "match_args may skip matching only when the signature has no "
            "parameter annotations: " + "; ".join(problems), {"paths": facts})


def _every_annotated_argument_is_matched(ctx, fb, fn):
  """_match_args_sequentially hands compute_matches one types.Arg for every
  (name, argument, annotation) of Signature.iter_args whose annotation is not
  None: an item may be left out only under a condition that implies
  `<annotation> is None`.  Accumulator loop and comprehension are the same."""
  what = "_match_args_sequentially"
  construct = f"{what}:skips"
  calls = [c for c in calls_in(fn) if isinstance(c.func, ast.Attribute)
           and c.func.attr == "compute_matches"]
  if len(calls) != 1 or not calls[0].args or not isinstance(calls[0].args[0], ast.Name):
    raise AnalysisError(f"{what}: compute_matches(<list>, ..) call not recognised")
  lst = calls[0].args[0].id
  binds = [n for n in ast.walk(fn) if isinstance(n, (ast.Assign, ast.AnnAssign))
           and any(isinstance(t, ast.Name) and t.id == lst for t in
                   (n.targets if isinstance(n, ast.Assign) else [n.target]))]
  if len(binds) != 1 or binds[0].value is None:
    raise AnalysisError(f"{what}: `{lst}` is bound {len(binds)} times")
  v = binds[0].value

  def item_ok(call, names):
    """types.Arg(name, arg, f(annotation)) built from the iteration variables."""
    return isinstance(call, ast.Call) and (dotted(call.func) or "").split(".")[-1] == "Arg" \
        and len(call.args) == 3 and not call.keywords \
        and [src(a) for a in call.args[:2]] == names[:2] \
        and names[2] in {x.id for x in ast.walk(call.args[2]) if isinstance(x, ast.Name)}

  def source_ok(it):
    return isinstance(it, ast.Call) and isinstance(it.func, ast.Attribute) and \
        it.func.attr == "iter_args" and src(it.func.value) == "self.signature" and \
        [src(a) for a in it.args] == [fn.args.args[2].arg] and not it.keywords

  def target_names(t):
    if isinstance(t, ast.Tuple) and len(t.elts) == 3 and \
        all(isinstance(e, ast.Name) for e in t.elts):
      return [e.id for e in t.elts]
    raise AnalysisError(f"{what}: iteration target `{src(t)}` is not (name, arg, annotation)")

  skips, facts = [], {}
  if isinstance(v, ast.ListComp):
    if len(v.generators) != 1 or v.generators[0].is_async:
      raise AnalysisError(f"{what}: `{src(v)[:60]}` not understood")
    g = v.generators[0]
    if not source_ok(g.iter):
      raise AnalysisError(f"{what}: `{lst}` is not built from self.signature.iter_args(args)")
    names = target_names(g.target)
    if not item_ok(v.elt, names):
      raise AnalysisError(f"{what}: element `{src(v.elt)[:60]}` is not types.Arg(name, arg, annotation)")
    key = f"{names[2]} is None"
    f = ("not", ("and", [_bool_formula(c) for c in g.ifs])) if g.ifs else ("const", False)
    implied = _implies_literal(f, key, True)
    facts = {"form": "comprehension", "filter": [src(c) for c in g.ifs]}
    if implied is False:
      skips.append(" and ".join(src(c) for c in g.ifs))
  elif (isinstance(v, ast.List) and not v.elts) or (
      isinstance(v, ast.Call) and dotted(v.func) == "list" and not v.args):
    loops = [n for n in ast.walk(fn) if isinstance(n, ast.For)
             and any(isinstance(c, ast.Call) and isinstance(c.func, ast.Attribute)
                     and c.func.attr in ("append", "extend", "insert")
                     and isinstance(c.func.value, ast.Name) and c.func.value.id == lst
                     for c in ast.walk(n))]
    if len(loops) != 1 or loops[0].orelse or not source_ok(loops[0].iter):
      raise AnalysisError(
          f"{what}: `{lst}` is not filled by one loop over self.signature.iter_args(args)")
    loop = loops[0]
    names = target_names(loop.target)

    def is_append(st):
      return isinstance(st, ast.Expr) and isinstance(st.value, ast.Call) and \
          isinstance(st.value.func, ast.Attribute) and \
          isinstance(st.value.func.value, ast.Name) and st.value.func.value.id == lst
    key = f"{names[2]} is None"
    # the annotation variable may be re-bound (widened) only after the tests
    seen_paths = []
    for conds, events, how in U.body_paths(loop.body, is_append, what):
      if how in ("raise",):
        continue
      for e in events:
        c = e.value
        if c.func.attr != "append" or len(c.args) != 1 or not item_ok(c.args[0], names):
          raise AnalysisError(f"{what}: `{src(e)[:60]}` is not {lst}.append(types.Arg(name, arg, annotation))")
      text = " and ".join(_formula_text(c) for c in conds) or "True"
      seen_paths.append({"when": text, "appends": len(events), "ends": how})
      if len(events) > 1:
        raise AnalysisError(f"{what}: a path appends {len(events)} items")
      if not events:
        implied = _implies_literal(("and", conds), key, True)
        if implied is False:
          skips.append(text)
      if how in ("break", "return") :
        raise AnalysisError(f"{what}: the loop over the arguments is left early ({how})")
    facts = {"form": "loop", "paths": seen_paths}
  else:
    raise AnalysisError(f"{what}: `{lst} = {src(v)[:50]}` not understood")
  ctx.check(not skips, construct, fb.rel, fn.lineno,
            "arguments may be skipped only when the parameter is unannotated; "
            f"an (argument, annotation) pair is left out when {skips}",
            dict(facts, skips=skips))


def _guard_formula(mod, stmt, fn):
  """Path condition of stmt as a list of propositional formulas."""
  out = []
  for t, p in flow.guards(mod.parent, stmt, stop=fn):
    f = _bool_formula(t)
    out.append(f if p else ("not", f))
  return out


def _all_envs(atoms):
  import itertools
  for vals in itertools.product([False, True], repeat=len(atoms)):
    yield dict(zip(atoms, vals))


def _runs_exactly_under(conj, allowed, env):
  """The guarded statement depends on the atoms in `allowed` only and runs in
  the situation `env` (whatever the spelling of the guards)."""
  f = ("and", conj)
  atoms = _formula_atoms(f, set())
  if not atoms <= set(allowed):
    return False
  return bool(_formula_eval(f, {**{x: False for x in allowed}, **env}))


def _calls_method(fn, name):
  return [c for c in calls_in(fn) if isinstance(c.func, ast.Attribute) and c.func.attr == name]


@rule("R2.3", "C02", floor=8)
def r2_3(ctx):
  """The three enforcement sites reach the matcher and log on a bad match."""
  vm = get_module(ctx, "pytype/vm.py")
  # (a) return sites
  for h in ("byte_RETURN_VALUE", "byte_RETURN_CONST"):
    fn = vm.func(f"VirtualMachine.{h}")
    f = flow.flow(fn, lambda u: {"rv"} if any(
        dotted(c.func) == "self._return_value" for c in flow.unconditional_calls(u)) else ())
    ok = all("rv" in (s or ()) for k, n, s in f.exits if k in ("return", "end"))
    ctx.check(ok, f"{h}->_return_value", vm.rel, fn.lineno,
              f"{h} must pass the returned value through _return_value on every path")
  rv = vm.func("VirtualMachine._return_value")
  rparams = [x.arg for x in rv.args.args]
  if len(rparams) < 3:
    raise AnalysisError("_return_value(self, state, value) signature not understood")
  cr = [c for c in calls_in(rv) if dotted(c.func) == "self._check_return"]
  ok = len(cr) == 1
  gtxt = []
  if ok:
    # guards as a formula: only "the frame checks returns" and "there is a
    # declared return type" (the local handed to _check_return) may decide
    # whether the check runs, in whatever spelling
    a3 = cr[0].args
    conj = _guard_formula(vm, vm.enclosing_stmt(cr[0]), rv)
    gtxt = [_formula_text(c) for c in conj]
    ok = len(a3) == 3 and not cr[0].keywords and \
        isinstance(a3[2], ast.Name) and src(a3[1]) == rparams[2]
    if ok:
      allowed = {"self.frame.check_return", a3[2].id}
      ok = _runs_exactly_under(conj, allowed, {x: True for x in allowed})
  ctx.check(ok, "_return_value->_check_return", vm.rel, rv.lineno,
            f"_return_value must call _check_return(node, <returned value>, "
            f"<declared return type>) whenever the frame checks returns and a "
            f"return type is declared; guards={gtxt}", {"guards": gtxt})
  tv = get_module(ctx, "pytype/tracer_vm.py")
  fn = tv.func("CallTracer._check_return")
  cparams = [x.arg for x in fn.args.args]
  if len(cparams) != 4:
    raise AnalysisError("_check_return(self, node, actual, formal) signature not understood")
  m = [c for c in calls_in(fn) if isinstance(c.func, ast.Attribute)
       and c.func.attr in ("compute_one_match", "bad_matches")]
  log = _calls_method(fn, "bad_return_type")
  ok = len(m) == 1 and len(log) == 1 and len(m[0].args) == 2 and \
      src(m[0].args[0]) == cparams[2] and isinstance(m[0].args[1], ast.Name)
  gt = []
  expected_var = None
  if ok:
    expected_var = m[0].args[1].id
    holder = tv.enclosing_stmt(m[0])
    res = holder.targets[0].id if isinstance(holder, ast.Assign) and \
        len(holder.targets) == 1 and isinstance(holder.targets[0], ast.Name) else None
    if res is None:
      raise AnalysisError("_check_return: the match result is not bound to a local")
    conj = _guard_formula(tv, tv.enclosing_stmt(log[0]), fn)
    gt = [_formula_text(c) for c in conj]
    succ, rep = f"{res}.success", "self.ctx.options.report_errors"
    ok = _runs_exactly_under(conj, {succ, rep}, {succ: False, rep: True}) and \
        _implies_literal(("and", conj), succ, False) is True and \
        f"{res}.bad_matches" in [src(x) for x in log[0].args]
  ctx.check(ok, "_check_return:match-and-log", tv.rel, fn.lineno,
            "CallTracer._check_return must match the actual value against the "
            "expected type and log bad_return_type exactly when the match "
            f"fails; guards={gt}", {"guards": gt})
  exp = {}
  for n in ast.walk(fn):
    if isinstance(n, ast.Assign) and expected_var is not None and \
        dotted(n.targets[0]) == expected_var:
      g = [(src(t), p) for t, p in flow.guards(tv.parent, n)]
      exp[src(n.value)] = g
  if expected_var == cparams[3]:
    exp.setdefault(cparams[3], [])      # matched against the parameter itself
  ok = cparams[3] in exp and set(exp) <= {cparams[3], "self.ctx.convert.bool_type"}
  ctx.check(ok, "_check_return:expected-is-annotation", tv.rel, fn.lineno,
            f"the type matched against must be the declared return type; got {exp}",
            {"expected": {k: str(v) for k, v in exp.items()}})
  # the VM base implementation is overridden by the tracer
  cls = tv.cls("CallTracer")
  ok = any((dotted(b) or "").endswith("VirtualMachine") for b in cls.bases)
  ctx.check(ok, "CallTracer-overrides-_check_return", tv.rel, cls.lineno,
            "CallTracer must derive from VirtualMachine so its _check_return is used")
  # (b) annotated stores
  fn = vm.func("VirtualMachine._apply_annotation")
  aparams = [x.arg for x in fn.args.args]
  if len(aparams) != 7 or aparams[-1] != "check_types":
    raise AnalysisError(
        "_apply_annotation(self, state, op, name, orig_val, annotations_dict, "
        "check_types) signature not understood")
  calls = [c for c in calls_in(fn) if (dotted(c.func) or "").endswith("check_annotation_type_mismatch")]
  ok = len(calls) == 1
  gt = []
  if ok:
    conj = _guard_formula(vm, vm.enclosing_stmt(calls[0]), fn)
    gt = [_formula_text(c) for c in conj]
    # the only other thing that may decide: the local under which the store is
    # reported as an assignment to a Final instead
    finals = set()
    for c in calls_in(fn):
      if (dotted(c.func) or "").endswith("errorlog.assigning_to_final"):
        for f in _guard_formula(vm, vm.enclosing_stmt(c), fn):
          finals |= {x for x in _formula_atoms(f, set()) if x != "check_types"}
    env = {"check_types": True, **{x: False for x in finals}}
    ok = _runs_exactly_under(conj, set(env), env) and \
        _implies_literal(("and", conj), "check_types", True) is True
    a4 = calls[0].args
    ok = ok and len(a4) >= 4 and src(a4[0]) == f"{aparams[1]}.node" and \
        src(a4[1]) == aparams[3] and isinstance(a4[2], ast.Name) and \
        src(a4[3]) == aparams[4]
  ctx.check(ok, "_apply_annotation->check_annotation_type_mismatch", vm.rel, fn.lineno,
            f"an annotated store must check the stored value against the "
            f"annotation; guards={gt}", {"guards": gt})
  cx = get_module(ctx, "pytype/context.py")
  fn = cx.func("Context.check_annotation_type_mismatch")
  xparams = [x.arg for x in fn.args.args]
  if xparams[:5] != ["self", "node", "name", "typ", "value"] or "allow_none" not in xparams:
    raise AnalysisError("check_annotation_type_mismatch signature not understood")
  m = [c for c in calls_in(fn) if isinstance(c.func, ast.Attribute) and c.func.attr == "compute_one_match"]
  log = _calls_method(fn, "annotation_type_mismatch")
  ok = len(m) == 1 and len(log) == 1 and [src(a) for a in m[0].args] == ["value", "typ"]
  if ok:
    st = cx.enclosing_stmt(log[0])
    par = cx.parent.get(st)
    ok = isinstance(par, ast.For) and isinstance(par.iter, ast.Name)
    if ok:
      bad_var = par.iter.id
      defs = [src(n.value) for n in ast.walk(fn) if isinstance(n, ast.Assign)
              and dotted(n.targets[0]) == bad_var]
      ok = len(defs) == 1 and defs[0].endswith(".bad_matches") and "compute_one_match" in defs[0]
  ctx.check(ok, "check_annotation_type_mismatch:match-and-log", cx.rel, fn.lineno,
            "every bad match of value against the annotation must be logged "
            "as annotation_type_mismatch")
  # early exits: together they may skip the check only when there is no
  # annotation / no value, or the value is `...` (or None where allowed)
  early = [n.test for n in fn.body if isinstance(n, ast.If) and flow.terminates(n.body)]
  known = {"typ", "value", "allow_none", "value.data == [self.convert.ellipsis]",
           "value.data == [self.convert.none]"}
  d = ("or", [_bool_formula(t) for t in early])
  spec = ("or", [("not", ("atom", "typ")), ("not", ("atom", "value")),
                 ("atom", "value.data == [self.convert.ellipsis]"),
                 ("and", [("atom", "allow_none"),
                          ("atom", "value.data == [self.convert.none]")])])
  atoms = _formula_atoms(d, set())
  ok = atoms <= known and all(
      _formula_eval(spec, env) for env in _all_envs(sorted(known))
      if _formula_eval(d, env))
  etxt = [src(t) for t in early]
  ctx.check(ok, "check_annotation_type_mismatch:early-exits", cx.rel, fn.lineno,
            f"unexpected early exit skips the annotation check: {etxt}", {"early": etxt})
  # (c) arguments
  fi = get_module(ctx, "pytype/abstract/_interpreter_function.py")
  fn = fi.func("InterpreterFunction.match_args")
  _match_args_delegates(ctx, fi, fn)
  fb = get_module(ctx, "pytype/abstract/_function_base.py")
  fn = fb.func("SignedFunction._match_args_sequentially") if fb.has_func(
      "SignedFunction._match_args_sequentially") else None
  if fn is None:
    for cname in fb.classes:
      ms = fb.methods(cname)
      if "_match_args_sequentially" in ms and calls_in(ms["_match_args_sequentially"]):
        if any(isinstance(c.func, ast.Attribute) and c.func.attr == "compute_matches"
               for c in calls_in(ms["_match_args_sequentially"])):
          fn = ms["_match_args_sequentially"]
  if fn is None:
    raise AnalysisError("_match_args_sequentially with compute_matches not found")
  handlers = [h for n in ast.walk(fn) if isinstance(n, ast.Try) for h in n.handlers]
  ok = len(handlers) == 1 and (dotted(handlers[0].type) or "").endswith("MatchError") and \
      any(isinstance(s, ast.Raise) and "WrongArgTypes" in src(s) for s in handlers[0].body)
  ctx.check(ok, "_match_args_sequentially:MatchError->WrongArgTypes", fb.rel, fn.lineno,
            "a failed argument match must be raised as WrongArgTypes")
  _every_annotated_argument_is_matched(ctx, fb, fn)
  er = get_module(ctx, "pytype/errors/errors.py")
  fn = er.func("VmErrorLog.invalid_function_call")
  arm = None
  for n in ast.walk(fn):
    if isinstance(n, ast.If) and src(n.test) == "isinstance(error, error_types.WrongArgTypes)":
      arm = [src(s) for s in n.body]
  ok = arm is not None and any(a.startswith("self.wrong_arg_types(") for a in arm)
  ctx.check(ok, "invalid_function_call:WrongArgTypes", er.rel, fn.lineno,
            f"WrongArgTypes must be dispatched to wrong_arg_types; arm={arm}", {"arm": arm})


@rule("R2.4", "C02", floor=3)
def r2_4(ctx):
  """Error identities of the three sites."""
  er = get_module(ctx, "pytype/errors/errors.py")
  want = {"bad_return_type": "bad-return-type",
          "annotation_type_mismatch": "annotation-type-mismatch",
          "_wrong_arg_types": "wrong-arg-types"}
  ms = er.methods("VmErrorLog")
  for m, name in want.items():
    if m not in ms:
      raise AnalysisError(f"VmErrorLog.{m} not found")
    decs = [try_fold(d.args[0]) for d in ms[m].decorator_list
            if isinstance(d, ast.Call) and dotted(d.func) == "_error_name" and d.args]
    ctx.check(decs == [name], f"{m}:error-name", er.rel, ms[m].lineno,
              f"{m} is registered as {decs}, expected [{name!r}]", {"names": decs})
  fn = ms["wrong_arg_types"]
  calls = [dotted(c.func) for c in calls_in(fn)]
  ctx.check("self._wrong_arg_types" in calls, "wrong_arg_types->_wrong_arg_types",
            er.rel, fn.lineno, "wrong_arg_types must log through _wrong_arg_types "
            "unless the call is a binary operator", {"calls": calls})


# -- R2.7: the expected type of a keyword argument ------------------------------------

FUNCTION = "pytype/abstract/function.py"
# kinds of names a keyword argument can carry, relative to the signature
_KINDS = ("posonly", "poskw", "kwonly", "extra")


class _KwFormal:
  """Symbolic execution of the keyword loop of Signature.iter_args, once per
  kind of keyword name: which value reaches the `formal` slot of the yield.

  Values of the slot: L = result of the annotation lookup for this name,
  LN = that result, known to be None, N = None without a lookup, F = a fallback
  assigned while the slot was None after a lookup, F0 = a fallback assigned
  while the slot was None without a lookup, X = anything else."""

  def __init__(self, mod, fn, loop, name_var, args_name):
    self.mod, self.fn, self.loop = mod, fn, loop
    self.name_var, self.args_name = name_var, args_name
    self.outcomes = []      # (kind, slot value, lookup executed)
    self.budget = 4000

  # -- name sets ---------------------------------------------------------------
  def local_value(self, name):
    vals = [n.value for n in ast.walk(self.fn) if isinstance(n, ast.Assign)
            and len(n.targets) == 1 and isinstance(n.targets[0], ast.Name)
            and n.targets[0].id == name]
    return vals[0] if len(vals) == 1 else None

  def kinds_in(self, expr, depth=0):
    """The kinds of names a collection holds; None if not understood."""
    if depth > 5:
      return None
    if isinstance(expr, ast.Name):
      v = self.local_value(expr.id)
      return None if v is None else self.kinds_in(v, depth + 1)
    if isinstance(expr, ast.Call) and isinstance(expr.func, ast.Name) and \
        expr.func.id in ("set", "frozenset", "tuple", "list", "sorted") and \
        len(expr.args) == 1 and not expr.keywords:
      return self.kinds_in(expr.args[0], depth + 1)
    if isinstance(expr, ast.BinOp) and isinstance(expr.op, (ast.Add, ast.BitOr)):
      l, r = self.kinds_in(expr.left, depth + 1), self.kinds_in(expr.right, depth + 1)
      return None if l is None or r is None else l | r
    d = dotted(expr)
    if d == "self.param_names":
      return {"posonly", "poskw"}
    if d == "self.posonly_params":
      return {"posonly"}
    if d == "self.kwonly_params":
      return {"kwonly"}
    if d == "self.annotations":
      # unannotated names are absent, but then the lookup yields None anyway
      return {"posonly", "poskw", "kwonly"}
    if isinstance(expr, ast.Subscript) and dotted(expr.value) == "self.param_names" \
        and isinstance(expr.slice, ast.Slice) and expr.slice.step is None:
      lo, up = expr.slice.lower, expr.slice.upper
      if lo is None and up is not None and dotted(up) == "self.posonly_count":
        return {"posonly"}
      if up is None and lo is not None and dotted(lo) == "self.posonly_count":
        return {"poskw"}
    return None

  # -- expressions -------------------------------------------------------------
  def is_annotations(self, e):
    if dotted(e) == "self.annotations":
      return True
    if isinstance(e, ast.Name):
      v = self.local_value(e.id)
      return v is not None and dotted(v) == "self.annotations"
    return False

  def is_lookup(self, e):
    """self.annotations.get(<name>) / self.annotations[<name>]"""
    if isinstance(e, ast.Call) and isinstance(e.func, ast.Attribute) and \
        e.func.attr == "get" and self.is_annotations(e.func.value) and \
        1 <= len(e.args) <= 2 and isinstance(e.args[0], ast.Name) and \
        e.args[0].id == self.name_var:
      return len(e.args) == 1 or (isinstance(e.args[1], ast.Constant)
                                  and e.args[1].value is None)
    return (isinstance(e, ast.Subscript) and self.is_annotations(e.value)
            and isinstance(e.slice, ast.Name) and e.slice.id == self.name_var)

  def truth(self, test, kind, env):
    """-> list of (bool, env) outcomes of evaluating `test`."""
    if isinstance(test, ast.UnaryOp) and isinstance(test.op, ast.Not):
      return [(not b, e) for b, e in self.truth(test.operand, kind, env)]
    if isinstance(test, ast.BoolOp):
      is_and = isinstance(test.op, ast.And)
      states = [(None, env)]
      for v in test.values:
        nxt = []
        for b, e in states:
          if b is not None and b != is_and:      # short-circuited
            nxt.append((b, e))
          else:
            nxt.extend(self.truth(v, kind, e))
        states = nxt
      return states
    if isinstance(test, ast.Compare) and len(test.ops) == 1:
      op, l, r = test.ops[0], test.left, test.comparators[0]
      if isinstance(op, (ast.In, ast.NotIn)) and isinstance(l, ast.Name) and \
          l.id == self.name_var:
        ks = self.kinds_in(r)
        if ks is None:
          raise AnalysisError(
              f"iter_args: the name set `{src(r)}` could not be classified")
        b = kind in ks
        return [(b if isinstance(op, ast.In) else not b, env)]
      if isinstance(op, (ast.Is, ast.IsNot)) and isinstance(r, ast.Constant) \
          and r.value is None and isinstance(l, ast.Name) and l.id in env["slots"]:
        return [(b if isinstance(op, ast.Is) else not b, e)
                for b, e in self.none_test(l.id, env)]
    if isinstance(test, ast.Name) and test.id in env["slots"]:
      return [(not b, e) for b, e in self.none_test(test.id, env)]
    if flow.names_in(test) & ({self.name_var} | set(env["slots"])):
      # a test on the keyword name / the slot that is not understood
      raise AnalysisError(f"iter_args: condition `{src(test)}` not understood")
    return [(True, env), (False, env)]

  def none_test(self, var, env):
    """Is slot `var` None?  Refines L into LN / L(non-None)."""
    v = env["slots"][var]
    if v in ("N", "LN"):
      return [(True, env)]
    if v == "L":
      e2 = dict(env, slots=dict(env["slots"], **{var: "LN"}))
      e3 = dict(env, slots=dict(env["slots"], **{var: "L!"}))
      return [(True, e2), (False, e3)]
    if v == "L!":
      return [(False, env)]
    return [(True, env), (False, env)]

  def assign(self, var, value, kind, env):
    outs = []
    if isinstance(value, ast.IfExp):
      for b, e in self.truth(value.test, kind, env):
        outs.extend(self.assign(var, value.body if b else value.orelse, kind, e))
      return outs
    prev = env["slots"].get(var)
    looked = env["looked"]
    if self.is_lookup(value):
      new, looked = "L", True
    elif isinstance(value, ast.Constant) and value.value is None:
      new = "LN" if prev == "LN" else "N"
    elif isinstance(value, ast.Name) and value.id in env["slots"]:
      new = env["slots"][value.id]
    elif self.name_var in flow.names_in(value) and not (
        isinstance(value, ast.Subscript) and
        dotted(value.value) == f"{self.args_name}.namedargs"):
      # depends on the keyword's name but is not the annotation lookup
      raise AnalysisError(
          f"iter_args: `{src(value)[:60]}` computes something from the keyword "
          "name that is not self.annotations.get(name): not understood")
    elif prev == "LN":
      new = "F"
    elif prev == "N":
      new = "F0"
    else:
      new = "X"
    return [dict(env, slots=dict(env["slots"], **{var: new}), looked=looked)]

  # -- statements --------------------------------------------------------------
  def run_block(self, stmts, kind, env):
    """-> list of envs that fall through the block."""
    envs = [env]
    for st in stmts:
      nxt = []
      for e in envs:
        nxt.extend(self.run_stmt(st, kind, e))
      envs = nxt
      self.budget -= len(envs) + 1
      if self.budget < 0:
        raise AnalysisError("iter_args: too many paths in the keyword loop")
    return envs

  def run_stmt(self, st, kind, env):
    if isinstance(st, ast.If):
      out = []
      for b, e in self.truth(st.test, kind, env):
        out.extend(self.run_block(st.body if b else st.orelse, kind, e))
      return out
    if isinstance(st, (ast.Assign, ast.AnnAssign)):
      tgts = st.targets if isinstance(st, ast.Assign) else [st.target]
      if st.value is None:
        return [env]
      if len(tgts) == 1 and isinstance(tgts[0], ast.Name):
        self.scan_yields(st.value, kind, env)
        if tgts[0].id == self.name_var:
          raise AnalysisError("iter_args: the keyword name is rebound")
        return self.assign(tgts[0].id, st.value, kind, env)
      raise AnalysisError(f"iter_args: `{src(st)[:60]}` not understood")
    if isinstance(st, ast.Expr):
      self.scan_yields(st.value, kind, env)
      return [env]
    if isinstance(st, ast.Continue):
      return []
    if isinstance(st, ast.Pass):
      return [env]
    raise AnalysisError(
        f"iter_args: statement `{src(st)[:60]}` in the keyword loop not understood")

  def scan_yields(self, expr, kind, env):
    for y in ast.walk(expr):
      if isinstance(y, ast.YieldFrom):
        raise AnalysisError("iter_args: yield from in the keyword loop")
      if isinstance(y, ast.Yield):
        v = y.value
        if not (isinstance(v, ast.Tuple) and len(v.elts) == 3
                and isinstance(v.elts[0], ast.Name)
                and v.elts[0].id == self.name_var):
          raise AnalysisError(
              f"iter_args: `{src(y)[:60]}` is not (name, argument, formal)")
        f = v.elts[2]
        if isinstance(f, ast.Name):
          if f.id not in env["slots"]:
            raise AnalysisError(f"iter_args: `{f.id}` yielded before assignment")
          val, looked = env["slots"][f.id], env["looked"]
        else:
          e2 = self.assign("<yield>", f, kind, env)
          if len(e2) != 1:
            raise AnalysisError("iter_args: conditional expression in the yield")
          val, looked = e2[0]["slots"]["<yield>"], e2[0]["looked"]
        self.outcomes.append((kind, val, looked, y.lineno))

  def run(self):
    for kind in _KINDS:
      self.run_block(self.loop.body, kind, {"slots": {}, "looked": False})
    return self.outcomes


@rule("R2.7", "C02", floor=2)
def r2_7(ctx):
  """A keyword argument is checked against the annotation of the parameter it
  binds to: always looked up, except for positional-only names."""
  mod = get_module(ctx, FUNCTION)
  fn = mod.func("Signature.iter_args")
  params = [a.arg for a in fn.args.args]
  if len(params) != 2:
    raise AnalysisError("Signature.iter_args(self, args) signature not understood")
  args_name = params[1]
  loops = [n for n in fn.body if isinstance(n, ast.For) and any(
      dotted(x) == f"{args_name}.namedargs" for x in ast.walk(n.iter))]
  if len(loops) != 1:
    raise AnalysisError("iter_args: the loop over args.namedargs was not found")
  loop = loops[0]
  it = loop.iter
  while isinstance(it, ast.Call) and isinstance(it.func, ast.Name) and \
      it.func.id in ("sorted", "list", "tuple") and len(it.args) == 1:
    it = it.args[0]
  items = False
  if isinstance(it, ast.Call) and isinstance(it.func, ast.Attribute) and \
      it.func.attr in ("keys", "items") and not it.args:
    items = it.func.attr == "items"
    it = it.func.value
  if dotted(it) != f"{args_name}.namedargs" or loop.orelse:
    raise AnalysisError(
        f"iter_args: keyword loop iterates `{src(loop.iter)}`, not every "
        "passed keyword")
  tgt = loop.target
  if items and isinstance(tgt, ast.Tuple) and len(tgt.elts) == 2 and \
      isinstance(tgt.elts[0], ast.Name):
    name_var = tgt.elts[0].id
  elif not items and isinstance(tgt, ast.Name):
    name_var = tgt.id
  else:
    raise AnalysisError("iter_args: keyword loop target not understood")
  outcomes = _KwFormal(mod, fn, loop, name_var, args_name).run()
  by_kind = {k: sorted({(v, looked) for kk, v, looked, _ in outcomes if kk == k})
             for k in _KINDS}
  for k in _KINDS:
    if not by_kind[k]:
      raise AnalysisError(
          f"iter_args: no (name, argument, formal) is yielded for a keyword "
          f"naming a {k} parameter")
  facts = {"formal_by_kind_of_name": {k: [v for v, _ in by_kind[k]] for k in _KINDS}}
  line = loop.lineno
  # keyword-bindable parameters: the annotation is looked up and nothing but a
  # None result lets something else take its place
  problems = []
  for k in ("poskw", "kwonly"):
    bad = [v for v, looked in by_kind[k] if v not in ("L", "L!", "LN", "F")]
    if bad:
      what = {"poskw": "positional-or-keyword", "kwonly": "keyword-only"}[k]
      how = "never looked up" if set(bad) <= {"N", "F0"} else \
          "replaced although it was found" if "X" in bad else str(bad)
      problems.append(f"for a keyword naming a {what} parameter the "
                      f"annotation is {how} (formal is {bad})")
  ctx.check(not problems, "Signature.iter_args:keyword-formal-is-annotation",
            FUNCTION, line,
            "; ".join(problems) + ": the argument is then matched against "
            "nothing (or against the **kwargs element type) and a value outside "
            "the parameter's annotation is accepted", facts)
  # positional-only names cannot be bound by keyword: such a keyword belongs to
  # **kwargs and must not be matched against the positional parameter's type
  bad = [v for v, looked in by_kind["posonly"] if looked]
  ctx.check(not bad, "Signature.iter_args:posonly-name-not-matched", FUNCTION, line,
            "a keyword named like a positional-only parameter is matched "
            "against that parameter's annotation (def f(x: int, /, **kw: str); "
            "f(1, x='a') is valid and binds kw['x'])", facts)


# text of AbstractMatcher._match_base_class_flat, for the variants that move it into a
# module-local mixin (with and without the defect)
_MBCF_DEF = (
    "  def _match_base_class_flat(self, base_cls, other_type, allow_compat_builtins):\n"
    "    if isinstance(other_type, abstract.ParameterizedClass):\n"
    "      other_type = other_type.base_cls\n"
    "    if base_cls is other_type:\n"
    "      return True\n"
    "    name1 = self._get_full_name(base_cls)\n"
    "    name2 = self._get_full_name(other_type)\n"
    "    return (\n"
    "        name1 == name2\n")
_MBCF_TAIL = (
    "        or allow_compat_builtins\n"
    "        and (name1, name2) in self._compatible_builtins\n"
    "    )\n")

VARIANTS = [
    {"name": "tower-reversed-pair", "rule": "R2.1", "file": "pytype/pytd/pep484.py", "expect": "fire",
     "old": '    ("int", "float"),\n', "new": '    ("int", "float"),\n    ("float", "int"),\n'},
    {"name": "tower-pair-removed", "rule": "R2.1", "file": "pytype/pytd/pep484.py", "expect": "fire",
     "old": '    ("int", "complex"),\n', "new": ""},
    {"name": "str-bytes-promotion", "rule": "R2.1", "file": "pytype/pytd/pep484.py", "expect": "fire",
     "old": '    ("memoryview", "bytes"),\n', "new": '    ("memoryview", "bytes"),\n    ("str", "bytes"),\n'},
    {"name": "compat-always-consulted", "rule": "R2.1", "file": "pytype/matcher.py", "expect": "fire",
     "old": "        or allow_compat_builtins\n        and (name1, name2) in self._compatible_builtins",
     "new": "        or (name1, name2) in self._compatible_builtins"},
    {"name": "compat-pair-swapped", "rule": "R2.1", "file": "pytype/matcher.py", "expect": "fire",
     "old": "        and (name1, name2) in self._compatible_builtins",
     "new": "        and (name2, name1) in self._compatible_builtins"},
    {"name": "twin-benign-C02-b3r1-nominal-mixin", "rule": "R2.1",
     "patch": "benign/C02-b3r1/patch.diff", "expect": "silent"},
    {"name": "mixin-compat-always-consulted", "rule": "R2.1", "expect": "fire", "edits": [
        ("pytype/matcher.py", "class AbstractMatcher(utils.ContextWeakrefMixin):\n",
         "class _NominalMatchMixin(utils.ContextWeakrefMixin):\n\n" + _MBCF_DEF +
         "        or (name1, name2) in self._compatible_builtins\n    )\n\n\n"
         "class AbstractMatcher(_NominalMatchMixin):\n"),
        ("pytype/matcher.py", _MBCF_DEF + _MBCF_TAIL, "")]},
    {"name": "mixin-compat-pair-swapped", "rule": "R2.1", "expect": "fire", "edits": [
        ("pytype/matcher.py", "class AbstractMatcher(utils.ContextWeakrefMixin):\n",
         "class _NominalMatchMixin(utils.ContextWeakrefMixin):\n\n" + _MBCF_DEF +
         _MBCF_TAIL.replace("(name1, name2)", "(name2, name1)") + "\n\n"
         "class AbstractMatcher(_NominalMatchMixin):\n"),
        ("pytype/matcher.py", _MBCF_DEF + _MBCF_TAIL, "")]},
    {"name": "twin-mixin-compat-guard", "rule": "R2.1", "expect": "silent", "edits": [
        ("pytype/matcher.py", _MBCF_DEF + _MBCF_TAIL, ""),
        ("pytype/matcher.py", "class AbstractMatcher(utils.ContextWeakrefMixin):\n",
         "class _NominalMatchMixin(utils.ContextWeakrefMixin):\n\n" + _MBCF_DEF +
         _MBCF_TAIL + "\n\nclass AbstractMatcher(_NominalMatchMixin):\n")]},
    {"name": "mixin-shadowed-by-own-override", "rule": "R2.1", "expect": "fire", "edits": [
        ("pytype/matcher.py",
         "        or allow_compat_builtins\n        and (name1, name2) in self._compatible_builtins",
         "        or (name1, name2) in self._compatible_builtins"),
        ("pytype/matcher.py", "class AbstractMatcher(utils.ContextWeakrefMixin):\n",
         "class _NominalMatchMixin(utils.ContextWeakrefMixin):\n\n" + _MBCF_DEF +
         _MBCF_TAIL + "\n\nclass AbstractMatcher(_NominalMatchMixin):\n")]},
    {"name": "bool-not-int", "rule": "R2.2", "file": stubs.BUILTINS, "expect": "fire",
     "old": "class bool(int, SupportsInt, SupportsFloat):",
     "new": "class bool(SupportsInt, SupportsFloat):"},
    {"name": "keyerror-not-lookuperror", "rule": "R2.2", "file": stubs.BUILTINS, "expect": "fire",
     "old": "class KeyError(LookupError)", "new": "class KeyError(Exception)"},
    {"name": "return-check-dropped", "rule": "R2.3", "file": "pytype/vm.py", "expect": "fire",
     "old": "      if allowed_return:\n        self._check_return(state.node, var, allowed_return)\n", "new": ""},
    {"name": "return-check-only-for-generators", "rule": "R2.3", "file": "pytype/vm.py", "expect": "fire",
     "old": "      if allowed_return:\n        self._check_return(state.node, var, allowed_return)",
     "new": "      if allowed_return and self.frame.f_code.has_generator():\n        self._check_return(state.node, var, allowed_return)"},
    {"name": "return-log-inverted", "rule": "R2.3", "file": "pytype/tracer_vm.py", "expect": "fire",
     "old": "    if not match_result.success:\n      self.ctx.errorlog.bad_return_type(",
     "new": "    if match_result.success:\n      self.ctx.errorlog.bad_return_type("},
    {"name": "return-const-bypasses-check", "rule": "R2.3", "file": "pytype/vm.py", "expect": "fire",
     "old": "    self.trace_opcode(op, op.argval, const)\n    return self._return_value(state, const)",
     "new": "    self.trace_opcode(op, op.argval, const)\n    self._set_frame_return(state.node, self.frame, const)\n    return state.set_why(\"return\")"},
    {"name": "annotation-check-skips-none-types", "rule": "R2.3", "file": "pytype/context.py", "expect": "fire",
     "old": "    bad = self.matcher(node).compute_one_match(value, typ).bad_matches\n    for match in bad:",
     "new": "    bad = self.matcher(node).compute_one_match(value, typ).bad_matches\n    for match in bad[1:]:"},
    {"name": "match_args-skips-when-defaults", "rule": "R2.3", "file": "pytype/abstract/_interpreter_function.py", "expect": "fire",
     "old": "    if not self.signature.has_param_annotations:\n      return\n    return super().match_args(",
     "new": "    if not self.signature.has_param_annotations or self.signature.defaults:\n      return\n    return super().match_args("},
    {"name": "twin-match_args-positive-guard", "rule": "R2.3", "file": "pytype/abstract/_interpreter_function.py", "expect": "silent",
     "old": "    if not self.signature.has_param_annotations:\n      return\n    return super().match_args(node, args, alias_map, match_all_views)",
     "new": "    if self.signature.has_param_annotations:\n      return super().match_args(node, args, alias_map, match_all_views)\n    return None"},
    {"name": "twin-match_args-conditional-expression", "rule": "R2.3", "file": "pytype/abstract/_interpreter_function.py", "expect": "silent",
     "old": "    if not self.signature.has_param_annotations:\n      return\n    return super().match_args(node, args, alias_map, match_all_views)",
     "new": "    sig = self.signature\n    return (super().match_args(node, args, alias_map, match_all_views)\n            if sig.has_param_annotations else None)"},
    {"name": "twin-benign-C13-r3", "rule": "R2.3", "patch": "benign/C13-r3/patch.diff", "expect": "silent"},
    {"name": "match_args-positive-guard-needs-defaults-too", "rule": "R2.3", "file": "pytype/abstract/_interpreter_function.py", "expect": "fire",
     "old": "    if not self.signature.has_param_annotations:\n      return\n    return super().match_args(node, args, alias_map, match_all_views)",
     "new": "    if self.signature.has_param_annotations and not self.signature.defaults:\n      return super().match_args(node, args, alias_map, match_all_views)\n    return None"},
    {"name": "match_args-positive-guard-inverted", "rule": "R2.3", "file": "pytype/abstract/_interpreter_function.py", "expect": "fire",
     "old": "    if not self.signature.has_param_annotations:\n      return\n    return super().match_args(node, args, alias_map, match_all_views)",
     "new": "    if not self.signature.has_param_annotations:\n      return super().match_args(node, args, alias_map, match_all_views)\n    return None"},
    {"name": "match_args-falls-off-the-end", "rule": "R2.3", "file": "pytype/abstract/_interpreter_function.py", "expect": "fire",
     "old": "    if not self.signature.has_param_annotations:\n      return\n    return super().match_args(node, args, alias_map, match_all_views)",
     "new": "    if self.signature.has_param_annotations and match_all_views:\n      return super().match_args(node, args, alias_map, match_all_views)"},
    {"name": "match_args-delegates-without-alias-map", "rule": "R2.3", "file": "pytype/abstract/_interpreter_function.py", "expect": "fire",
     "old": "    return super().match_args(node, args, alias_map, match_all_views)",
     "new": "    return super().match_args(node, args, None, match_all_views)"},
    {"name": "match_args-result-from-unknown-helper", "rule": "R2.3", "file": "pytype/abstract/_interpreter_function.py", "expect": "error",
     "old": "    return super().match_args(node, args, alias_map, match_all_views)",
     "new": "    return self._do_match(node, args, alias_map, match_all_views)"},
    {"name": "twin-benign-C02-r3-args-to-match-comprehension", "rule": "R2.3", "patch": "benign/C02-r3/patch.diff", "expect": "silent"},
    {"name": 'twin-args-to-match-comprehension', "rule": "R2.3", "file": "pytype/abstract/_function_base.py", "expect": 'silent',
     "old": '    args_to_match = []\n    self._check_paramspec_args(args)\n    for name, arg, formal in self.signature.iter_args(args):\n      if formal is None:\n        continue\n      if name in (self.signature.varargs_name, self.signature.kwargs_name):\n        # The annotation is Tuple or Dict, but the passed arg only has to be\n        # Iterable or Mapping.\n        formal = self.ctx.convert.widen_type(formal)\n      args_to_match.append(types.Arg(name, arg, formal))\n',
     "new": '    self._check_paramspec_args(args)\n    variadic = (self.signature.varargs_name, self.signature.kwargs_name)\n    widen = self.ctx.convert.widen_type\n    args_to_match = [\n        types.Arg(name, arg_var, widen(annot) if name in variadic else annot)\n        for name, arg_var, annot in self.signature.iter_args(args)\n        if annot is not None\n    ]\n'},
    {"name": 'twin-args-to-match-comprehension-negated-filter', "rule": "R2.3", "file": "pytype/abstract/_function_base.py", "expect": 'silent',
     "old": '    args_to_match = []\n    self._check_paramspec_args(args)\n    for name, arg, formal in self.signature.iter_args(args):\n      if formal is None:\n        continue\n      if name in (self.signature.varargs_name, self.signature.kwargs_name):\n        # The annotation is Tuple or Dict, but the passed arg only has to be\n        # Iterable or Mapping.\n        formal = self.ctx.convert.widen_type(formal)\n      args_to_match.append(types.Arg(name, arg, formal))\n',
     "new": '    self._check_paramspec_args(args)\n    variadic = (self.signature.varargs_name, self.signature.kwargs_name)\n    widen = self.ctx.convert.widen_type\n    args_to_match = [\n        types.Arg(name, arg_var, widen(annot) if name in variadic else annot)\n        for name, arg_var, annot in self.signature.iter_args(args)\n        if not annot is None\n    ]\n'},
    {"name": 'args-to-match-comprehension-skips-variadics', "rule": "R2.3", "file": "pytype/abstract/_function_base.py", "expect": 'fire',
     "old": '    args_to_match = []\n    self._check_paramspec_args(args)\n    for name, arg, formal in self.signature.iter_args(args):\n      if formal is None:\n        continue\n      if name in (self.signature.varargs_name, self.signature.kwargs_name):\n        # The annotation is Tuple or Dict, but the passed arg only has to be\n        # Iterable or Mapping.\n        formal = self.ctx.convert.widen_type(formal)\n      args_to_match.append(types.Arg(name, arg, formal))\n',
     "new": '    self._check_paramspec_args(args)\n    variadic = (self.signature.varargs_name, self.signature.kwargs_name)\n    widen = self.ctx.convert.widen_type\n    args_to_match = [\n        types.Arg(name, arg_var, widen(annot) if name in variadic else annot)\n        for name, arg_var, annot in self.signature.iter_args(args)\n        if annot is not None and name not in variadic\n    ]\n'},
    {"name": 'args-to-match-comprehension-unfiltered-source-swapped', "rule": "R2.3", "file": "pytype/abstract/_function_base.py", "expect": 'error',
     "old": '    args_to_match = []\n    self._check_paramspec_args(args)\n    for name, arg, formal in self.signature.iter_args(args):\n      if formal is None:\n        continue\n      if name in (self.signature.varargs_name, self.signature.kwargs_name):\n        # The annotation is Tuple or Dict, but the passed arg only has to be\n        # Iterable or Mapping.\n        formal = self.ctx.convert.widen_type(formal)\n      args_to_match.append(types.Arg(name, arg, formal))\n',
     "new": '    self._check_paramspec_args(args)\n    variadic = (self.signature.varargs_name, self.signature.kwargs_name)\n    widen = self.ctx.convert.widen_type\n    args_to_match = [\n        types.Arg(name, arg_var, widen(annot) if name in variadic else annot)\n        for name, arg_var, annot in self._annotated_args(args)\n        if annot is not None\n    ]\n'},
    {"name": 'args-to-match-loop-skips-unbound-arguments', "rule": "R2.3", "file": "pytype/abstract/_function_base.py", "expect": 'fire',
     "old": '    for name, arg, formal in self.signature.iter_args(args):\n      if formal is None:\n        continue\n',
     "new": '    for name, arg, formal in self.signature.iter_args(args):\n      if formal is None or not arg.bindings:\n        continue\n'},
    {"name": 'twin-args-to-match-loop-positive-guard', "rule": "R2.3", "file": "pytype/abstract/_function_base.py", "expect": 'silent',
     "old": '    args_to_match = []\n    self._check_paramspec_args(args)\n    for name, arg, formal in self.signature.iter_args(args):\n      if formal is None:\n        continue\n      if name in (self.signature.varargs_name, self.signature.kwargs_name):\n        # The annotation is Tuple or Dict, but the passed arg only has to be\n        # Iterable or Mapping.\n        formal = self.ctx.convert.widen_type(formal)\n      args_to_match.append(types.Arg(name, arg, formal))\n',
     "new": '    args_to_match = []\n    self._check_paramspec_args(args)\n    for name, arg, formal in self.signature.iter_args(args):\n      if formal is not None:\n        if name in (self.signature.varargs_name, self.signature.kwargs_name):\n          formal = self.ctx.convert.widen_type(formal)\n        args_to_match.append(types.Arg(name, arg, formal))\n'},
    {"name": 'args-to-match-loop-stops-at-first-unannotated', "rule": "R2.3", "file": "pytype/abstract/_function_base.py", "expect": 'error',
     "old": '    for name, arg, formal in self.signature.iter_args(args):\n      if formal is None:\n        continue\n',
     "new": '    for name, arg, formal in self.signature.iter_args(args):\n      if formal is None:\n        break\n'},
    {"name": 'twin-return-check-negated-guard', "rule": "R2.3", "expect": 'silent',
     "edits": [('pytype/vm.py', '      if allowed_return:\n        self._check_return(state.node, var, allowed_return)\n', '      if not allowed_return:\n        pass\n      else:\n        self._check_return(state.node, var, allowed_return)\n')]},
    {"name": 'twin-return-check-declared-type-local-renamed', "rule": "R2.3", "expect": 'silent',
     "edits": [('pytype/vm.py', '        allowed_return = ret_type.get_formal_type_parameter(abstract_utils.V)\n      elif not self.frame.f_code.has_async_generator():\n        allowed_return = self.frame.allowed_returns\n      else:\n        allowed_return = None\n      if allowed_return:\n        self._check_return(state.node, var, allowed_return)\n', '        declared = ret_type.get_formal_type_parameter(abstract_utils.V)\n      elif not self.frame.f_code.has_async_generator():\n        declared = self.frame.allowed_returns\n      else:\n        declared = None\n      if declared:\n        self._check_return(state.node, var, declared)\n')]},
    {"name": 'return-check-renamed-but-only-for-generators', "rule": "R2.3", "expect": 'fire',
     "edits": [('pytype/vm.py', '        allowed_return = ret_type.get_formal_type_parameter(abstract_utils.V)\n      elif not self.frame.f_code.has_async_generator():\n        allowed_return = self.frame.allowed_returns\n      else:\n        allowed_return = None\n      if allowed_return:\n        self._check_return(state.node, var, allowed_return)\n', '        declared = ret_type.get_formal_type_parameter(abstract_utils.V)\n      elif not self.frame.f_code.has_async_generator():\n        declared = self.frame.allowed_returns\n      else:\n        declared = None\n      if declared and self.frame.f_code.has_generator():\n        self._check_return(state.node, var, declared)\n')]},
    {"name": 'twin-check_return-early-return-on-success', "rule": "R2.3", "expect": 'silent',
     "edits": [('pytype/tracer_vm.py', '    match_result = self.ctx.matcher(node).compute_one_match(actual, expected)\n    if not match_result.success:\n      self.ctx.errorlog.bad_return_type(\n          self.frames, node, match_result.bad_matches\n      )\n    return match_result.success', '    outcome = self.ctx.matcher(node).compute_one_match(actual, expected)\n    if outcome.success:\n      return True\n    self.ctx.errorlog.bad_return_type(\n        self.frames, node, outcome.bad_matches\n    )\n    return False')]},
    {"name": 'check_return-early-return-inverted', "rule": "R2.3", "expect": 'fire',
     "edits": [('pytype/tracer_vm.py', '    match_result = self.ctx.matcher(node).compute_one_match(actual, expected)\n    if not match_result.success:\n      self.ctx.errorlog.bad_return_type(\n          self.frames, node, match_result.bad_matches\n      )\n    return match_result.success', '    outcome = self.ctx.matcher(node).compute_one_match(actual, expected)\n    if not outcome.success:\n      return True\n    self.ctx.errorlog.bad_return_type(\n        self.frames, node, outcome.bad_matches\n    )\n    return False')]},
    {"name": 'twin-apply_annotation-final-flag-renamed', "rule": "R2.3", "expect": 'silent',
     "edits": [('pytype/vm.py', '    final_violation = False\n    local = False\n', '    violates_final = False\n    local = False\n'), ('pytype/vm.py', '      final_violation = (\n          name in annotations_dict', '      violates_final = (\n          name in annotations_dict'), ('pytype/vm.py', '      if final_violation:\n        self.ctx.errorlog.assigning_to_final(self.frames, name, local)\n      else:\n', '      if violates_final:\n        self.ctx.errorlog.assigning_to_final(self.frames, name, local)\n      else:\n')]},
    {"name": 'twin-mismatch-early-exits-regrouped', "rule": "R2.3", "expect": 'silent',
     "edits": [('pytype/context.py', '    if not typ or not value:\n      return\n    if (\n        value.data == [self.convert.ellipsis]\n        or allow_none\n        and value.data == [self.convert.none]\n    ):\n      return\n', '    if not (typ and value):\n      return\n    if value.data == [self.convert.ellipsis]:\n      return\n    if allow_none and value.data == [self.convert.none]:\n      return\n')]},
    {"name": 'mismatch-early-exit-when-none-not-allowed', "rule": "R2.3", "expect": 'fire',
     "edits": [('pytype/context.py', '    if not typ or not value:\n      return\n', '    if not typ or not value or not allow_none:\n      return\n')]},
    {"name": "wrong-arg-types-renamed", "rule": "R2.4", "file": "pytype/errors/errors.py", "expect": "fire",
     "old": '  @_error_name("wrong-arg-types")\n  def _wrong_arg_types(', "new": '  @_error_name("wrong-arg-count")\n  def _wrong_arg_types('},
    {"name": "revert-D15-dict-hashable", "rule": "R2.5", "file": stubs.TYPING, "expect": "fire",
     "old": "class Dict(MutableMapping[_K, _V]):\n  __slots__ = []\n  __hash__ = ...  # type: None\n",
     "new": "class Dict(MutableMapping[_K, _V]):\n  __slots__ = []\n"},
    {"name": "revert-D18-int-round", "rule": "R2.5", "file": stubs.BUILTINS, "expect": "fire",
     "old": "    def __round__(self, ndigits: int = ...) -> int: ...\n", "new": ""},
    {"name": "str-loses-len", "rule": "R2.5", "file": stubs.BUILTINS, "expect": "fire",
     "old": "class str(Sequence[str], Hashable):", "new": "class str(Iterable[str], Hashable):"},
    {"name": "revert-D22-mutablemapping", "rule": "R2.6", "file": "pytype/abstract/class_mixin.py", "expect": "fire",
     "old": 'if self.pytd_cls.name in ("typing.Mapping", "typing.MutableMapping"):',
     "new": 'if self.pytd_cls.name == "typing.Mapping":'},
    {"name": "twin-compat-order", "rule": "R2.1", "file": "pytype/pytd/pep484.py", "expect": "silent",
     "old": '    ("int", "float"),\n    ("int", "complex"),\n', "new": '    ("int", "complex"),\n    ("int", "float"),\n'},
    # R2.7
    {"name": "seeded-C02-m2", "rule": "R2.7", "patch": "seeded/C02-m2/patch.diff", "expect": "fire"},
    {"name": "kwonly-names-skip-annotation-lookup", "rule": "R2.7", "file": FUNCTION, "expect": "fire",
     "old": "      if name in self.param_names[: self.posonly_count]:\n        formal = None",
     "new": "      if name in self.posonly_params or name in self.kwonly_params:\n        formal = None"},
    {"name": "kwargs-type-overrides-annotation", "rule": "R2.7", "file": FUNCTION, "expect": "fire",
     "old": "      if formal is None and self.kwargs_name:",
     "new": "      if self.kwargs_name:"},
    {"name": "lookup-only-for-positional-names", "rule": "R2.7", "file": FUNCTION, "expect": "fire",
     "old": "      if name in self.param_names[: self.posonly_count]:\n        formal = None\n      else:\n        formal = self.annotations.get(name)",
     "new": "      formal = self.annotations.get(name) if name in self.param_names else None"},
    {"name": "posonly-name-matched-by-keyword", "rule": "R2.7", "file": FUNCTION, "expect": "fire",
     "old": "      if name in self.param_names[: self.posonly_count]:\n        formal = None\n      else:\n        formal = self.annotations.get(name)",
     "new": "      formal = self.annotations.get(name)"},
    {"name": "keyword-loop-over-unknown-subset", "rule": "R2.7", "file": FUNCTION, "expect": "error",
     "old": "    for name in sorted(args.namedargs):\n      namedarg = args.namedargs[name]",
     "new": "    for name in sorted(self._checked_keywords(args)):\n      namedarg = args.namedargs[name]"},
    {"name": "twin-posonly-via-property-and-ifexp", "rule": "R2.7", "file": FUNCTION, "expect": "silent",
     "old": "      if name in self.param_names[: self.posonly_count]:\n        formal = None\n      else:\n        formal = self.annotations.get(name)",
     "new": "      formal = None if name in self.posonly_params else self.annotations.get(name)"},
    {"name": "twin-lookup-under-negated-guard", "rule": "R2.7", "file": FUNCTION, "expect": "silent",
     "old": "      if name in self.param_names[: self.posonly_count]:\n        formal = None\n      else:\n        formal = self.annotations.get(name)",
     "new": "      formal = None\n      posonly = set(self.param_names[: self.posonly_count])\n      if name not in posonly:\n        formal = self.annotations.get(name)"},
    {"name": "twin-positive-guard-over-all-keyword-bindable", "rule": "R2.7", "file": FUNCTION, "expect": "silent",
     "old": "      if name in self.param_names[: self.posonly_count]:\n        formal = None\n      else:\n        formal = self.annotations.get(name)",
     "new": "      if name in self.param_names[self.posonly_count :] + self.kwonly_params:\n        formal = self.annotations.get(name)\n      else:\n        formal = None"},
    {"name": "twin-annotations-alias", "rule": "R2.7", "expect": "silent",
     "edits": [(FUNCTION, "    for name in sorted(args.namedargs):\n      namedarg = args.namedargs[name]",
                "    annots = self.annotations\n    for name in sorted(args.namedargs):\n      namedarg = args.namedargs[name]"),
               (FUNCTION, "      else:\n        formal = self.annotations.get(name)\n      if formal is None and self.kwargs_name:",
                "      else:\n        formal = annots.get(name, None)\n      if formal is None and self.kwargs_name:")]},
    {"name": "formal-from-unknown-helper", "rule": "R2.7", "file": FUNCTION, "expect": "error",
     "old": "      else:\n        formal = self.annotations.get(name)\n      if formal is None and self.kwargs_name:",
     "new": "      else:\n        formal = self._formal_of(name)\n      if formal is None and self.kwargs_name:"},
    {"name": "twin-items-loop", "rule": "R2.7", "file": FUNCTION, "expect": "silent",
     "old": "    for name in sorted(args.namedargs):\n      namedarg = args.namedargs[name]",
     "new": "    for name, namedarg in sorted(args.namedargs.items()):"},
]

EXPLANATION += (
    " R2.25/R2.26 (rules/c02_stores.py): the annotations table a *global* store consults is not constantly None on any path that does not itself ask a table whether it knows the name (D61, repaired: module-level STORE_GLOBAL is recorded like STORE_NAME, a global stored from a function is looked up in the module's table); STORE_DEREF hands the current frame's table to _apply_annotation for every cell slot although the opcode also stores free variables (`nonlocal y`), whose annotation lives in the enclosing function's table (known finding D62)."
)
ASSUMPTIONS += [
    "R2.25/R2.26 follow the VM's store handlers through self.<method>() calls with constant-argument propagation; a table obtained through any other indirection is an ANALYSIS-ERROR.",
]

# rules/c02_element_loops.py (R2.27)
EXPLANATION += (
    "  R2.27 (rules/c02_element_loops.py) every 'all components must match' "
    "loop of matcher.py - found by role: a `for` loop in a class of the file "
    "whose body hands a value derived from the loop variable to a matcher "
    "method (`self.<..match..>(..)`, or a self-helper that forwards a "
    "parameter to one) and contains a failure exit (`return None`, `return "
    "<name known to be None>`, `raise`); today the loops over the elements "
    "of a concrete tuple (fixed-length, homogeneous and tuple-instance "
    "targets), over an instance's type parameters, a callable's / "
    "signature's arguments, a protocol's attributes, a TypeVar's constraints "
    "and the arguments of a call - is enumerated path by path (if-nesting, "
    "guard clauses; assignments in order, so that `x is None` facts and what "
    "derives from the loop variable are known per path; contradictory paths "
    "dropped): a path that goes on to the next component must have passed a "
    "value derived from the component to a matcher method, or have fed a "
    "value derived from it into a local the function reads after the loop "
    "(the accumulated substitution); a `return` inside the body must return "
    "None.  A path that only looks at the component (its class, a flag, its "
    "index, a set of things already seen) and continues is a violation: the "
    "component was accepted without being matched.  Blind spots: loops whose "
    "matching sits in a nested loop / try / match block are not instances; a "
    "path that re-uses a stored result looked up under a key derived from "
    "the component counts as 'derived from the component' (a per-loop memo "
    "keyed by something coarser than the component is not detected); a match "
    "whose failure is ignored (result None not leading to the failure exit) "
    "is not reported; `break` out of such a loop is an analysis error.")
ASSUMPTIONS += [
    "R2.27: a method of the matcher class whose name contains `match` puts "
    "its arguments to the matcher; locals of the loop body are not aliased "
    "through containers",
]
EXPLANATION += (
    "  R2.28 (rules/c02_return_exempt.py): the flag `frame.check_return` that "
    "R2.3's return site obeys may be False for a function with a declared "
    "return type only if the callee is a stub: the abstract method itself "
    "(self.is_abstract) or an attribute of a class called on a receiver "
    "whose class is a protocol.  Every store to an attribute named "
    "check_return outside an __init__ (today one, in InterpreterFunction."
    "call) is decided by *executing* the backward slice of the stored value "
    "and of the `if` tests around the store (rules/_minieval.py extended "
    "with lambdas; module-local helpers such as _check_classes and methods "
    "of the same class are interpreted) in 36 worlds: callee.is_abstract x "
    "callee.is_attribute_of_class x receiver in {none, instance, class} x "
    "receiver class is_abstract x is_protocol, with has_return_annotation "
    "true; `not stored or stored falsy` must imply `stub`.  The spelling of "
    "the condition is irrelevant (De Morgan, if/elif/else, helper method); a "
    "condition that reads anything the worlds do not model is an analysis "
    "error.  Blind spots of R2.28: the opposite direction (a stub that is "
    "checked) is not required; receivers with several values of different "
    "classes are not enumerated; that is_abstract / is_protocol / "
    "is_attribute_of_class themselves are computed correctly is assumed; "
    "the local that holds the receiver is recognised by its source "
    "`<sig>.get_self_arg(..)`.")
ASSUMPTIONS += [
    "R2.28: Function.is_abstract marks the abstract method itself, "
    "Class.is_abstract a class with unimplemented abstract methods, "
    "Class.is_protocol a typing.Protocol class; a frame whose check_return "
    "stays False is never return-checked (state.Frame default, R2.3)",
]
