"""C10 / R10.23 - every linearisation a merging function returns comes out of
the C3 merge.

R10.1 decides the rows of every `MROMerge` call; it says nothing about a path
through the enclosing function that returns WITHOUT reaching the call (a
"the first base already linearises the others" shortcut returns
`(cls,) + bases[0].mro` and never sees that the listed order contradicts the
inherited one).  The obligation: in every function that contains an MROMerge
call (and every same-module function that returns the result of one), each
`return E` is

  * a merge value - the MROMerge call itself, looked through tuple()/list(),
    one-generator element-wise comprehensions over it, conditional
    expressions (both arms), locals (ALL reaching definitions), the memo the
    function itself stores merge values into (`mros[t]`, `self._mro`: every
    store in the function - for attributes in the class - is a merge value,
    the trivial row, None or empty), and calls of merging functions of the
    same module (recursion, `self.helper(..)`); or
  * the trivial linearisation `[cls]` / `(cls,)` of the function's first
    parameter (a class without bases to merge); or
  * None / nothing.

A return value built from a base's linearisation (`.mro`, `.mro()`, a call of
a merging function inside a larger expression) or from the bases without the
merge is a violation; any other expression is an analysis error.
"""
import ast

from sa.core import rule, AnalysisError
from sa.pyindex import get_module, dotted, src, calls_in, walk_no_nested
from rules import c10 as C
from rules import _util_c13c02c10 as U

MIXIN = C.MIXIN
MRO = C.MRO


def _merging_functions(ctx, mod):
  """{def node: qualified name}: functions containing an MROMerge call, plus
  (closure) same-module functions one of whose returns is a call of one."""
  out = {}
  for call in C._merge_calls(mod):
    fn = mod.enclosing_function(call)
    if fn is None or isinstance(fn, ast.Lambda):
      raise AnalysisError(f"{mod.rel}: MROMerge call outside a function")
    out[fn] = C._qualname(mod, fn)
  all_fns = [n for n in ast.walk(mod.tree)
             if isinstance(n, (ast.FunctionDef, ast.AsyncFunctionDef))]
  changed = True
  while changed:
    changed = False
    names = {f.name for f in out}
    for fn in all_fns:
      if fn in out:
        continue
      for r in walk_no_nested(fn):
        if isinstance(r, ast.Return) and r.value is not None:
          v = _strip(r.value)
          if isinstance(v, ast.Call) and _callee_name(v, fn) in names and \
              _resolve_callee(mod, fn, v, out) is not None:
            out[fn] = C._qualname(mod, fn)
            changed = True
            break
  return out


def _strip(e):
  while isinstance(e, ast.Call) and isinstance(e.func, ast.Name) and \
      e.func.id in ("tuple", "list") and len(e.args) == 1 and not e.keywords \
      and not isinstance(e.args[0], ast.Starred):
    e = e.args[0]
  return e


def _first_param(fn):
  ps = fn.args.posonlyargs + fn.args.args
  return ps[0].arg if ps else None


def _callee_name(call, fn):
  f = call.func
  if isinstance(f, ast.Name):
    return f.id
  if isinstance(f, ast.Attribute) and isinstance(f.value, ast.Name) and \
      f.value.id == _first_param(fn):
    return f.attr
  return None


def _resolve_callee(mod, fn, call, merging):
  """The merging function of this module a call denotes, or None."""
  f = call.func
  if isinstance(f, ast.Name):
    g = mod.functions.get(f.id)
    return g if g in merging else None
  owner = C._owner_class(mod, fn)
  if owner is not None and isinstance(f, ast.Attribute) and \
      isinstance(f.value, ast.Name) and f.value.id == _first_param(fn):
    try:
      _, g = U.resolve_method(mod, owner, f.attr)
    except AnalysisError:
      return None
    return g if g in merging else None
  return None


def _is_trivial(e, fn):
  """[cls] / (cls,) of the first parameter."""
  p = _first_param(fn)
  return isinstance(e, (ast.List, ast.Tuple)) and len(e.elts) == 1 and \
      isinstance(e.elts[0], ast.Name) and e.elts[0].id == p


def _is_nothing(e):
  return e is None or (isinstance(e, ast.Constant) and e.value is None) or (
      isinstance(e, (ast.List, ast.Tuple)) and not e.elts)


def _memo_key(e):
  """`mros[..]` -> ('sub', 'mros'); `self._mro` -> ('attr', 'self._mro')."""
  if isinstance(e, ast.Subscript) and isinstance(e.value, ast.Name):
    return ("sub", e.value.id)
  if isinstance(e, ast.Attribute) and isinstance(e.value, ast.Name):
    return ("attr", f"{e.value.id}.{e.attr}")
  return None


def _memo_stores(mod, fn, key):
  """Values stored under a memo key: in the function, and for an attribute of
  the first parameter in every method of the owning class."""
  scopes = [fn]
  owner = C._owner_class(mod, fn)
  if key[0] == "attr" and owner is not None and \
      key[1].split(".")[0] == _first_param(fn):
    scopes = [m for m in mod.methods(owner).values()]
    if fn not in scopes:
      scopes.append(fn)
  out = []
  for sc in scopes:
    attr = key[1].split(".")[-1]
    selfname = _first_param(sc)
    for n in ast.walk(sc):
      tgts, val = [], None
      if isinstance(n, ast.Assign):
        tgts, val = n.targets, n.value
      elif isinstance(n, ast.AnnAssign):
        tgts, val = [n.target], n.value
      elif isinstance(n, ast.AugAssign):
        tgts, val = [n.target], n
      for t in tgts:
        k = _memo_key(t)
        if k is None:
          continue
        if key[0] == "attr":
          hit = k[0] == "attr" and k[1] == f"{selfname}.{attr}"
        else:
          hit = sc is fn and k == key
        if hit:
          out.append((sc, n, val))
  return out


class _Decider:
  def __init__(self, ctx, mod, fn, merging):
    self.ctx, self.mod, self.fn, self.merging = ctx, mod, fn, merging
    self.defs = C._defs(ctx, mod, fn)

  def kind(self, e, stmt, depth=0, seen=()):
    """'merge' | 'trivial' | 'nothing' | ('bypass', why) | None (unknown)."""
    fn, mod = self.fn, self.mod
    if depth > 8:
      return None
    if _is_nothing(e):
      return "nothing"
    if isinstance(stmt, ast.stmt) and self._fallback(stmt):
      return "merge"
    if _is_trivial(e, fn):
      return "trivial"
    e = _strip(e)
    if _is_trivial(e, fn):
      return "trivial"
    if isinstance(e, ast.Call):
      d = dotted(e.func) or ""
      if d.split(".")[-1] == "MROMerge":
        return "merge"
      if _resolve_callee(mod, fn, e, self.merging) is not None:
        return "merge"
      return self._other(e)
    if isinstance(e, (ast.GeneratorExp, ast.ListComp)):
      if len(e.generators) == 1 and not e.generators[0].is_async:
        k = self.kind(e.generators[0].iter, stmt, depth + 1, seen)
        if k == "merge":
          return "merge"
      return self._other(e)
    if isinstance(e, ast.IfExp):
      return self._join([self.kind(e.body, stmt, depth + 1, seen),
                         self.kind(e.orelse, stmt, depth + 1, seen)])
    if isinstance(e, ast.Name):
      if (e.id, id(stmt)) in seen:
        return "nothing"
      ds = self.defs.at(e.id, stmt)
      if not ds:
        return None
      kinds = []
      for d in ds:
        if d == "param":
          return self._other(e)
        if isinstance(d, ast.Assign) and all(
            isinstance(t, (ast.Name, ast.Attribute, ast.Subscript))
            for t in d.targets):
          kinds.append(self.kind(d.value, d, depth + 1,
                                 seen + ((e.id, id(stmt)),)))
        elif isinstance(d, ast.AnnAssign) and d.value is not None:
          kinds.append(self.kind(d.value, d, depth + 1,
                                 seen + ((e.id, id(stmt)),)))
        else:
          return None
      return self._join(kinds)
    key = _memo_key(e)
    if key is not None and isinstance(e.ctx, ast.Load):
      stores = _memo_stores(mod, fn, key)
      if ("memo",) + key in seen:
        return "nothing"
      if not stores:
        k = self._handed_down(key, depth, seen)
        return k if k is not None else self._other(e)
      kinds = []
      for sc, st, val in stores:
        if isinstance(val, ast.AugAssign):
          return None
        if sc is fn:
          kinds.append(self.kind(val, st, depth + 1, seen + (("memo",) + key,)))
        else:
          # another method of the class: only the empty initialisation
          kinds.append("nothing" if _is_nothing(val) else None)
      k = self._join(kinds)
      return k
    return self._other(e)

  def _join(self, kinds):
    for k in kinds:
      if isinstance(k, tuple):
        return k
    if None in kinds:
      return None
    if "merge" in kinds:
      return "merge"
    if "trivial" in kinds:
      return "trivial"
    return "nothing"

  def _is_merge_call(self, n):
    return isinstance(n, ast.Call) and (
        (dotted(n.func) or "").split(".")[-1] == "MROMerge"
        or _resolve_callee(self.mod, self.fn, n, self.merging) is not None)

  def _other(self, e):
    """An expression that is not a merge value.  Built only from displays,
    `+`, tuple()/list(), names, attributes, subscripts and slices (or reading a
    `.mro`): a sequence assembled without the merge - a bypass; a merge result
    concatenated with further rows: a bypass; anything that involves a call
    the rule does not know: unknown."""
    for n in ast.walk(e):
      if isinstance(n, ast.Attribute) and n.attr == "mro":
        return ("bypass", f"`{src(n)}` (a linearisation) is used outside the merge")
    for n in ast.walk(e):
      if isinstance(n, ast.BinOp) and isinstance(n.op, ast.Add) and any(
          self._is_merge_call(c) for c in ast.walk(n)) and not any(
              isinstance(c, ast.Call) and not self._is_merge_call(c)
              and not (isinstance(c.func, ast.Name) and c.func.id in ("tuple", "list"))
              for c in ast.walk(n)):
        return ("bypass", f"the merge result is concatenated with further rows "
                          f"after the merge in `{src(n)[:80]}`")
    for n in ast.walk(e):
      if isinstance(n, ast.Call) and not (
          isinstance(n.func, ast.Name) and n.func.id in ("tuple", "list")):
        return None
      if isinstance(n, (ast.Lambda, ast.Await, ast.Yield, ast.YieldFrom,
                        ast.NamedExpr, ast.Compare, ast.BoolOp)):
        return None
    if isinstance(e, ast.Constant):
      return None
    return ("bypass", f"`{src(e)[:80]}` is a sequence assembled without the merge")

  def _fallback(self, stmt):
    """Is stmt inside `except ..MROError..` of a try whose body contains a
    merge call?  (the linearisation substituted after the merge FAILED)"""
    child, cur = stmt, self.mod.parent.get(stmt)
    while cur is not None and cur is not self.fn:
      if isinstance(cur, ast.ExceptHandler):
        t = self.mod.parent.get(cur)
        if isinstance(t, ast.Try) and "MROError" in C._handler_types(cur) and any(
            self._is_merge_call(c) for st in t.body for c in ast.walk(st)):
          return True
      child, cur = cur, self.mod.parent.get(cur)
    return False

  def _handed_down(self, key, depth, seen):
    """Stores into a memo that is a parameter of this function, made by the
    merging functions of the module that take a parameter of the same name."""
    name = key[1]
    a = self.fn.args
    if key[0] != "sub" or name not in [x.arg for x in a.posonlyargs + a.args + a.kwonlyargs]:
      return None
    kinds = []
    for g in self.merging:
      if g is self.fn:
        continue
      ga = g.args
      if name not in [x.arg for x in ga.posonlyargs + ga.args + ga.kwonlyargs]:
        continue
      other = _Decider(self.ctx, self.mod, g, self.merging)
      for sc, st, val in _memo_stores(self.mod, g, key):
        if isinstance(val, ast.AugAssign):
          return None
        kinds.append(other.kind(val, st, depth + 1, seen + (("memo",) + key,)))
    return self._join(kinds) if kinds else None


@rule("R10.23", "C10", floor=4)
def r10_23(ctx):
  """Every return of a merging function is a merge value, the trivial row of
  the class itself, or nothing."""
  for rel in C._merge_files(ctx):
    mod = get_module(ctx, rel)
    merging = _merging_functions(ctx, mod)
    for fn, qual in sorted(merging.items(), key=lambda kv: kv[0].lineno):
      if rel == MRO and qual == "MROMerge":
        raise AnalysisError("MROMerge calls itself")
      dec = _Decider(ctx, mod, fn, merging)
      rets = [n for n in walk_no_nested(fn) if isinstance(n, ast.Return)]
      facts = {"returns": []}
      bad = None
      for r in sorted(rets, key=lambda n: n.lineno):
        k = dec.kind(r.value, r)
        if k is None:
          raise AnalysisError(
              f"{qual}: the value returned at line {r.lineno} "
              f"(`{src(r.value)[:80]}`) could not be related to the C3 merge")
        if isinstance(k, tuple):
          facts["returns"].append(f"bypass:{src(r.value)[:60]}")
          bad = bad or (r, k[1])
        else:
          facts["returns"].append(f"{k}:{src(r.value)[:60] if r.value else ''}")
      if bad is None and not any(x.startswith("merge:") for x in facts["returns"]):
        raise AnalysisError(f"{qual}: no return carries the merge result")
      construct = f"{qual}:every-return-merges"
      if bad is None:
        ctx.ok(construct, rel, fn.lineno, facts)
      else:
        r, why = bad
        ctx.bad(construct, rel, r.lineno,
                f"{qual} returns `{src(r.value)[:100]}` on a path that does not "
                f"go through MROMerge: {why}; a linearisation that is not the "
                "C3 merge of all base linearisations and the bases row is never "
                "checked for consistency (CPython raises TypeError for class "
                "D(B, A1, A2) with class B(A2, A1); the shortcut would answer "
                "(D,) + B.__mro__)", facts)


VARIANTS = [
    {"name": "seeded-C10-r4m1", "rule": "R10.23", "patch": "seeded/C10-r4m1/patch.diff",
     "expect": "fire"},
    {"name": "single-base-shortcut", "rule": "R10.23", "file": MIXIN, "expect": "fire",
     "old": "    bases = [[self]] + [list(base.mro) for base in bases] + [list(bases)]\n",
     "new": "    if len(bases) == 1:\n      return (self,) + tuple(bases[0].mro)\n    bases = [[self]] + [list(base.mro) for base in bases] + [list(bases)]\n"},
    {"name": "shortcut-through-local-result", "rule": "R10.23", "file": MIXIN, "expect": "fire",
     "old": "    return tuple(base2cls[base] for base in mro.MROMerge(newbases))\n",
     "new": "    if len(newbases) == 3:\n      result = [self] + newbases[1]\n    else:\n      result = mro.MROMerge(newbases)\n    return tuple(base2cls[base] for base in result)\n"},
    {"name": "pytd-single-base-returns-its-mro", "rule": "R10.23", "file": MRO, "expect": "fire",
     "old": "  return tuple(MROMerge(base_mros + [_Degenerify(cls.bases)]))\n",
     "new": "  if len(base_mros) == 1:\n    return tuple(base_mros[0])\n  return tuple(MROMerge(base_mros + [_Degenerify(cls.bases)]))\n"},
    {"name": "pytd-memo-filled-without-merge", "rule": "R10.23", "file": MRO, "expect": "fire",
     "old": "      mros[t] = tuple(\n          MROMerge(\n",
     "new": "      if len(base_mros) == 1:\n        mros[t] = (t,) + tuple(base_mros[0])\n        return mros[t]\n      mros[t] = tuple(\n          MROMerge(\n"},
    {"name": "merge-result-extended-after-merge", "rule": "R10.23", "file": MIXIN, "expect": "fire",
     "old": "    return tuple(base2cls[base] for base in mro.MROMerge(newbases))\n",
     "new": "    return tuple(base2cls[base] for base in mro.MROMerge(newbases)) + tuple(newbases[-1])\n"},
    {"name": "twin-result-bound-to-local", "rule": "R10.23", "file": MIXIN, "expect": "silent",
     "old": "    return tuple(base2cls[base] for base in mro.MROMerge(newbases))\n",
     "new": "    merged = mro.MROMerge(newbases)\n    linearised = tuple(base2cls[base] for base in merged)\n    return linearised\n"},
    {"name": "twin-rewrite-returns-the-memo-attribute", "rule": "R10.23", "file": C.REWRITE, "expect": "silent",
     "old": "    self._mro = mro = mro_lib.MROMerge(mro_bases)\n    return mro",
     "new": "    self._mro = mro_lib.MROMerge(mro_bases)\n    return self._mro"},
    {"name": "twin-pytd-bases-result-via-locals", "rule": "R10.23", "file": MRO, "expect": "silent",
     "old": "  return tuple(MROMerge(base_mros + [_Degenerify(cls.bases)]))\n",
     "new": "  merged = MROMerge(base_mros + [_Degenerify(cls.bases)])\n  in_order = tuple(merged)\n  return in_order\n"},
    {"name": "rewrite-memo-prefilled-from-first-base", "rule": "R10.23", "file": C.REWRITE, "expect": "fire",
     "old": "    bases = list(self.bases)\n    obj_type = self._ctx.types[object]",
     "new": "    bases = list(self.bases)\n    if len(bases) == 1:\n      self._mro = [self] + list(bases[0].mro())\n      return self._mro\n    obj_type = self._ctx.types[object]"},
    {"name": "twin-pytd-memo-guard-clause", "rule": "R10.23", "file": MRO, "expect": "silent",
     "old": "  elif isinstance(t, pytd.GenericType):\n    return _ComputeMRO(t.base_type, mros, lookup_ast)\n  else:\n    return [t]\n",
     "new": "  if isinstance(t, pytd.GenericType):\n    return _ComputeMRO(t.base_type, mros, lookup_ast)\n  return [t]\n"},
    {"name": "return-from-unknown-helper", "rule": "R10.23", "file": MIXIN, "expect": "error",
     "old": "    bases = [[self]] + [list(base.mro) for base in bases] + [list(bases)]\n",
     "new": "    if len(bases) == 1:\n      return abstract_utils.single_chain(self)\n    bases = [[self]] + [list(base.mro) for base in bases] + [list(bases)]\n"},
]
