"""C01 - inferred types admit every run-time value: the soundness guard rails.

Decides: branch polarity tables, complement involution, "unknown means may"
defaults, comparison table, overflow widening to Any, and that the stub
optimiser absorbs union members only into their superclasses.  Does NOT decide
the soundness of the abstract interpreter's transfer functions.
"""
import ast
import dis

from sa.core import rule, AnalysisError
from sa.pyindex import get_module, dotted, src, kwarg, calls_in, try_fold
from sa import flow
from rules import c11 as _c11  # R1.6 shares the hierarchy-direction analysis
from rules import _minieval as _me
from rules import _util_c11c01 as _u

EXPLANATION = (
    "Static guard-rail rules for inference soundness, evaluated on the AST of "
    "vm.py, vm_utils.py, state.py, compare.py, pytd/slots.py, tracer_vm.py, "
    "context.py, pytd/optimize.py, io.py and the clang AST of typegraph.cc: "
    "R1.1 every conditional-jump handler passes the polarity its opcode name "
    "states to vm_utils.jump_if; R1.2 jump_if derives the fall-through value "
    "as the exact complement (involution without fixed point) and restricts "
    "the same variable on both sides; R1.3 abstract predicates default to "
    "'may' and restrict_condition returns 'no restriction' exactly when no "
    "binding was rejected; R1.4 the comparison table maps each operator "
    "string to a lambda using that operator; R1.5 binding-count overflow and "
    "long unions widen to Any.  These are necessary conditions: breaking any "
    "one makes inference drop a value that occurs at run time.  The "
    "interpreter's transfer functions themselves are not decided.  How: "
    "R1.1 resolves the byte_* handlers through module-local base classes of "
    "VirtualMachine (a private opcode mixin) and follows `return "
    "self.<helper>(..)` / `self.byte_X(..)` delegation to the one jump_if "
    "call, replacing the delegate's parameters by the caller's arguments "
    "(defaults included), so the value judged is the one that reaches "
    "jump_if.  R1.2 and the restrict_condition / _match_condition part of "
    "R1.3 are decided by small-scope exhaustive evaluation instead of by the "
    "shape of the code: the functions are interpreted from their AST "
    "(rules/_minieval.py; module-local helpers are followed, nothing from "
    "/repo is imported or run) in a world of opaque records.  jump_if is run "
    "for every jump value (True, False, None, NOT_NONE) x pop behaviour x "
    "outcome (unsatisfiable / unrestricted / a Condition) of the two "
    "restrict_condition calls, 108 runs; demanded: the two calls ask about "
    "the same node and variable, one about jump_if_val and one about its "
    "exact complement; store_jump(op.target, s) happens exactly when the "
    "jump_if_val answer is satisfiable, with s derived by "
    "forward_cfg_node(.., <that answer's binding>); the returned state "
    "is set_why(..) / forward_cfg_node(.., <binding>) according "
    "to the complement's answer (node labels and the why-text are not judged); a crash (AttributeError on the "
    "UNSATISFIABLE sentinel, failed assert) on such a run is a violation.  "
    "restrict_condition is run on every vector of 0..3 bindings x 4 "
    "conditions with compare.compatible_with / compatible_with_none "
    "answering from a table: None exactly when all of >= 1 bindings match, "
    "UNSATISFIABLE exactly when none does, otherwise Condition(node, [[b] "
    "for the matching b, in order]), each binding matched against the given "
    "condition; _match_condition must consult compatible_with(value, c) for "
    "a bool c, compatible_with_none(value) for None and the NoneType name "
    "test for NOT_NONE.  Loops, comprehensions, guard clauses, early "
    "returns and extracted helpers are therefore all the same to these "
    "rules; a construct outside the interpreted fragment is an analysis "
    "error.  The Empty -> Any arm (R1.3) and the Optimize call of "
    "generate_pyi_ast (R1.5) are also found in methods / module-local "
    "helpers the anchor calls; a vanished Empty arm is an analysis error, an "
    "arm assigning anything but AnythingType a violation.")
ASSUMPTIONS = [
    "opcode names state the CPython jump polarity (checked against the host "
    "CPython `dis`/`opcode` tables where the opcode exists in 3.12)",
    "only the named guard rails are decided; per-opcode stack effects, "
    "convert.py, output.py, attribute.py and the matcher are out of reach of "
    "a static argument",
    "world model of R1.2/R1.3's evaluation: FrameState.pop/top/"
    "pop_and_discard/set_why/forward_cfg_node return fresh states and do "
    "nothing else jump_if depends on; states and Condition objects are "
    "truthy; state.UNSATISFIABLE and state.NOT_NONE are attribute-less "
    "`object()` sentinels (checked); PopBehavior has exactly the members "
    "NONE, OR, ALWAYS (checked); three bindings are enough to tell "
    "all/some/none apart",
]
# rules/c01_flags.py (R1.20, R1.21)
EXPLANATION += (
    "  R1.20 (rules/c01_flags.py) class-wide facts are MRO-wide: every "
    "iteration over an MRO in abstract/class_mixin.py ranges over the whole "
    "`X.mro` (forward/reversed) or all proper ancestors `X.mro[1:]` - another "
    "slice or a single element picked by index (other than [0]/[-1]) is a "
    "violation, because the tail of a C3 linearisation is not the "
    "linearisation of its first element; and the class flag "
    "compare.compatible_with trusts for 'always truthy' (read off the guard "
    "of its `return logical_value`) is produced in class_mixin.py by an "
    "own-attribute test for BOTH __bool__ and __len__ on every element of the "
    "full self.mro (loop or any(..) form), or copied from self.base_cls of a "
    "ParameterizedClass; copying the flag cached on mro[k] / a base is a "
    "violation.  R1.21 handing out a member variable invalidates the owner's "
    "deep memo: SimpleValue.update_caches resets every memo field that "
    "get_fullhash / get_type_key fill, `force` bypasses the change-stamp "
    "comparison, and in attribute.py every `return .., obj.members[..]` "
    "(also through a local, by reaching definitions) is dominated by "
    "obj.update_caches(force=<true constant>) on the same object.  Blind "
    "spots: R1.20(b) understands loop / any() scans with `in "
    "X.get_own_attributes()`, `&`, .intersection/.isdisjoint tests, anything "
    "else is an analysis error; the flag is read off the guards of `return "
    "<logical value>` in compare.compatible_with or in a module-local "
    "helper it hands the logical value to, through not / and / or (De "
    "Morgan) and a local bound once to `<value>.cls`; own-table tests elsewhere in the package "
    "(overlays) are not inventoried - most are intentionally 'defined "
    "here'.  R1.21 is a necessary condition of a protocol that is itself "
    "incomplete: the memoised full hash descends into member values while "
    "the change stamps that validate it are one level deep, so a nested "
    "object mutated through a reference obtained BEFORE the memo was taken "
    "(`i = o.inner; f(o); i.x = 'text'; f(o)`) is not noticed - true of "
    "today's tree (second call answered from the call cache, `int` inferred "
    "for a str); the rule that states this (R1.22, rules/c01_deep_memo.py) is "
    "active and its one violation on today's tree is reported as known "
    "finding D54 (key R1.22:SimpleValue.get_fullhash:deep-digest-validated-"
    "by-shallow-stamp in known_findings.json).")
ASSUMPTIONS += [
    "R1.20: truthiness of an instance is decided by __bool__, then __len__ "
    "(data model); Class.get_own_attributes() is the own-member table of a "
    "class; non-Class MRO entries (Unsolvable/Unknown) may be skipped",
    "R1.21: attribute._get_member is the only place that hands a member "
    "Variable of an arbitrary object to the VM for reading (functions of "
    "attribute.py returning `<param>.members[..]` are searched, other "
    "modules are not)",
]
# rules/c01_containers.py (R1.23, R1.24)
EXPLANATION += (
    "  R1.23 (rules/c01_containers.py) the `is_concrete` flag of abstract.Dict "
    "/ abstract.List ('pyval is all the container holds', trusted by "
    "compare.compatible_with, contains_slot, _compare_dict and the getitem "
    "slots to answer definitely) may not lie: (a) every store to "
    "`<x>.is_concrete` in the package outside __init__ / init_mixin lowers "
    "it (`= False`, `&= E`, `= <same>.is_concrete and E`); `= True`, `|=`, "
    "`or`, or a copy of another object's flag is a violation, any other "
    "form an analysis error; (b) each method of a flag class of "
    "abstract/_instances.py that reads `<param>.get_instance_type_parameter` "
    "(today Dict.update) is evaluated from its AST (rules/_minieval, methods "
    "of the class followed, inherited ones answered by the world model) for "
    "the receiver's flag in {True with / without contents, False} x the "
    "argument being a native container, a concrete instance of the class, a "
    "NON-concrete instance of the class, a non-class instance of the builtin, "
    "an instance of another class, a non-instance, and must end with "
    "flag_after => flag_before and (argument native or concrete); so `&=`, "
    "`and`, a guard clause, a helper method are the same, and dropping the "
    "conjunction for any kind of argument is a violation.  R1.24 (same "
    "module) constant_folding.build_folded_type is evaluated (its nested "
    "helpers as closures over the call's parameters) on folded constants "
    "produced by a model of the folder - lists of 3, MAX_VAR_SIZE-1, "
    "MAX_VAR_SIZE, MAX_VAR_SIZE+6 elements whose odd type sits at the tail / "
    "front / nowhere with primitive, tuple, list and dict elements, sets, "
    "short and long dicts, nestings - in a world where ctx.convert.build_* / "
    "constant_to_var / merge_instance_type_params record the types they are "
    "given; the recorded type of the result must admit every element "
    "typestruct of the constant at every level (46 constants).  Blind spots: "
    "R1.23(b) finds merging methods by the get_instance_type_parameter read "
    "of a parameter; contents copied another way (vm.byte_LIST_EXTEND's "
    "pyval.extend, byte_DICT_UPDATE's set_str_item loop) are guarded there by "
    "is_concrete_list / is_concrete_dict tests that are not inventoried; "
    "whether pyval really mirrors the run-time contents after builtin "
    "mutators that pytype does not intercept (dict.clear / popitem, list.pop "
    "/ reverse / remove / sort) is NOT covered - it does not on today's "
    "tree, see rules/pending_c01_stale_pyval.py; R1.24 judges the element "
    "TYPE of the result only - that a truncated list still presents its "
    "placeholder elements as indexable values is the subject of "
    "rules/pending_c01_folded_prefix.py.")
ASSUMPTIONS += [
    "R1.23: an abstract value that is not a Dict/List has is_concrete False "
    "(BaseValue.__init__, checked as a flag write); a native Python dict / "
    "list handed to a merging method (kwargs) is fully known",
    "R1.24: the model of the folder follows the typestruct format documented "
    "at the top of constant_folding.py (elements of a LOAD_CONST tuple are "
    "typestructs, of a list / set folded constants, of a map a dict of "
    "folded constants); ctx.convert.build_list / build_tuple / "
    "build_collection_of_type / build_content produce values whose type is "
    "the union of what they are given",
]

VM = "pytype/vm.py"


def _polarity_from_name(name):
  """Expected (jump_if_val, pop) stated by the opcode name."""
  if name == "JUMP_IF_NOT_EXC_MATCH":
    return "False", "ALWAYS"
  if name.endswith("_IF_NOT_NONE"):
    val = "NOT_NONE"
  elif name.endswith("_IF_NONE"):
    val = "None"
  elif "_IF_TRUE" in name:
    val = "True"
  elif "_IF_FALSE" in name:
    val = "False"
  else:
    return None
  if name.endswith("_OR_POP"):
    pop = "OR"
  elif name.startswith("POP_JUMP"):
    pop = "ALWAYS"
  else:
    pop = "NONE"
  return val, pop


def _val_name(node):
  if node is None:
    return None
  if isinstance(node, ast.Constant):
    return repr(node.value)
  d = dotted(node)
  return d.split(".")[-1] if d else src(node)


def _is_jump_if(call):
  return (dotted(call.func) or "").endswith("jump_if")


def _deref_local(fn, node):
  """A bare local name bound exactly once in `fn` stands for its value;
  parameters stay (the caller substitutes them); any other bare name is not
  understood."""
  for _ in range(4):
    if not isinstance(node, ast.Name):
      return node
    params = {a.arg for a in fn.args.posonlyargs + fn.args.args + fn.args.kwonlyargs}
    if node.id in params:
      return node
    vals = [n.value for n in ast.walk(fn) if isinstance(n, ast.Assign)
            and any(isinstance(x, ast.Name) and x.id == node.id
                    for tg in n.targets for x in ast.walk(tg))]
    other = [n for n in ast.walk(fn) if isinstance(n, ast.Name) and n.id == node.id
             and not isinstance(n.ctx, ast.Load)]
    if len(vals) != 1 or len(other) != 1:
      raise AnalysisError(
          f"{fn.name}: the value `{node.id}` handed to jump_if is not a "
          "parameter, a constant or a local bound once")
    node = vals[0]
  return node


def _resolve_jump_args(methods, name, seen=()):
  """(jump_if_val node, pop node or None) the handler `name` hands to
  vm_utils.jump_if, following `self.<method>(..)` delegation (sibling byte_
  handlers, shared private helpers; methods resolved through the module-local
  MRO) with the delegate's parameters replaced by the caller's arguments."""
  if name in seen or name not in methods:
    return None
  fn = methods[name]
  calls = [c for c in calls_in(fn) if _is_jump_if(c)]
  if len(calls) == 1:
    return tuple(_deref_local(fn, x) for x in
                 (kwarg(calls[0], "jump_if_val"), kwarg(calls[0], "pop")))
  if calls:
    return None
  for c in calls_in(fn):
    d = dotted(c.func) or ""
    if not (d.startswith("self.") and d.count(".") == 1):
      continue
    callee = d[len("self."):]
    par = None
    if not callee.startswith("byte_"):
      # a shared helper: only when the handler returns its result
      par = [n for n in ast.walk(fn) if isinstance(n, ast.Return) and n.value is c]
      if not par:
        continue
    r = _resolve_jump_args(methods, callee, seen + (name,))
    if r is None:
      continue
    binding = _u.bind_call(methods[callee], c, skip_self=True)
    if binding is None:
      return None
    return tuple(_deref_local(fn, binding.get(x.id, x)) if isinstance(x, ast.Name)
                 else x for x in r)
  return None


@rule("R1.1", "C01", floor=17)
def r1_1(ctx):
  """Conditional-jump handlers pass the polarity their opcode name states."""
  mod = get_module(ctx, VM)
  methods = _u.methods_mro(mod, "VirtualMachine")
  for name, fn in sorted(methods.items()):
    if not name.startswith("byte_"):
      continue
    op = name[len("byte_"):]
    expect = _polarity_from_name(op)
    if expect is None or "JUMP" not in op:
      continue
    got = _resolve_jump_args(methods, name)
    if got is None:
      ctx.bad(op, VM, fn.lineno,
              "conditional-jump handler does not reach vm_utils.jump_if")
      continue
    got_val = _val_name(got[0])
    popn = got[1]
    got_pop = _val_name(popn) if popn is not None else "NONE"
    facts = {"expected": expect, "jump_if_val": got_val, "pop": got_pop}
    ctx.check((got_val, got_pop) == expect, op, VM, fn.lineno,
              f"handler passes jump_if_val={got_val}, pop={got_pop} but the "
              f"opcode name states {expect}", facts)


# -- R1.2: vm_utils.jump_if, decided by small-scope evaluation ----------------------------------

def _same(a, b):
  """Identity for sentinels, equality of type and value for True/False/None."""
  return a is b


def _jump_if_runs(ctx, mod):
  """Evaluates vm_utils.jump_if (rules/_minieval: from its AST, module-local
  helpers followed) for every jump value x pop behaviour x outcome of the two
  restrict_condition calls, in a world of opaque records: FrameState with
  pop/top/pop_and_discard/set_why/forward_cfg_node returning new records that
  remember how they were derived, ctx.vm.store_jump recording its arguments,
  <state module>.restrict_condition answering from a table keyed by the
  condition it is asked about.  -> list of run records."""
  fn = mod.func("jump_if")
  pos = [a.arg for a in fn.args.posonlyargs + fn.args.args]
  kwonly = [a.arg for a in fn.args.kwonlyargs]
  if len(pos) != 3 or "jump_if_val" not in pos + kwonly or "pop" not in pos + kwonly:
    raise AnalysisError("jump_if: signature (state, op, ctx, *, jump_if_val, pop) "
                        "not recognised")
  p_state, p_op, p_ctx = pos
  aliases = {c.func.value.id for f in _u.reachable_functions(mod, fn)
             for c in calls_in(f) if isinstance(c.func, ast.Attribute)
             and c.func.attr == "restrict_condition"
             and isinstance(c.func.value, ast.Name)}
  if len(aliases) != 1:
    raise AnalysisError("jump_if: no `<state module>.restrict_condition(..)` call "
                        f"found (receivers {sorted(aliases)})")
  alias = aliases.pop()
  if not mod.imports.get(alias, "").endswith("state"):
    raise AnalysisError(f"jump_if: `{alias}` is not the imported state module")
  pops = [t.id for st in mod.cls("PopBehavior").body if isinstance(st, ast.Assign)
          for t in st.targets if isinstance(t, ast.Name)]
  if sorted(pops) != ["ALWAYS", "NONE", "OR"]:
    raise AnalysisError(f"PopBehavior members {pops} not understood")
  # `object()` sentinels of state.py: closed records (no attributes)
  not_none = _me.Obj(("closed", "NOT_NONE"))
  unsat = _me.Obj(("closed", "UNSATISFIABLE"))
  pop_objs = {n: _me.Obj((f"PopBehavior.{n}",)) for n in pops}
  value = _me.Obj(("Variable",))
  target = _me.Obj(("Target",))

  def complement(jv):
    if jv is None:
      return not_none
    if jv is not_none:
      return None
    return not jv
  runs = []
  for jv in (True, False, None, not_none):
    for pop in pops:
      for j_kind in ("unsat", "none", "cond"):
        for n_kind in ("unsat", "none", "cond"):
          outcome = {}
          for side, kind in (("J", j_kind), ("N", n_kind)):
            outcome[side] = unsat if kind == "unsat" else None if kind == "none" \
                else _me.Obj(("Condition", side), {"binding": _me.Obj(("Binding", side))})
          rec = {"jv": jv, "pop": pop, "J": outcome["J"], "N": outcome["N"],
                 "restrict": [], "stored": [], "unsat": unsat}

          def mk_state(trace, node):
            st = _me.Obj(("FrameState",), {"node": node, "trace": trace})
            st.methods.update({
                "pop": lambda: (mk_state(trace + (("pop",),), node), value),
                "top": lambda: value,
                "pop_and_discard": lambda: mk_state(trace + (("pop_and_discard",),), node),
                "set_why": lambda why: mk_state(trace + (("why", why),), node),
                "forward_cfg_node": lambda new_name, condition=None: mk_state(
                    trace + (("fwd", new_name, condition),), _me.Obj(("CFGNode",))),
            })
            return st

          def restrict(node, var, cond, rec=rec, jv=jv):
            rec["restrict"].append((node, var, cond))
            if _same(cond, jv):
              return rec["J"]
            return rec["N"]

          def store_jump(tgt, st, rec=rec):
            rec["stored"].append((tgt, st))
          world = {
              alias: _me.Obj(("module state",), {"NOT_NONE": not_none, "UNSATISFIABLE": unsat},
                             {"restrict_condition": restrict}),
              "PopBehavior": _me.Obj(("PopBehavior",), pop_objs),
          }
          node0 = _me.Obj(("CFGNode",))
          s0 = mk_state((), node0)
          rec["node"], rec["value"], rec["target"] = node0, value, target
          run = _u.module_world(mod, world)
          try:
            rec["result"] = run("jump_if", **{
                p_state: s0, p_op: _me.Obj(("Opcode",), {"target": target}),
                p_ctx: _me.Obj(("Context",), {"vm": _me.Obj(("VM",), {}, {"store_jump": store_jump})}),
                "jump_if_val": jv, "pop": pop_objs[pop]})
          except _me.Outside as e:
            raise AnalysisError(f"jump_if uses a construct outside the evaluated "
                                f"fragment: {e}") from e
          except _me.Raised as e:
            # a crash on a legitimate combination (e.g. `.binding` of the
            # UNSATISFIABLE sentinel, a failed assert): the run is judged as
            # it stands, with no result
            if e.name not in ("AttributeError", "AssertionError", "TypeError"):
              raise AnalysisError(
                  f"jump_if(jump_if_val={jv!r}, pop={pop}) raised {e!r} in the "
                  "world model: cannot decide") from e
            rec["result"] = None
            rec["raised"] = e.name
          except _me.Diverged as e:
            raise AnalysisError("jump_if does not terminate in the world model") from e
          rec["complement"] = complement(jv)
          runs.append(rec)
  return runs


def _show(v):
  if isinstance(v, _me.Obj):
    return "/".join(k for k in v.kinds if k != "closed")
  return repr(v)


@rule("R1.2", "C01", floor=5)
def r1_2(ctx):
  """jump_if: normal_val is the complement of jump_if_val; same variable."""
  rel = "pytype/vm_utils.py"
  mod = get_module(ctx, rel)
  fn = mod.func("jump_if")
  runs = _jump_if_runs(ctx, mod)
  # (1) the fall-through side is restricted by the exact complement
  labels = [(None, "None -> NOT_NONE"), ("NOT_NONE", "NOT_NONE -> None"),
            (True, "bool -> negation"), (False, "bool -> negation")]
  seen = {}
  for r in runs:
    jv = r["jv"]
    label = "None -> NOT_NONE" if jv is None else "bool -> negation" \
        if isinstance(jv, bool) else "NOT_NONE -> None"
    conds = [c for _, _, c in r["restrict"]]
    others = [c for c in conds if not _same(c, jv)]
    ok = len(conds) == 2 and len(others) == 1 and _same(others[0], r["complement"])
    e = seen.setdefault(label, {"ok": True, "asked": set()})
    e["ok"] = e["ok"] and ok
    e["asked"].add(f"jump_if_val={_show(jv)}: restrict_condition asked about "
                   f"{[_show(c) for c in conds]}")
  del labels
  for label in ("None -> NOT_NONE", "NOT_NONE -> None", "bool -> negation"):
    e = seen[label]
    ctx.check(e["ok"], f"complement:{label}", rel, fn.lineno,
              "the two restrict_condition calls must ask about jump_if_val and "
              f"its exact complement; observed {sorted(e['asked'])}",
              {"observed": sorted(e["asked"])})
  # (2) same node / variable; each answer is used for its own edge
  bad = []
  for r in runs:
    tag = f"jump_if_val={_show(r['jv'])}, pop={r['pop']}, jump side {_show(r['J'])}, " \
        f"fall-through side {_show(r['N'])}"
    if r.get("raised"):
      bad.append(f"{tag}: jump_if raises {r['raised']}")
      continue
    if any(n is not r["node"] or v is not r["value"] for n, v, _ in r["restrict"]):
      bad.append(f"{tag}: restrict_condition called on another node/variable")
      continue
    res, n = r["result"], r["N"]
    trace = res.attrs.get("trace") if isinstance(res, _me.Obj) else None
    if trace is None:
      bad.append(f"{tag}: result is {_show(res)}, not a frame state")
    elif n is r["unsat"]:
      if not (trace and trace[-1][0] == "why"):
        bad.append(f"{tag}: an unsatisfiable fall-through side must end the block "
                   f"(set_why(..)), result derived by {trace}")
    elif n is not None:
      if not (trace and trace[-1][0] == "fwd" and trace[-1][2] is n.attrs["binding"]):
        bad.append(f"{tag}: the fall-through state must be conditioned on the "
                   f"fall-through side's binding, result derived by {trace}")
    else:
      if any(x[0] == "why" for x in trace) or any(
          x[0] == "fwd" and x[2] is not None for x in trace):
        bad.append(f"{tag}: unrestricted fall-through side, but the result was "
                   f"derived by {trace}")
  ctx.check(not bad, "restrict_condition-pair", rel, fn.lineno,
            "restrict_condition must be asked about the same node and variable "
            "for jump_if_val and normal_val, and the fall-through state must "
            f"come from the normal_val answer: {bad[:3]}",
            {"runs": len(runs), "problems": bad[:5]})
  # (3) the jump edge is stored iff the jump side is satisfiable
  bad = []
  for r in runs:
    tag = f"jump_if_val={_show(r['jv'])}, pop={r['pop']}, jump side {_show(r['J'])}, " \
        f"fall-through side {_show(r['N'])}"
    j = r["J"]
    if r.get("raised"):
      bad.append(f"{tag}: jump_if raises {r['raised']}")
      continue
    if j is r["unsat"]:
      if r["stored"]:
        bad.append(f"{tag}: store_jump called although the jump side is unsatisfiable")
      continue
    if len(r["stored"]) != 1:
      bad.append(f"{tag}: store_jump called {len(r['stored'])} times")
      continue
    tgt, st = r["stored"][0]
    trace = st.attrs.get("trace") if isinstance(st, _me.Obj) else None
    fwd = [x for x in (trace or ()) if x[0] == "fwd"]
    conds = [x[2] for x in fwd if x[2] is not None]
    want = [j.attrs["binding"]] if j is not None else []
    if tgt is not r["target"] or not fwd or \
        len(conds) != len(want) or any(a is not b for a, b in zip(conds, want)):
      bad.append(f"{tag}: store_jump({_show(tgt)}, state derived by {trace})")
  ctx.check(not bad, "jump-edge-guard", rel, fn.lineno,
            "store_jump(op.target, ..) must run exactly when the jump-side "
            "condition is satisfiable, with a state conditioned on the jump "
            f"side's binding: {bad[:3]}", {"runs": len(runs), "problems": bad[:5]})


def _returns(fn):
  return [n for n in ast.walk(fn) if isinstance(n, ast.Return)]


@rule("R1.3", "C01", floor=9)
def r1_3(ctx):
  """Unknown means 'may': default arms return top."""
  # compatible_with: final else returns True
  rel = "pytype/compare.py"
  mod = get_module(ctx, rel)
  fn = mod.func("compatible_with")
  chain = [s for s in fn.body if isinstance(s, ast.If)]
  if not chain:
    raise AnalysisError("compatible_with has no if-chain")
  node = chain[-1]
  while node.orelse and len(node.orelse) == 1 and isinstance(node.orelse[0], ast.If):
    node = node.orelse[0]
  last = node.orelse[-1] if node.orelse else (fn.body[-1] if fn.body[-1] is not chain[-1] else None)
  ok = isinstance(last, ast.Return) and isinstance(last.value, ast.Constant) \
      and last.value.value is True
  ctx.check(ok, "compatible_with:default", rel, getattr(last, "lineno", fn.lineno),
            "the fall-through arm of compatible_with must return True "
            "(ambiguous value may be either)", {"default": src(last) if last else None})
  # cmp_rel: fall-through returns None
  fn = mod.func("cmp_rel")
  node = [s for s in fn.body if isinstance(s, ast.If)][-1]
  while node.orelse and len(node.orelse) == 1 and isinstance(node.orelse[0], ast.If):
    node = node.orelse[0]
  last = node.orelse[-1] if node.orelse else fn.body[-1]
  ok = isinstance(last, ast.Return) and isinstance(last.value, ast.Constant) \
      and last.value.value is None
  ctx.check(ok, "cmp_rel:default", rel, last.lineno,
            "the fall-through arm of cmp_rel must return None (unknown)",
            {"default": src(last)})
  # _is_or_is_not_cmp: final else returns None; Instance arm same-class -> None
  rel = "pytype/state.py"
  mod = get_module(ctx, rel)
  fn = mod.func("_is_or_is_not_cmp")
  node = [s for s in fn.body if isinstance(s, ast.If)][-1]
  arms = []
  while True:
    arms.append(node)
    if node.orelse and len(node.orelse) == 1 and isinstance(node.orelse[0], ast.If):
      node = node.orelse[0]
    else:
      break
  last = node.orelse[-1] if node.orelse else fn.body[-1]
  ok = isinstance(last, ast.Return) and isinstance(last.value, ast.Constant) \
      and last.value.value is None
  ctx.check(ok, "_is_or_is_not_cmp:default", rel, last.lineno,
            "identity comparison of unknown kinds must be undecided (None)",
            {"default": src(last)})
  inst = [a for a in arms if "abstract.Instance" in src(a.test)]
  if len(inst) != 1:
    raise AnalysisError("_is_or_is_not_cmp: Instance arm not found")
  tail = inst[0].body[-1]
  ok = isinstance(tail, ast.Return) and isinstance(tail.value, ast.Constant) \
      and tail.value.value is None
  ctx.check(ok, "_is_or_is_not_cmp:same-class-instances", rel, tail.lineno,
            "two instances of the same class may or may not be identical: "
            "the arm must end in `return None`", {"tail": src(tail)})
  # restrict_condition / _match_condition: decided by small-scope evaluation
  _restrict_condition_checks(ctx, mod, rel)
  # pytd_for_types: no-visible-options arm and Empty arm emit Any
  rel = "pytype/tracer_vm.py"
  mod = get_module(ctx, rel)
  fn = mod.func("CallTracer.pytd_for_types")
  found_noopt = False
  # the Empty arm: in pytd_for_types or a method it calls (self.<m>(..), through
  # the module-local MRO).  A vanished arm is an analysis error, an arm that
  # assigns something else a violation.
  empty_arms = [n for f in _u.reachable_functions(mod, fn, cls="CallTracer")
                for n in ast.walk(f) if isinstance(n, ast.If)
                and isinstance(n.test, ast.Call) and dotted(n.test.func) == "isinstance"
                and len(n.test.args) == 2 and isinstance(n.test.args[0], ast.Name)
                and dotted(n.test.args[1]) == "abstract.Empty"]
  if len(empty_arms) != 1:
    raise AnalysisError(
        "pytd_for_types: expected one `if isinstance(<option>, abstract.Empty):` "
        f"arm in it or the methods it calls, found {len(empty_arms)}")
  found_empty = False
  for st in empty_arms[0].body:
    if isinstance(st, (ast.Assign, ast.Return)) and st.value is not None:
      found_empty = found_empty or (
          isinstance(st.value, ast.Call) and not st.value.args and
          (dotted(st.value.func) or "").split(".")[-1] == "AnythingType")
    elif not isinstance(st, (ast.Expr, ast.Pass, ast.Assert)):
      raise AnalysisError("pytd_for_types: the abstract.Empty arm contains "
                          f"`{src(st)[:60]}`, not understood")
  # the final else of the `if len(options) > 1 ... elif options: ... else:` chain
  for n in ast.walk(fn):
    if isinstance(n, ast.If) and src(n.test) == "options" and n.orelse:
      txt = [src(s) for s in n.orelse]
      found_noopt = any("pytd.Constant(name, pytd.AnythingType())" in t for t in txt)
  ctx.check(found_empty, "pytd_for_types:Empty->Any", rel, fn.lineno,
            "an abstract.Empty option must be emitted as Any")
  ctx.check(found_noopt, "pytd_for_types:no-options->Any", rel, fn.lineno,
            "a name with no visible option must be emitted as Any")


def _restrict_condition_checks(ctx, mod, rel):
  """state.restrict_condition and state._match_condition are evaluated from
  their AST (rules/_minieval) on every vector of up to three bindings x every
  kind of condition, in a world where compare.compatible_with[_none] answer
  from a table; the specification is relational, so loops, comprehensions,
  early returns and extracted helpers are all the same to the rule."""
  fn = mod.func("restrict_condition")
  params = [a.arg for a in fn.args.args]
  if len(params) != 3:
    raise AnalysisError("restrict_condition(node, var, condition) not recognised")
  for name in ("UNSATISFIABLE", "NOT_NONE"):
    v = mod.assigns.get(name)
    if not (isinstance(v, ast.Call) and dotted(v.func) == "object" and not v.args):
      raise AnalysisError(f"state.{name} is not a module-level `object()` sentinel")
  unsat = _me.Obj(("closed", "UNSATISFIABLE"))
  not_none = _me.Obj(("closed", "NOT_NONE"))
  world = {"UNSATISFIABLE": unsat, "NOT_NONE": not_none}

  def evaluate(name, args, table, calls):
    def resolver(dotted_name, a, kw):
      if dotted_name == "compare.compatible_with" and len(a) == 2 and not kw:
        calls.append(("compatible_with", a[0], a[1]))
        return table[id(a[0])]
      if dotted_name == "compare.compatible_with_none" and len(a) == 1 and not kw:
        calls.append(("compatible_with_none", a[0]))
        return table[id(a[0])]
      if dotted_name.startswith("compare."):
        raise _me.Outside(f"unknown predicate {dotted_name}")
      return NotImplemented
    try:
      return _u.module_world(mod, world, resolver)(name, **args)
    except _me.Outside as e:
      raise AnalysisError(f"state.{name} uses a construct outside the evaluated "
                          f"fragment: {e}") from e
    except (_me.Raised, _me.Diverged) as e:
      raise AnalysisError(f"state.{name} raised {e!r} in the world model: "
                          "cannot decide") from e

  def value(matches):
    return _me.Obj(("Value",), {"full_name": "builtins.int" if matches
                                else "builtins.NoneType"})
  conditions = [("True", True), ("False", False), ("None", None), ("NOT_NONE", not_none)]
  # _match_condition: each kind of condition is matched by its own predicate
  mc = mod.func("_match_condition")
  mparams = [a.arg for a in mc.args.args]
  if len(mparams) != 2:
    raise AnalysisError("_match_condition(value, condition) not recognised")
  wiring, wrong = {}, []
  for cname, cond in conditions:
    for m in (True, False):
      v = value(m)
      calls = []
      res = evaluate("_match_condition", {mparams[0]: v, mparams[1]: cond},
                     {id(v): m}, calls)
      if isinstance(cond, bool):
        want = [("compatible_with", v, cond)]
      elif cond is None:
        want = [("compatible_with_none", v)]
      else:
        want = []
      same = len(calls) == len(want) and all(
          c[0] == w[0] and c[1] is w[1] and (len(w) < 3 or c[2] is w[2])
          for c, w in zip(calls, want))
      wiring[cname] = [c[0] + (f"(value, {c[2]!r})" if len(c) == 3 else "(value)")
                       for c in calls] or ["value.full_name test"]
      if not same or _me.Interp.truth(res) != m:
        wrong.append(f"condition {cname}, value that {'matches' if m else 'does not match'}: "
                     f"asked {wiring[cname]}, answered {res!r}")
  ctx.check(not wrong, "_match_condition:wiring", rel, mc.lineno,
            f"condition kinds must be matched by their own predicate: {wrong[:3]}",
            {"wiring": wiring})
  # restrict_condition
  node = _me.Obj(("CFGNode",))
  none_wrong, binding_wrong = [], []
  runs = 0
  for cname, cond in conditions:
    for n in range(4):
      for bits in range(2 ** n):
        vec = [bool(bits >> i & 1) for i in range(n)]
        vals = [value(m) for m in vec]
        bindings = [_me.Obj(("Binding", str(i)), {"data": v}) for i, v in enumerate(vals)]
        var = _me.Obj(("Variable",), {"bindings": list(bindings)})
        calls = []
        res = evaluate("restrict_condition",
                       {params[0]: node, params[1]: var, params[2]: cond},
                       {id(v): m for v, m in zip(vals, vec)}, calls)
        runs += 1
        tag = f"condition {cname}, bindings that match: {vec}"
        if any(len(c) == 3 and c[2] is not cond for c in calls):
          binding_wrong.append(f"{tag}: a binding was matched against another condition")
        if (res is None) != (bool(vec) and all(vec)):
          none_wrong.append(f"{tag}: returned {_show(res) if res is not None else None}")
          continue
        if res is None:
          continue
        kept = [b for b, m in zip(bindings, vec) if m]
        if not kept:
          if res is not unsat:
            binding_wrong.append(f"{tag}: expected UNSATISFIABLE, got {_show(res)}")
          continue
        if res is unsat:
          binding_wrong.append(f"{tag}: returned UNSATISFIABLE although a binding matches")
          continue
        args = res.attrs.get("args") if isinstance(res, _me.Obj) and \
            res.kinds == ("Condition",) else None
        if args is None or len(args) != 2 or len(res.attrs) != 1:
          raise AnalysisError(f"restrict_condition: result {res!r} is not "
                              "Condition(node, dnf)")
        dnf = args[1]
        shape = isinstance(dnf, (list, tuple)) and all(
            isinstance(c, (list, tuple)) and len(c) == 1 for c in dnf)
        if args[0] is not node or not shape or len(dnf) != len(kept) or \
            any(c[0] is not b for c, b in zip(dnf, kept)):
          binding_wrong.append(f"{tag}: Condition built from {dnf!r}")
  ctx.check(not none_wrong, "restrict_condition:no-restriction", rel, fn.lineno,
            "`None` (no restriction) must be returned exactly when some binding "
            f"matched and none was rejected: {none_wrong[:3]}",
            {"runs": runs, "problems": none_wrong[:5]})
  ctx.check(not binding_wrong, "restrict_condition:per-binding", rel, fn.lineno,
            "the result must keep exactly the bindings whose match result is "
            "truthy (UNSATISFIABLE when there is none), each matched against "
            f"the given condition: {binding_wrong[:3]}",
            {"runs": runs, "problems": binding_wrong[:5]})


_CMP_AST = {"==": ast.Eq, "!=": ast.NotEq, "<": ast.Lt, "<=": ast.LtE,
            ">": ast.Gt, ">=": ast.GtE}


@rule("R1.4", "C01", floor=7)
def r1_4(ctx):
  """slots.COMPARES: each key's lambda uses the operator the key spells."""
  rel = "pytype/pytd/slots.py"
  mod = get_module(ctx, rel)
  node = mod.const("COMPARES")
  if not isinstance(node, ast.Dict):
    raise AnalysisError("slots.COMPARES is not a dict literal")
  for k, v in zip(node.keys, node.values):
    key = try_fold(k, mod=mod)
    if key not in _CMP_AST:
      ctx.bad(f"COMPARES[{key!r}]", rel, k.lineno, "unknown comparison key")
      continue
    ok = (isinstance(v, ast.Lambda) and isinstance(v.body, ast.Compare)
          and len(v.body.ops) == 1 and isinstance(v.body.ops[0], _CMP_AST[key])
          and [a.arg for a in v.args.args] ==
          [dotted(v.body.left), dotted(v.body.comparators[0])])
    ctx.check(ok, f"COMPARES[{key!r}]", rel, v.lineno,
              f"COMPARES[{key!r}] = {src(v)} does not compute x {key} y",
              {"lambda": src(v)})
  # CMP_* indices follow dis.cmp_op order for the rich comparisons
  names = {"<": "CMP_LT", "<=": "CMP_LE", "==": "CMP_EQ", "!=": "CMP_NE",
           ">": "CMP_GT", ">=": "CMP_GE"}
  got = {sym: try_fold(mod.const(n), mod=mod) for sym, n in names.items()}
  want = {sym: dis.cmp_op.index(sym) for sym in names}
  ctx.check(got == want, "CMP_*-order", rel, mod.const("CMP_LT").lineno,
            f"CMP_* constants {got} differ from CPython's dis.cmp_op {want}",
            {"got": got, "ref": want})


@rule("R1.5", "C01", floor=4)
def r1_5(ctx):
  """Overflow widens to Any."""
  rel = "pytype/context.py"
  mod = get_module(ctx, rel)
  vals = [src(n.value) for n in ast.walk(mod.tree) if isinstance(n, ast.Assign)
          and any((dotted(t) or "").endswith("program.default_data") for t in n.targets)]
  ctx.check(vals == ["self.convert.unsolvable"], "program.default_data", rel, 0,
            f"program.default_data is assigned {vals}; must be the unsolvable "
            "(Any) value", {"values": vals})
  rel = "pytype/pytd/optimize.py"
  mod = get_module(ctx, rel)
  init = mod.func("CollapseLongUnions.__init__")
  vals = [src(n.value) for n in ast.walk(init) if isinstance(n, ast.Assign)
          and dotted(n.targets[0]) == "self.generic_type"]
  ctx.check(vals == ["pytd.AnythingType()"], "CollapseLongUnions.generic_type",
            rel, init.lineno, f"generic_type = {vals}; long unions must "
            "collapse to Any, not to a narrower type", {"values": vals})
  vu = mod.func("CollapseLongUnions.VisitUnionType")
  first = [n for n in vu.body if isinstance(n, ast.If)]
  ok = bool(first) and isinstance(first[0].body[-1], ast.Return) and \
      src(first[0].body[-1].value) == "self.generic_type" and \
      "len(union.type_list) > self.max_length" in src(first[0].test)
  ctx.check(ok, "CollapseLongUnions.VisitUnionType", rel, vu.lineno,
            "the over-long arm must return self.generic_type",
            {"test": src(first[0].test) if first else None})
  rel = "pytype/io.py"
  mod = get_module(ctx, rel)
  fn = mod.func("generate_pyi_ast")
  # in generate_pyi_ast itself or a module-local helper it calls
  calls = [c for f in _u.reachable_functions(mod, fn) for c in calls_in(f)
           if dotted(c.func) == "optimize.Optimize"]
  if len(calls) != 1:
    raise AnalysisError("generate_pyi_ast: optimize.Optimize call not found")
  kws = {k.arg: try_fold(k.value, default=src(k.value)) for k in calls[0].keywords}
  ok = kws.get("lossy") is False and kws.get("use_abcs") is False and \
      kws.get("remove_mutable") is False
  ctx.check(ok, "generate_pyi_ast:Optimize-settings", rel, calls[0].lineno,
            f"Optimize is called with {kws}; the lossless settings are "
            "lossy=False, use_abcs=False, remove_mutable=False", {"kwargs": kws})


@rule("R1.6", "C01", floor=3)
def r1_6(ctx):
  """The pyi optimiser rewrites unions along the class hierarchy only in the
  widening direction (the analysis lives in rules/c11.py, R11.6)."""
  _c11.check_hierarchy_direction(ctx)


VARIANTS = [
    {"name": "pop_jump_if_true-inverted", "rule": "R1.1", "file": VM, "expect": "fire",
     "old": "  def byte_POP_JUMP_IF_TRUE(self, state, op):\n    return vm_utils.jump_if(\n        state, op, self.ctx, jump_if_val=True,",
     "new": "  def byte_POP_JUMP_IF_TRUE(self, state, op):\n    return vm_utils.jump_if(\n        state, op, self.ctx, jump_if_val=False,"},
    {"name": "if_none-uses-not_none", "rule": "R1.1", "file": VM, "expect": "fire",
     "old": "  def byte_POP_JUMP_BACKWARD_IF_NONE(self, state, op):\n    return vm_utils.jump_if(\n        state, op, self.ctx, jump_if_val=None,",
     "new": "  def byte_POP_JUMP_BACKWARD_IF_NONE(self, state, op):\n    return vm_utils.jump_if(\n        state, op, self.ctx, jump_if_val=frame_state.NOT_NONE,"},
    {"name": "or_pop-becomes-always", "rule": "R1.1", "file": VM, "expect": "fire",
     "old": "jump_if_val=True, pop=vm_utils.PopBehavior.OR",
     "new": "jump_if_val=True, pop=vm_utils.PopBehavior.ALWAYS"},
    {"name": "delegation-to-wrong-sibling", "rule": "R1.1", "file": VM, "expect": "fire",
     "old": "  def byte_POP_JUMP_BACKWARD_IF_FALSE(self, state, op):\n    return self.byte_POP_JUMP_IF_FALSE(state, op)",
     "new": "  def byte_POP_JUMP_BACKWARD_IF_FALSE(self, state, op):\n    return self.byte_POP_JUMP_IF_TRUE(state, op)"},
    {"name": "twin-delegate-same-polarity", "rule": "R1.1", "file": VM, "expect": "silent",
     "old": "  def byte_JUMP_IF_TRUE(self, state, op):\n    return vm_utils.jump_if(state, op, self.ctx, jump_if_val=True)",
     "new": "  def byte_JUMP_IF_TRUE(self, state, op):\n    ctx = self.ctx\n    return vm_utils.jump_if(state, op, ctx, jump_if_val=True)"},
    {"name": "complement-fixed-point", "rule": "R1.2", "file": "pytype/vm_utils.py", "expect": "fire",
     "old": "    normal_val = not jump_if_val", "new": "    normal_val = jump_if_val"},
    {"name": "complement-none-to-none", "rule": "R1.2", "file": "pytype/vm_utils.py", "expect": "fire",
     "old": "  if jump_if_val is None:\n    normal_val = frame_state.NOT_NONE",
     "new": "  if jump_if_val is None:\n    normal_val = None"},
    {"name": "both-sides-restricted-by-jump-val", "rule": "R1.2", "file": "pytype/vm_utils.py", "expect": "fire",
     "old": "normal = frame_state.restrict_condition(state.node, value, normal_val)",
     "new": "normal = frame_state.restrict_condition(state.node, value, jump_if_val)"},
    {"name": "compatible_with-default-narrowed", "rule": "R1.3", "file": "pytype/compare.py", "expect": "fire",
     "old": "    # True or False. Thus we return True here regardless of logical_value.\n    return True",
     "new": "    # True or False. Thus we return True here regardless of logical_value.\n    return logical_value"},
    {"name": "same-class-instances-decided", "rule": "R1.3", "file": "pytype/state.py", "expect": "fire",
     "old": "      return is_not\n    return None\n  elif isinstance(left, abstract.Class)",
     "new": "      return is_not\n    return not is_not\n  elif isinstance(left, abstract.Class)"},
    {"name": "restricted-set-on-match", "rule": "R1.3", "file": "pytype/state.py", "expect": "fire",
     "old": "      dnf.append([b])  # the binding may match the condition",
     "new": "      dnf.append([b])  # the binding may match the condition\n      restricted = True"},
    {"name": "none-condition-uses-bool-predicate", "rule": "R1.3", "file": "pytype/state.py", "expect": "fire",
     "old": "    return compare.compatible_with_none(value)",
     "new": "    return compare.compatible_with(value, False)"},
    {"name": "no-options-emits-nothing", "rule": "R1.3", "file": "pytype/tracer_vm.py", "expect": "fire",
     "old": "        log.error(\"No visible options for %s\", name)\n        data.append(pytd.Constant(name, pytd.AnythingType()))",
     "new": "        log.error(\"No visible options for %s\", name)\n        data.append(pytd.Constant(name, pytd.NothingType()))"},
    {"name": "lt-lambda-uses-le", "rule": "R1.4", "file": "pytype/pytd/slots.py", "expect": "fire",
     "old": "    LT: lambda x, y: x < y,", "new": "    LT: lambda x, y: x <= y,"},
    {"name": "gt-lambda-swapped-operands", "rule": "R1.4", "file": "pytype/pytd/slots.py", "expect": "fire",
     "old": "    GT: lambda x, y: x > y,", "new": "    GT: lambda x, y: y > x,"},
    {"name": "overflow-default-none", "rule": "R1.5", "file": "pytype/context.py", "expect": "fire",
     "old": "self.program.default_data = self.convert.unsolvable",
     "new": "self.program.default_data = self.convert.empty"},
    {"name": "collapse-to-object", "rule": "R1.5", "file": "pytype/pytd/optimize.py", "expect": "fire",
     "old": "    self.generic_type = pytd.AnythingType()\n    self.max_length = max_length",
     "new": "    self.generic_type = pytd.ClassType(\"builtins.object\")\n    self.max_length = max_length"},
    {"name": "lossy-optimize", "rule": "R1.5", "file": "pytype/io.py", "expect": "fire",
     "old": "        lossy=False,", "new": "        lossy=True,"},
    # second batch of behaviour-preserving refactorings: the refactored shape is a
    # must-silent twin, refactoring + defect must fire (benign/<id>/*.diff)
    {"name": "twin-benign-C01-r1-jump-helpers-comprehensions", "rule": "R1.2", "patch": "benign/C01-r1/patch.diff", "expect": "silent"},
    {"name": "C01-r1+negate-helper-fixed-point", "rule": "R1.2", "patch": "benign/C01-r1/defect_negate_helper_fixed_point.diff", "expect": "fire"},
    {"name": "C01-r1+negate-helper-none-to-none", "rule": "R1.2", "patch": "benign/C01-r1/defect_negate_helper_none_to_none.diff", "expect": "fire"},
    {"name": "C01-r1+store-jump-guard-inverted", "rule": "R1.2", "patch": "benign/C01-r1/defect_store_jump_guard_inverted.diff", "expect": "fire"},
    {"name": "C01-r1+jump-edge-from-normal-side", "rule": "R1.2", "patch": "benign/C01-r1/defect_jump_edge_from_normal_side.diff", "expect": "fire"},
    {"name": "C01-r1+unrestricted-when-any-matches", "rule": "R1.3", "patch": "benign/C01-r1/defect_unrestricted_when_any_matches.diff", "expect": "fire"},
    {"name": "C01-r1+keeps-rejected-bindings", "rule": "R1.3", "patch": "benign/C01-r1/defect_keeps_rejected_bindings.diff", "expect": "fire"},
    {"name": "C01-r1+matches-negated-condition", "rule": "R1.3", "patch": "benign/C01-r1/defect_matches_negated_condition.diff", "expect": "fire"},
    {"name": "C01-r1+none-condition-bool-predicate", "rule": "R1.3", "patch": "benign/C01-r1/defect_none_condition_bool_predicate.diff", "expect": "fire"},
    {"name": "twin-benign-C01-r3-pytd_for_types-split", "rule": "R1.3", "patch": "benign/C01-r3/patch.diff", "expect": "silent"},
    {"name": "C01-r3+empty-stays-nothing", "rule": "R1.3", "patch": "benign/C01-r3/defect_empty_stays_nothing.diff", "expect": "fire"},
    {"name": "C01-r3+empty-arm-removed", "rule": "R1.3", "patch": "benign/C01-r3/unsupported_empty_arm_removed.diff", "expect": "error"},
    {"name": "twin-benign-C01-r4-jump-opcodes-in-mixin", "rule": "R1.1", "patch": "benign/C01-r4/patch.diff", "expect": "silent"},
    {"name": "C01-r4+mixin-handler-wrong-value", "rule": "R1.1", "patch": "benign/C01-r4/defect_mixin_handler_wrong_value.diff", "expect": "fire"},
    {"name": "C01-r4+shared-helper-negates", "rule": "R1.1", "patch": "benign/C01-r4/defect_shared_helper_negates.diff", "expect": "fire"},
    {"name": "C01-r4+mixin-handler-wrong-pop", "rule": "R1.1", "patch": "benign/C01-r4/defect_mixin_handler_wrong_pop.diff", "expect": "fire"},
    {"name": "twin-benign-C04-r4-optimize-call-in-helper", "rule": "R1.5", "patch": "benign/C04-r4/patch.diff", "expect": "silent"},
    {"name": "C04-r4+helper-optimizes-lossy", "rule": "R1.5", "patch": "benign/C04-r4/defect_helper_optimizes_lossy.diff", "expect": "fire"},
    {"name": "twin-benign-C11-r4-table-driven-passes", "rule": "R1.6", "patch": "benign/C11-r4/patch.diff", "expect": "silent"},
    {"name": "C11-r4+absorb-counts-superclass-closure", "rule": "R1.6", "patch": "benign/C11-r4/defect_absorb_counts_superclass_closure.diff", "expect": "fire"},
    {"name": "C11-r4+helper-merges-subclass-mapping", "rule": "R1.6", "patch": "benign/C11-r4/defect_helper_merges_subclass_mapping.diff", "expect": "fire"},
    # small edits of today's tree exercising the same abilities
    {"name": "twin-restrict-condition-comprehension-form", "rule": "R1.3", "file": "pytype/state.py", "expect": "silent",
     "old": "  dnf = []\n  restricted = False\n  for b in var.bindings:\n    match_result = _match_condition(b.data, condition)\n    if match_result:\n      dnf.append([b])  # the binding may match the condition\n    else:\n      restricted = True  # the binding cannot match the condition\n",
     "new": "  results = [(b, _match_condition(b.data, condition)) for b in var.bindings]\n  dnf = [[b] for b, ok in results if ok]\n  restricted = len(dnf) < len(results)\n"},
    {"name": "restrict-condition-comprehension-form-drops-last", "rule": "R1.3", "file": "pytype/state.py", "expect": "fire",
     "old": "  dnf = []\n  restricted = False\n  for b in var.bindings:\n    match_result = _match_condition(b.data, condition)\n    if match_result:\n      dnf.append([b])  # the binding may match the condition\n    else:\n      restricted = True  # the binding cannot match the condition\n",
     "new": "  results = [(b, _match_condition(b.data, condition)) for b in var.bindings]\n  dnf = [[b] for b, ok in results[:2] if ok]\n  restricted = len(dnf) < len(results)\n"},
    {"name": "twin-jump-if-guard-clause-for-unsatisfiable-jump", "rule": "R1.2", "file": "pytype/vm_utils.py", "expect": "silent",
     "old": "    ctx.vm.store_jump(op.target, else_state)\n  else:\n    else_state = None\n",
     "new": "    ctx.vm.store_jump(op.target, else_state)\n  if jump is frame_state.UNSATISFIABLE:\n    else_state = None\n"},
    {"name": "jump-stored-although-unsatisfiable", "rule": "R1.2", "file": "pytype/vm_utils.py", "expect": "fire",
     "old": "  if jump is not frame_state.UNSATISFIABLE:\n    if jump:",
     "new": "  if jump is not None:\n    if jump and jump is not frame_state.UNSATISFIABLE:"},
    {"name": "twin-jump-handler-through-shared-helper", "rule": "R1.1", "file": VM, "expect": "silent",
     "old": "  def byte_JUMP_IF_TRUE(self, state, op):\n    return vm_utils.jump_if(state, op, self.ctx, jump_if_val=True)",
     "new": "  def _cond_jump(self, state, op, val, pop=vm_utils.PopBehavior.NONE):\n    return vm_utils.jump_if(state, op, self.ctx, jump_if_val=val, pop=pop)\n\n  def byte_JUMP_IF_TRUE(self, state, op):\n    return self._cond_jump(state, op, True)"},
    {"name": "twin-jump-handler-value-through-local", "rule": "R1.1", "file": VM, "expect": "silent",
     "old": "  def byte_JUMP_IF_TRUE(self, state, op):\n    return vm_utils.jump_if(state, op, self.ctx, jump_if_val=True)",
     "new": "  def byte_JUMP_IF_TRUE(self, state, op):\n    when = True\n    return vm_utils.jump_if(state, op, self.ctx, jump_if_val=when)"},
    {"name": "jump-handler-value-through-rebound-local", "rule": "R1.1", "file": VM, "expect": "error",
     "old": "  def byte_JUMP_IF_TRUE(self, state, op):\n    return vm_utils.jump_if(state, op, self.ctx, jump_if_val=True)",
     "new": "  def byte_JUMP_IF_TRUE(self, state, op):\n    when = True\n    when = not when\n    return vm_utils.jump_if(state, op, self.ctx, jump_if_val=when)"},
    {"name": "jump-handler-through-shared-helper-wrong-value", "rule": "R1.1", "file": VM, "expect": "fire",
     "old": "  def byte_JUMP_IF_TRUE(self, state, op):\n    return vm_utils.jump_if(state, op, self.ctx, jump_if_val=True)",
     "new": "  def _cond_jump(self, state, op, val, pop=vm_utils.PopBehavior.NONE):\n    return vm_utils.jump_if(state, op, self.ctx, jump_if_val=val, pop=pop)\n\n  def byte_JUMP_IF_TRUE(self, state, op):\n    return self._cond_jump(state, op, False)"},
    # R1.6 (same analysis as R11.6)
    {"name": "seeded-C01-m1", "rule": "R1.6", "patch": "seeded/C01-m1/patch.diff", "expect": "fire"},
    {"name": "expand-subclasses-walks-superclass-table", "rule": "R1.6", "file": "pytype/pytd/optimize.py", "expect": "fire",
     "old": "        queue.extend(self._subclasses[item])",
     "new": "        queue.extend(self._superclasses.get(item, []))"},
    {"name": "subclass-table-not-inverted", "rule": "R1.6", "file": "pytype/pytd/optimize.py", "expect": "fire",
     "old": "    self._subclasses = utils.invert_dict(self._superclasses)",
     "new": "    self._subclasses = dict(self._superclasses)"},
    {"name": "twin-absorb-counter-renamed-update-form", "rule": "R1.6", "expect": "silent",
     "edits": [("pytype/pytd/optimize.py", "    c = collections.Counter()\n    for t in set(union.type_list):",
                "    seen_in = collections.Counter()\n    for member in set(union.type_list):"),
               ("pytype/pytd/optimize.py", "      if isinstance(t, pytd.GENERIC_BASE_TYPE):\n        c += collections.Counter(self.hierarchy.ExpandSubClasses(str(t)))",
                "      if isinstance(member, pytd.GENERIC_BASE_TYPE):\n        seen_in.update(self.hierarchy.ExpandSubClasses(str(member)))"),
               ("pytype/pytd/optimize.py", "    new_type_list = [t for t in union.type_list if c[str(t)] <= 1]",
                "    new_type_list = [t for t in union.type_list if seen_in[str(t)] < 2]")]},
    {"name": "twin-hierarchy-mapping-copied", "rule": "R1.6", "file": "pytype/pytd/optimize.py", "expect": "silent",
     "old": "    hierarchy = SuperClassHierarchy(superclasses)",
     "new": "    by_name = dict(superclasses)\n    hierarchy = SuperClassHierarchy(by_name)"},
]

EXPLANATION += (
    "  R1.27 (rules/c01_value_eq.py): abstract values are dict keys on the "
    "way to the stub (output.Converter._value_to_parameter_types: `{val: "
    "view}`), so values that compare equal collapse and only the first one's "
    "type is emitted; their hashes are deliberately approximate "
    "(Tuple.__hash__ digests the element values' full names).  For every "
    "class of pytype/abstract/ with its own __eq__: a comparison of hashes "
    "(hash(x), x.__hash__(), the memo attribute __hash__ writes) may decide "
    "__eq__ only on a path guarded by an explicit predicate call on an "
    "operand (today `self._is_recursive() or other._is_recursive()`), or as "
    "a shortcut and-ed with a content comparison; there must be a content "
    "path, and it (with the comparisons guarding it, and methods of the "
    "class called on the operands) must read from both operands every "
    "attribute __hash__ digests.  Blind spots of R1.27: an __eq__ that "
    "re-implements the approximation inline (compares full names) without "
    "touching the hash; whether the content comparison is deep enough; "
    "classes outside pytype/abstract/ (pytd nodes: R12.2); transparent "
    "proxies (a class defining __getattribute__, today LateAnnotation whose "
    "__eq__ is `hash(self) == hash(other)` with the target's hash) are "
    "listed but not decided.")
ASSUMPTIONS += [
    "R1.27: the first two parameters of __eq__ are the operands; an "
    "attribute stored by __hash__ on self is its memo",
]
