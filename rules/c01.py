"""C01 - inferred types admit every run-time value: the soundness guard rails.

Decides: branch polarity tables, complement involution, "unknown means may"
defaults, comparison table, overflow widening to Any, and that the stub
optimiser absorbs union members only into their superclasses.  Does NOT decide
the soundness of the abstract interpreter's transfer functions.
"""
import ast
import dis

from sa.core import rule, AnalysisError
from sa.pyindex import get_module, dotted, src, kwarg, calls_in, try_fold
from sa import flow
from rules import c11 as _c11  # R1.6 shares the hierarchy-direction analysis

EXPLANATION = (
    "Static guard-rail rules for inference soundness, evaluated on the AST of "
    "vm.py, vm_utils.py, state.py, compare.py, pytd/slots.py, tracer_vm.py, "
    "context.py, pytd/optimize.py, io.py and the clang AST of typegraph.cc: "
    "R1.1 every conditional-jump handler passes the polarity its opcode name "
    "states to vm_utils.jump_if; R1.2 jump_if derives the fall-through value "
    "as the exact complement (involution without fixed point) and restricts "
    "the same variable on both sides; R1.3 abstract predicates default to "
    "'may' and restrict_condition returns 'no restriction' exactly when no "
    "binding was rejected; R1.4 the comparison table maps each operator "
    "string to a lambda using that operator; R1.5 binding-count overflow and "
    "long unions widen to Any.  These are necessary conditions: breaking any "
    "one makes inference drop a value that occurs at run time.  The "
    "interpreter's transfer functions themselves are not decided.")
ASSUMPTIONS = [
    "opcode names state the CPython jump polarity (checked against the host "
    "CPython `dis`/`opcode` tables where the opcode exists in 3.12)",
    "only the named guard rails are decided; per-opcode stack effects, "
    "convert.py, output.py, attribute.py and the matcher are out of reach of "
    "a static argument",
]
# rules/c01_flags.py (R1.20, R1.21)
EXPLANATION += (
    "  R1.20 (rules/c01_flags.py) class-wide facts are MRO-wide: every "
    "iteration over an MRO in abstract/class_mixin.py ranges over the whole "
    "`X.mro` (forward/reversed) or all proper ancestors `X.mro[1:]` - another "
    "slice or a single element picked by index (other than [0]/[-1]) is a "
    "violation, because the tail of a C3 linearisation is not the "
    "linearisation of its first element; and the class flag "
    "compare.compatible_with trusts for 'always truthy' (read off the guard "
    "of its `return logical_value`) is produced in class_mixin.py by an "
    "own-attribute test for BOTH __bool__ and __len__ on every element of the "
    "full self.mro (loop or any(..) form), or copied from self.base_cls of a "
    "ParameterizedClass; copying the flag cached on mro[k] / a base is a "
    "violation.  R1.21 handing out a member variable invalidates the owner's "
    "deep memo: SimpleValue.update_caches resets every memo field that "
    "get_fullhash / get_type_key fill, `force` bypasses the change-stamp "
    "comparison, and in attribute.py every `return .., obj.members[..]` "
    "(also through a local, by reaching definitions) is dominated by "
    "obj.update_caches(force=<true constant>) on the same object.  Blind "
    "spots: R1.20(b) understands loop / any() scans with `in "
    "X.get_own_attributes()`, `&`, .intersection/.isdisjoint tests, anything "
    "else is an analysis error; own-table tests elsewhere in the package "
    "(overlays) are not inventoried - most are intentionally 'defined "
    "here'.  R1.21 is a necessary condition of a protocol that is itself "
    "incomplete: the memoised full hash descends into member values while "
    "the change stamps that validate it are one level deep, so a nested "
    "object mutated through a reference obtained BEFORE the memo was taken "
    "(`i = o.inner; f(o); i.x = 'text'; f(o)`) is not noticed - true of "
    "today's tree (second call answered from the call cache, `int` inferred "
    "for a str); the rule that states this (R1.22) is parked in "
    "rules/pending_c01_deep_memo.py because it fires today.")
ASSUMPTIONS += [
    "R1.20: truthiness of an instance is decided by __bool__, then __len__ "
    "(data model); Class.get_own_attributes() is the own-member table of a "
    "class; non-Class MRO entries (Unsolvable/Unknown) may be skipped",
    "R1.21: attribute._get_member is the only place that hands a member "
    "Variable of an arbitrary object to the VM for reading (functions of "
    "attribute.py returning `<param>.members[..]` are searched, other "
    "modules are not)",
]

VM = "pytype/vm.py"


def _polarity_from_name(name):
  """Expected (jump_if_val, pop) stated by the opcode name."""
  if name == "JUMP_IF_NOT_EXC_MATCH":
    return "False", "ALWAYS"
  if name.endswith("_IF_NOT_NONE"):
    val = "NOT_NONE"
  elif name.endswith("_IF_NONE"):
    val = "None"
  elif "_IF_TRUE" in name:
    val = "True"
  elif "_IF_FALSE" in name:
    val = "False"
  else:
    return None
  if name.endswith("_OR_POP"):
    pop = "OR"
  elif name.startswith("POP_JUMP"):
    pop = "ALWAYS"
  else:
    pop = "NONE"
  return val, pop


def _val_name(node):
  if node is None:
    return None
  if isinstance(node, ast.Constant):
    return repr(node.value)
  d = dotted(node)
  return d.split(".")[-1] if d else src(node)


def _resolve_jump_call(methods, name, seen=()):
  """Follows `return self.byte_X(state, op)` delegation to the jump_if call."""
  if name in seen or name not in methods:
    return None
  fn = methods[name]
  calls = [c for c in calls_in(fn) if (dotted(c.func) or "").endswith("jump_if")]
  if len(calls) == 1:
    return calls[0]
  if calls:
    return None
  for c in calls_in(fn):
    d = dotted(c.func) or ""
    if d.startswith("self.byte_"):
      r = _resolve_jump_call(methods, d[len("self."):], seen + (name,))
      if r is not None:
        return r
  return None


@rule("R1.1", "C01", floor=17)
def r1_1(ctx):
  """Conditional-jump handlers pass the polarity their opcode name states."""
  mod = get_module(ctx, VM)
  methods = mod.methods("VirtualMachine")
  for name, fn in sorted(methods.items()):
    if not name.startswith("byte_"):
      continue
    op = name[len("byte_"):]
    expect = _polarity_from_name(op)
    if expect is None or "JUMP" not in op:
      continue
    call = _resolve_jump_call(methods, name)
    if call is None:
      ctx.bad(op, VM, fn.lineno,
              "conditional-jump handler does not reach vm_utils.jump_if")
      continue
    got_val = _val_name(kwarg(call, "jump_if_val"))
    popn = kwarg(call, "pop")
    got_pop = _val_name(popn) if popn is not None else "NONE"
    facts = {"expected": expect, "jump_if_val": got_val, "pop": got_pop}
    ctx.check((got_val, got_pop) == expect, op, VM, fn.lineno,
              f"handler passes jump_if_val={got_val}, pop={got_pop} but the "
              f"opcode name states {expect}", facts)


@rule("R1.2", "C01", floor=4)
def r1_2(ctx):
  """jump_if: normal_val is the complement of jump_if_val; same variable."""
  rel = "pytype/vm_utils.py"
  mod = get_module(ctx, rel)
  fn = mod.func("jump_if")
  # Extract the if/elif chain assigning normal_val as a table test -> value.
  table = {}
  for node in ast.walk(fn):
    if isinstance(node, ast.If):
      for st in node.body:
        if isinstance(st, ast.Assign) and len(st.targets) == 1 and \
            dotted(st.targets[0]) == "normal_val":
          table[src(node.test)] = src(st.value)
  want = {
      "jump_if_val is None": ("frame_state.NOT_NONE", "None -> NOT_NONE"),
      "jump_if_val is frame_state.NOT_NONE": ("None", "NOT_NONE -> None"),
      "isinstance(jump_if_val, bool)": ("not jump_if_val", "bool -> negation"),
  }
  if set(table) != set(want):
    raise AnalysisError(
        f"jump_if complement chain has unknown shape: {sorted(table)}")
  for test, (val, label) in want.items():
    ctx.check(table[test] == val, f"complement:{label}", rel, fn.lineno,
              f"`{test}` assigns normal_val = {table[test]}, expected {val}",
              {"test": test, "value": table[test]})
  # both restrict_condition calls: same node/value, jump_if_val vs normal_val
  calls = [c for c in calls_in(fn) if (dotted(c.func) or "").endswith("restrict_condition")]
  args = sorted((src(c.args[0]), src(c.args[1]), src(c.args[2])) for c in calls
                if len(c.args) == 3)
  ok = (len(args) == 2 and args[0][:2] == args[1][:2]
        and {args[0][2], args[1][2]} == {"jump_if_val", "normal_val"})
  # which result is used for the jump edge?
  assigns = {}
  for st in ast.walk(fn):
    if isinstance(st, ast.Assign) and isinstance(st.value, ast.Call) and \
        (dotted(st.value.func) or "").endswith("restrict_condition") and \
        len(st.value.args) == 3:
      assigns[dotted(st.targets[0])] = src(st.value.args[2])
  ok = ok and assigns == {"jump": "jump_if_val", "normal": "normal_val"}
  ctx.check(ok, "restrict_condition-pair", rel, fn.lineno,
            f"restrict_condition calls are {args}, bound as {assigns}; expected "
            "jump<-jump_if_val and normal<-normal_val on the same variable",
            {"calls": args, "bound": assigns})
  # store_jump uses the state derived from `jump`, return uses `normal`
  sj = [c for c in calls_in(fn) if (dotted(c.func) or "").endswith("store_jump")]
  ok2 = len(sj) == 1 and src(sj[0].args[0]) == "op.target"
  g = flow.guards(mod.parent, mod.enclosing_stmt(sj[0]), stop=fn) if sj else []
  gtxt = [(src(t), p) for t, p in g]
  ok2 = ok2 and ("jump is not frame_state.UNSATISFIABLE", True) in gtxt
  ctx.check(ok2, "jump-edge-guard", rel, sj[0].lineno if sj else fn.lineno,
            f"store_jump(op.target, ..) must be guarded by the jump-side "
            f"condition being satisfiable; guards={gtxt}", {"guards": gtxt})


def _returns(fn):
  return [n for n in ast.walk(fn) if isinstance(n, ast.Return)]


@rule("R1.3", "C01", floor=6)
def r1_3(ctx):
  """Unknown means 'may': default arms return top."""
  # compatible_with: final else returns True
  rel = "pytype/compare.py"
  mod = get_module(ctx, rel)
  fn = mod.func("compatible_with")
  chain = [s for s in fn.body if isinstance(s, ast.If)]
  if not chain:
    raise AnalysisError("compatible_with has no if-chain")
  node = chain[-1]
  while node.orelse and len(node.orelse) == 1 and isinstance(node.orelse[0], ast.If):
    node = node.orelse[0]
  last = node.orelse[-1] if node.orelse else (fn.body[-1] if fn.body[-1] is not chain[-1] else None)
  ok = isinstance(last, ast.Return) and isinstance(last.value, ast.Constant) \
      and last.value.value is True
  ctx.check(ok, "compatible_with:default", rel, getattr(last, "lineno", fn.lineno),
            "the fall-through arm of compatible_with must return True "
            "(ambiguous value may be either)", {"default": src(last) if last else None})
  # cmp_rel: fall-through returns None
  fn = mod.func("cmp_rel")
  node = [s for s in fn.body if isinstance(s, ast.If)][-1]
  while node.orelse and len(node.orelse) == 1 and isinstance(node.orelse[0], ast.If):
    node = node.orelse[0]
  last = node.orelse[-1] if node.orelse else fn.body[-1]
  ok = isinstance(last, ast.Return) and isinstance(last.value, ast.Constant) \
      and last.value.value is None
  ctx.check(ok, "cmp_rel:default", rel, last.lineno,
            "the fall-through arm of cmp_rel must return None (unknown)",
            {"default": src(last)})
  # _is_or_is_not_cmp: final else returns None; Instance arm same-class -> None
  rel = "pytype/state.py"
  mod = get_module(ctx, rel)
  fn = mod.func("_is_or_is_not_cmp")
  node = [s for s in fn.body if isinstance(s, ast.If)][-1]
  arms = []
  while True:
    arms.append(node)
    if node.orelse and len(node.orelse) == 1 and isinstance(node.orelse[0], ast.If):
      node = node.orelse[0]
    else:
      break
  last = node.orelse[-1] if node.orelse else fn.body[-1]
  ok = isinstance(last, ast.Return) and isinstance(last.value, ast.Constant) \
      and last.value.value is None
  ctx.check(ok, "_is_or_is_not_cmp:default", rel, last.lineno,
            "identity comparison of unknown kinds must be undecided (None)",
            {"default": src(last)})
  inst = [a for a in arms if "abstract.Instance" in src(a.test)]
  if len(inst) != 1:
    raise AnalysisError("_is_or_is_not_cmp: Instance arm not found")
  tail = inst[0].body[-1]
  ok = isinstance(tail, ast.Return) and isinstance(tail.value, ast.Constant) \
      and tail.value.value is None
  ctx.check(ok, "_is_or_is_not_cmp:same-class-instances", rel, tail.lineno,
            "two instances of the same class may or may not be identical: "
            "the arm must end in `return None`", {"tail": src(tail)})
  # restrict_condition
  fn = mod.func("restrict_condition")
  rets = _returns(fn)
  none_rets = [r for r in rets if isinstance(r.value, ast.Constant) and r.value.value is None]
  ok = len(none_rets) == 1
  gtxt = []
  if ok:
    g = flow.guards(mod.parent, none_rets[0], stop=fn)
    gtxt = [(src(t), p) for t, p in g]
    ok = ("restricted", False) in gtxt and ("not dnf", False) in gtxt
  ctx.check(ok, "restrict_condition:no-restriction", rel,
            none_rets[0].lineno if none_rets else fn.lineno,
            "`return None` (no restriction) must be reached exactly when "
            f"some binding matched and none was rejected; guards={gtxt}",
            {"guards": gtxt})
  # `restricted = True` only in the non-matching arm of the per-binding test
  sets = [n for n in ast.walk(fn) if isinstance(n, ast.Assign)
          and dotted(n.targets[0]) == "restricted"
          and isinstance(n.value, ast.Constant) and n.value.value is True]
  ok = len(sets) == 1
  gtxt = []
  if ok:
    gtxt = [(src(t), p) for t, p in flow.guards(mod.parent, sets[0], stop=fn)]
    ok = ("match_result", False) in gtxt
  apps = [c for c in calls_in(fn) if dotted(c.func) == "dnf.append"]
  ok = ok and len(apps) == 1 and ("match_result", True) in [
      (src(t), p) for t, p in flow.guards(mod.parent, mod.enclosing_stmt(apps[0]), stop=fn)]
  ctx.check(ok, "restrict_condition:per-binding", rel, fn.lineno,
            "a binding must be kept (dnf.append) iff its match result is "
            "truthy and only a rejected binding may set `restricted`",
            {"restricted_guards": gtxt})
  # _match_condition wiring: bool -> compatible_with, None -> compatible_with_none
  fn = mod.func("_match_condition")
  wiring = {}
  for n in ast.walk(fn):
    if isinstance(n, ast.If):
      r = n.body[-1]
      if isinstance(r, ast.Return):
        wiring[src(n.test)] = src(r.value)
  ok = (wiring.get("isinstance(condition, bool)") == "compare.compatible_with(value, condition)"
        and wiring.get("condition is None") == "compare.compatible_with_none(value)")
  tail = fn.body[-1]
  while isinstance(tail, ast.If):
    tail = tail.orelse[-1] if tail.orelse else tail.body[-1]
  ok = ok and isinstance(tail, ast.Return) and \
      src(tail.value) == "value.full_name != 'builtins.NoneType'"
  ctx.check(ok, "_match_condition:wiring", rel, fn.lineno,
            f"condition kinds must be matched by their own predicate: {wiring}",
            {"wiring": wiring, "tail": src(tail)})
  # pytd_for_types: no-visible-options arm and Empty arm emit Any
  rel = "pytype/tracer_vm.py"
  mod = get_module(ctx, rel)
  fn = mod.func("CallTracer.pytd_for_types")
  found_empty = found_noopt = False
  for n in ast.walk(fn):
    if isinstance(n, ast.If) and src(n.test) == "isinstance(option, abstract.Empty)":
      st = n.body[0]
      found_empty = isinstance(st, ast.Assign) and src(st.value) == "pytd.AnythingType()"
  # the final else of the `if len(options) > 1 ... elif options: ... else:` chain
  for n in ast.walk(fn):
    if isinstance(n, ast.If) and src(n.test) == "options" and n.orelse:
      txt = [src(s) for s in n.orelse]
      found_noopt = any("pytd.Constant(name, pytd.AnythingType())" in t for t in txt)
  ctx.check(found_empty, "pytd_for_types:Empty->Any", rel, fn.lineno,
            "an abstract.Empty option must be emitted as Any")
  ctx.check(found_noopt, "pytd_for_types:no-options->Any", rel, fn.lineno,
            "a name with no visible option must be emitted as Any")


_CMP_AST = {"==": ast.Eq, "!=": ast.NotEq, "<": ast.Lt, "<=": ast.LtE,
            ">": ast.Gt, ">=": ast.GtE}


@rule("R1.4", "C01", floor=7)
def r1_4(ctx):
  """slots.COMPARES: each key's lambda uses the operator the key spells."""
  rel = "pytype/pytd/slots.py"
  mod = get_module(ctx, rel)
  node = mod.const("COMPARES")
  if not isinstance(node, ast.Dict):
    raise AnalysisError("slots.COMPARES is not a dict literal")
  for k, v in zip(node.keys, node.values):
    key = try_fold(k, mod=mod)
    if key not in _CMP_AST:
      ctx.bad(f"COMPARES[{key!r}]", rel, k.lineno, "unknown comparison key")
      continue
    ok = (isinstance(v, ast.Lambda) and isinstance(v.body, ast.Compare)
          and len(v.body.ops) == 1 and isinstance(v.body.ops[0], _CMP_AST[key])
          and [a.arg for a in v.args.args] ==
          [dotted(v.body.left), dotted(v.body.comparators[0])])
    ctx.check(ok, f"COMPARES[{key!r}]", rel, v.lineno,
              f"COMPARES[{key!r}] = {src(v)} does not compute x {key} y",
              {"lambda": src(v)})
  # CMP_* indices follow dis.cmp_op order for the rich comparisons
  names = {"<": "CMP_LT", "<=": "CMP_LE", "==": "CMP_EQ", "!=": "CMP_NE",
           ">": "CMP_GT", ">=": "CMP_GE"}
  got = {sym: try_fold(mod.const(n), mod=mod) for sym, n in names.items()}
  want = {sym: dis.cmp_op.index(sym) for sym in names}
  ctx.check(got == want, "CMP_*-order", rel, mod.const("CMP_LT").lineno,
            f"CMP_* constants {got} differ from CPython's dis.cmp_op {want}",
            {"got": got, "ref": want})


@rule("R1.5", "C01", floor=4)
def r1_5(ctx):
  """Overflow widens to Any."""
  rel = "pytype/context.py"
  mod = get_module(ctx, rel)
  vals = [src(n.value) for n in ast.walk(mod.tree) if isinstance(n, ast.Assign)
          and any((dotted(t) or "").endswith("program.default_data") for t in n.targets)]
  ctx.check(vals == ["self.convert.unsolvable"], "program.default_data", rel, 0,
            f"program.default_data is assigned {vals}; must be the unsolvable "
            "(Any) value", {"values": vals})
  rel = "pytype/pytd/optimize.py"
  mod = get_module(ctx, rel)
  init = mod.func("CollapseLongUnions.__init__")
  vals = [src(n.value) for n in ast.walk(init) if isinstance(n, ast.Assign)
          and dotted(n.targets[0]) == "self.generic_type"]
  ctx.check(vals == ["pytd.AnythingType()"], "CollapseLongUnions.generic_type",
            rel, init.lineno, f"generic_type = {vals}; long unions must "
            "collapse to Any, not to a narrower type", {"values": vals})
  vu = mod.func("CollapseLongUnions.VisitUnionType")
  first = [n for n in vu.body if isinstance(n, ast.If)]
  ok = bool(first) and isinstance(first[0].body[-1], ast.Return) and \
      src(first[0].body[-1].value) == "self.generic_type" and \
      "len(union.type_list) > self.max_length" in src(first[0].test)
  ctx.check(ok, "CollapseLongUnions.VisitUnionType", rel, vu.lineno,
            "the over-long arm must return self.generic_type",
            {"test": src(first[0].test) if first else None})
  rel = "pytype/io.py"
  mod = get_module(ctx, rel)
  fn = mod.func("generate_pyi_ast")
  calls = [c for c in calls_in(fn) if dotted(c.func) == "optimize.Optimize"]
  if len(calls) != 1:
    raise AnalysisError("generate_pyi_ast: optimize.Optimize call not found")
  kws = {k.arg: try_fold(k.value, default=src(k.value)) for k in calls[0].keywords}
  ok = kws.get("lossy") is False and kws.get("use_abcs") is False and \
      kws.get("remove_mutable") is False
  ctx.check(ok, "generate_pyi_ast:Optimize-settings", rel, calls[0].lineno,
            f"Optimize is called with {kws}; the lossless settings are "
            "lossy=False, use_abcs=False, remove_mutable=False", {"kwargs": kws})


@rule("R1.6", "C01", floor=3)
def r1_6(ctx):
  """The pyi optimiser rewrites unions along the class hierarchy only in the
  widening direction (the analysis lives in rules/c11.py, R11.6)."""
  _c11.check_hierarchy_direction(ctx)


VARIANTS = [
    {"name": "pop_jump_if_true-inverted", "rule": "R1.1", "file": VM, "expect": "fire",
     "old": "  def byte_POP_JUMP_IF_TRUE(self, state, op):\n    return vm_utils.jump_if(\n        state, op, self.ctx, jump_if_val=True,",
     "new": "  def byte_POP_JUMP_IF_TRUE(self, state, op):\n    return vm_utils.jump_if(\n        state, op, self.ctx, jump_if_val=False,"},
    {"name": "if_none-uses-not_none", "rule": "R1.1", "file": VM, "expect": "fire",
     "old": "  def byte_POP_JUMP_BACKWARD_IF_NONE(self, state, op):\n    return vm_utils.jump_if(\n        state, op, self.ctx, jump_if_val=None,",
     "new": "  def byte_POP_JUMP_BACKWARD_IF_NONE(self, state, op):\n    return vm_utils.jump_if(\n        state, op, self.ctx, jump_if_val=frame_state.NOT_NONE,"},
    {"name": "or_pop-becomes-always", "rule": "R1.1", "file": VM, "expect": "fire",
     "old": "jump_if_val=True, pop=vm_utils.PopBehavior.OR",
     "new": "jump_if_val=True, pop=vm_utils.PopBehavior.ALWAYS"},
    {"name": "delegation-to-wrong-sibling", "rule": "R1.1", "file": VM, "expect": "fire",
     "old": "  def byte_POP_JUMP_BACKWARD_IF_FALSE(self, state, op):\n    return self.byte_POP_JUMP_IF_FALSE(state, op)",
     "new": "  def byte_POP_JUMP_BACKWARD_IF_FALSE(self, state, op):\n    return self.byte_POP_JUMP_IF_TRUE(state, op)"},
    {"name": "twin-delegate-same-polarity", "rule": "R1.1", "file": VM, "expect": "silent",
     "old": "  def byte_JUMP_IF_TRUE(self, state, op):\n    return vm_utils.jump_if(state, op, self.ctx, jump_if_val=True)",
     "new": "  def byte_JUMP_IF_TRUE(self, state, op):\n    ctx = self.ctx\n    return vm_utils.jump_if(state, op, ctx, jump_if_val=True)"},
    {"name": "complement-fixed-point", "rule": "R1.2", "file": "pytype/vm_utils.py", "expect": "fire",
     "old": "    normal_val = not jump_if_val", "new": "    normal_val = jump_if_val"},
    {"name": "complement-none-to-none", "rule": "R1.2", "file": "pytype/vm_utils.py", "expect": "fire",
     "old": "  if jump_if_val is None:\n    normal_val = frame_state.NOT_NONE",
     "new": "  if jump_if_val is None:\n    normal_val = None"},
    {"name": "both-sides-restricted-by-jump-val", "rule": "R1.2", "file": "pytype/vm_utils.py", "expect": "fire",
     "old": "normal = frame_state.restrict_condition(state.node, value, normal_val)",
     "new": "normal = frame_state.restrict_condition(state.node, value, jump_if_val)"},
    {"name": "compatible_with-default-narrowed", "rule": "R1.3", "file": "pytype/compare.py", "expect": "fire",
     "old": "    # True or False. Thus we return True here regardless of logical_value.\n    return True",
     "new": "    # True or False. Thus we return True here regardless of logical_value.\n    return logical_value"},
    {"name": "same-class-instances-decided", "rule": "R1.3", "file": "pytype/state.py", "expect": "fire",
     "old": "      return is_not\n    return None\n  elif isinstance(left, abstract.Class)",
     "new": "      return is_not\n    return not is_not\n  elif isinstance(left, abstract.Class)"},
    {"name": "restricted-set-on-match", "rule": "R1.3", "file": "pytype/state.py", "expect": "fire",
     "old": "      dnf.append([b])  # the binding may match the condition",
     "new": "      dnf.append([b])  # the binding may match the condition\n      restricted = True"},
    {"name": "none-condition-uses-bool-predicate", "rule": "R1.3", "file": "pytype/state.py", "expect": "fire",
     "old": "    return compare.compatible_with_none(value)",
     "new": "    return compare.compatible_with(value, False)"},
    {"name": "no-options-emits-nothing", "rule": "R1.3", "file": "pytype/tracer_vm.py", "expect": "fire",
     "old": "        log.error(\"No visible options for %s\", name)\n        data.append(pytd.Constant(name, pytd.AnythingType()))",
     "new": "        log.error(\"No visible options for %s\", name)\n        data.append(pytd.Constant(name, pytd.NothingType()))"},
    {"name": "lt-lambda-uses-le", "rule": "R1.4", "file": "pytype/pytd/slots.py", "expect": "fire",
     "old": "    LT: lambda x, y: x < y,", "new": "    LT: lambda x, y: x <= y,"},
    {"name": "gt-lambda-swapped-operands", "rule": "R1.4", "file": "pytype/pytd/slots.py", "expect": "fire",
     "old": "    GT: lambda x, y: x > y,", "new": "    GT: lambda x, y: y > x,"},
    {"name": "overflow-default-none", "rule": "R1.5", "file": "pytype/context.py", "expect": "fire",
     "old": "self.program.default_data = self.convert.unsolvable",
     "new": "self.program.default_data = self.convert.empty"},
    {"name": "collapse-to-object", "rule": "R1.5", "file": "pytype/pytd/optimize.py", "expect": "fire",
     "old": "    self.generic_type = pytd.AnythingType()\n    self.max_length = max_length",
     "new": "    self.generic_type = pytd.ClassType(\"builtins.object\")\n    self.max_length = max_length"},
    {"name": "lossy-optimize", "rule": "R1.5", "file": "pytype/io.py", "expect": "fire",
     "old": "        lossy=False,", "new": "        lossy=True,"},
    # R1.6 (same analysis as R11.6)
    {"name": "seeded-C01-m1", "rule": "R1.6", "patch": "seeded/C01-m1/patch.diff", "expect": "fire"},
    {"name": "expand-subclasses-walks-superclass-table", "rule": "R1.6", "file": "pytype/pytd/optimize.py", "expect": "fire",
     "old": "        queue.extend(self._subclasses[item])",
     "new": "        queue.extend(self._superclasses.get(item, []))"},
    {"name": "subclass-table-not-inverted", "rule": "R1.6", "file": "pytype/pytd/optimize.py", "expect": "fire",
     "old": "    self._subclasses = utils.invert_dict(self._superclasses)",
     "new": "    self._subclasses = dict(self._superclasses)"},
    {"name": "twin-absorb-counter-renamed-update-form", "rule": "R1.6", "expect": "silent",
     "edits": [("pytype/pytd/optimize.py", "    c = collections.Counter()\n    for t in set(union.type_list):",
                "    seen_in = collections.Counter()\n    for member in set(union.type_list):"),
               ("pytype/pytd/optimize.py", "      if isinstance(t, pytd.GENERIC_BASE_TYPE):\n        c += collections.Counter(self.hierarchy.ExpandSubClasses(str(t)))",
                "      if isinstance(member, pytd.GENERIC_BASE_TYPE):\n        seen_in.update(self.hierarchy.ExpandSubClasses(str(member)))"),
               ("pytype/pytd/optimize.py", "    new_type_list = [t for t in union.type_list if c[str(t)] <= 1]",
                "    new_type_list = [t for t in union.type_list if seen_in[str(t)] < 2]")]},
    {"name": "twin-hierarchy-mapping-copied", "rule": "R1.6", "file": "pytype/pytd/optimize.py", "expect": "silent",
     "old": "    hierarchy = SuperClassHierarchy(superclasses)",
     "new": "    by_name = dict(superclasses)\n    hierarchy = SuperClassHierarchy(by_name)"},
]
