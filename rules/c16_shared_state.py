"""C16 / R16.9 - the working state of the block-graph passes is per call.

The property quantifies over *every code object of every program*: the passes
of pyc/opcodes.py, blocks/blocks.py, blocks/process_blocks.py and
typegraph/cfg_utils.py are run once per code object, many times per process.
Whatever a pass remembers while it walks one code object (lines already seen,
exception ranges, visited instructions, processed blocks, offset maps) must be
created by that call.  A container that outlives the call - a mutable default
argument (evaluated once, when the `def` is executed), a module-level
container, a class-level container - and is *written* by a function of the
module makes the graph of a code object depend on the code objects processed
before it.

Decided here, per binding that outlives a call:
  * the kind of its value (immutable / mutable container / opaque object),
  * for a mutable or opaque one: whether any function of the module writes
    through it (mutator method, subscript or attribute store, `del x[k]`,
    in-place operator), directly, through a local alias, through a
    module-local callee that receives it, or through an instance attribute it
    was stored in.
Reading a shared table is fine; so is `param=None` + `if param is None:
param = set()`, and rebinding a parameter to a fresh value.
"""
import ast

from sa.core import rule, AnalysisError
from sa.pyindex import get_module, dotted, src

FILES = (
    "pytype/pyc/opcodes.py",
    "pytype/blocks/blocks.py",
    "pytype/blocks/process_blocks.py",
    "pytype/typegraph/cfg_utils.py",
)

_MUTATORS = frozenset({
    "add", "append", "extend", "update", "insert", "pop", "remove", "discard",
    "clear", "setdefault", "popitem", "sort", "reverse", "appendleft",
    "extendleft", "popleft", "rotate", "subtract", "difference_update",
    "intersection_update", "symmetric_difference_update", "__setitem__",
    "__delitem__", "__iadd__", "__ior__", "send", "__next__"})
_MUTABLE_CALLS = frozenset({
    "set", "list", "dict", "bytearray", "defaultdict", "OrderedDict", "deque",
    "Counter", "ChainMap", "WeakValueDictionary", "WeakKeyDictionary",
    "WeakSet", "count", "iter", "cycle", "array"})
_IMMUTABLE_CALLS = frozenset({
    "frozenset", "tuple", "int", "str", "float", "bool", "bytes", "object",
    "TypeVar", "NewType", "namedtuple", "NamedTuple", "compile", "getLogger",
    "MappingProxyType", "range", "len", "min", "max", "sum", "ord", "chr",
    "cast", "Literal", "partial", "property", "classmethod", "staticmethod"})
# callables that read their argument without keeping or changing it
_READERS = frozenset({
    "len", "sorted", "list", "set", "tuple", "frozenset", "dict", "isinstance",
    "enumerate", "any", "all", "min", "max", "sum", "zip", "map", "filter",
    "reversed", "str", "repr", "print", "bool", "iter", "type", "id", "cast",
    "next", "format", "issubclass", "hash"})
_COMPS = (ast.ListComp, ast.SetComp, ast.DictComp, ast.GeneratorExp)
_DEFS = (ast.FunctionDef, ast.AsyncFunctionDef)
_RANK = {"immutable": 0, "opaque": 1, "mutable": 2}


def _worst(kinds):
  out = "immutable"
  for k in kinds:
    if _RANK[k] > _RANK[out]:
      out = k
  return out


def value_kind(mod, e, depth=0):
  """'immutable', 'mutable' (a container / iterator whose state can change) or
  'opaque' (an object of a class: only explicit writes are recognised)."""
  if e is None or isinstance(e, (ast.Constant, ast.Lambda, ast.JoinedStr)):
    return "immutable"
  if isinstance(e, (ast.List, ast.Dict, ast.Set) + _COMPS):
    return "mutable"
  if isinstance(e, ast.Tuple):
    return _worst(value_kind(mod, x, depth) for x in e.elts)
  if isinstance(e, ast.Starred):
    return value_kind(mod, e.value, depth)
  if isinstance(e, ast.Name):
    if depth < 4 and e.id in mod.assigns:
      return value_kind(mod, mod.assigns[e.id], depth + 1)
    return "immutable"  # a class, function, import or builtin: a reference
  if isinstance(e, ast.Attribute):
    return "immutable"  # module.CONST / Class.MEMBER: a reference
  if isinstance(e, ast.Subscript):
    return "immutable" if value_kind(mod, e.value, depth) == "immutable" else "opaque"
  if isinstance(e, (ast.BinOp,)):
    return _worst((value_kind(mod, e.left, depth), value_kind(mod, e.right, depth)))
  if isinstance(e, ast.UnaryOp):
    return value_kind(mod, e.operand, depth)
  if isinstance(e, ast.Compare):
    return "immutable"
  if isinstance(e, ast.BoolOp):
    return _worst(value_kind(mod, v, depth) for v in e.values)
  if isinstance(e, ast.IfExp):
    return _worst((value_kind(mod, e.body, depth), value_kind(mod, e.orelse, depth)))
  if isinstance(e, ast.NamedExpr):
    return value_kind(mod, e.value, depth)
  if isinstance(e, ast.Call):
    d = dotted(e.func)
    last = d.split(".")[-1] if d else None
    if last in _MUTABLE_CALLS:
      return "mutable"
    if isinstance(e.func, ast.Attribute) and e.func.attr in ("copy", "fromkeys"):
      return "mutable"
    if last in _IMMUTABLE_CALLS:
      return "immutable"
    return "opaque"
  return "opaque"


def _functions(mod):
  """(qualified name, def node, class name or None) of every def of the module."""
  out = []

  def walk(body, prefix, cls):
    for st in body:
      if isinstance(st, _DEFS):
        out.append((prefix + st.name, st, cls))
        walk(st.body, prefix + st.name + ".", cls)
      elif isinstance(st, ast.ClassDef):
        walk(st.body, prefix + st.name + ".", st.name)
      elif isinstance(st, (ast.If, ast.Try, ast.With, ast.For, ast.While)):
        for fld in ("body", "orelse", "finalbody"):
          walk(getattr(st, fld, []) or [], prefix, cls)
        for h in getattr(st, "handlers", []) or []:
          walk(h.body, prefix, cls)
  walk(mod.tree.body, "", None)
  return out


def _param_names(fn):
  a = fn.args
  out = [p.arg for p in a.posonlyargs + a.args + a.kwonlyargs]
  if a.vararg:
    out.append(a.vararg.arg)
  if a.kwarg:
    out.append(a.kwarg.arg)
  return out


def _defaults(fn):
  """(param name, default expr) pairs of a def."""
  a = fn.args
  pos = a.posonlyargs + a.args
  out = list(zip([p.arg for p in pos[len(pos) - len(a.defaults):]], a.defaults))
  out += [(p.arg, d) for p, d in zip(a.kwonlyargs, a.kw_defaults) if d is not None]
  return out


def _stored_names(fn):
  """Names bound inside fn (not entering nested defs) and names declared global."""
  stored, glob = set(), set()
  todo = list(fn.body)
  while todo:
    n = todo.pop()
    if isinstance(n, ast.Global):
      glob.update(n.names)
    if isinstance(n, ast.Name) and isinstance(n.ctx, (ast.Store, ast.Del)):
      stored.add(n.id)
    if isinstance(n, _DEFS + (ast.ClassDef, ast.Lambda)):
      continue
    todo.extend(ast.iter_child_nodes(n))
  return stored, glob


class _Module:
  """Per-module index used by the write search."""

  def __init__(self, mod):
    self.mod = mod
    self.parent = mod.parent
    self.funcs = _functions(mod)
    self.by_name = {}
    for q, fn, cls in self.funcs:
      if "." not in q:
        self.by_name[q] = fn
    self.methods = {}
    for q, fn, cls in self.funcs:
      if cls is not None and q.count(".") == 1:
        self.methods.setdefault(fn.name, []).append(fn)

  def callee(self, call):
    """Module-local def a call denotes (plain name, or self/cls.<method> when
    exactly one class of the module defines the method)."""
    f = call.func
    if isinstance(f, ast.Name):
      # a name re-bound at module level is not necessarily the def
      if f.id in self.by_name and f.id not in self.mod.assigns:
        return self.by_name[f.id], False
    if isinstance(f, ast.Attribute) and isinstance(f.value, ast.Name) and \
        f.value.id in ("self", "cls"):
      c = self.methods.get(f.attr, [])
      if len(c) == 1:
        return c[0], True
    return None, False


def _bind(fn, call, is_method):
  """parameter name -> argument expression (None when the call uses * / **)."""
  if any(isinstance(a, ast.Starred) for a in call.args) or \
      any(k.arg is None for k in call.keywords):
    return None
  a = fn.args
  pos = [p.arg for p in a.posonlyargs + a.args]
  if is_method:
    pos = pos[1:]
  out = {}
  for i, arg in enumerate(call.args):
    if i < len(pos):
      out[pos[i]] = arg
    elif a.vararg is None:
      return None
  for k in call.keywords:
    out[k.arg] = k.value
  return out


class _Writes:
  """Search for writes through a shared value that `name` denotes in `fn`."""

  def __init__(self, M):
    self.M = M
    self.found = []      # (line, description)
    self.escapes = []    # (line, description): value leaves what is followed
    self.attrs = set()   # instance/class attribute names the value is stored in
    self._seen = set()

  def scan(self, fn, name, depth=3, via=""):
    key = (fn, name)
    if key in self._seen:
      return
    self._seen.add(key)
    parent = self.M.parent
    # flow-insensitive alias closure: x = name, x = y = name, x = name or {..}
    names = {name}
    changed = True
    while changed:
      changed = False
      for n in ast.walk(fn):
        val = tgts = None
        if isinstance(n, ast.Assign):
          val, tgts = n.value, n.targets
        elif isinstance(n, ast.AnnAssign) and n.value is not None:
          val, tgts = n.value, [n.target]
        elif isinstance(n, ast.NamedExpr):
          val, tgts = n.value, [n.target]
        if val is None:
          continue
        srcs = [val]
        if isinstance(val, ast.IfExp):
          srcs = [val.body, val.orelse]
        elif isinstance(val, ast.BoolOp):
          srcs = list(val.values)
        if any(isinstance(s, ast.Name) and s.id in names for s in srcs):
          for t in tgts:
            if isinstance(t, ast.Name) and t.id not in names:
              names.add(t.id)
              changed = True
    where = f"{fn.name}{via}"
    for n in ast.walk(fn):
      if not (isinstance(n, ast.Name) and n.id in names):
        continue
      p = parent.get(n)
      if isinstance(n.ctx, ast.Store):
        # in-place operator on the shared object itself
        if isinstance(p, ast.AugAssign) and p.target is n:
          self.found.append((p.lineno, f"{where}: `{src(p)}` changes it in place"))
        continue
      if isinstance(n.ctx, ast.Del):
        continue
      if isinstance(p, ast.Attribute) and p.value is n:
        gp = parent.get(p)
        if isinstance(gp, ast.Call) and gp.func is p and p.attr in _MUTATORS:
          self.found.append((gp.lineno, f"{where}: `{src(gp)}`"))
        elif isinstance(p.ctx, (ast.Store, ast.Del)):
          self.found.append((p.lineno, f"{where}: attribute `{src(p)}` is assigned"))
        elif isinstance(gp, ast.AugAssign) and gp.target is p:
          self.found.append((p.lineno, f"{where}: `{src(gp)}`"))
        continue
      if isinstance(p, ast.Subscript) and p.value is n:
        gp = parent.get(p)
        if isinstance(p.ctx, (ast.Store, ast.Del)) or (
            isinstance(gp, ast.AugAssign) and gp.target is p):
          self.found.append((p.lineno, f"{where}: `{src(gp)[:80]}` stores into it"))
        continue
      if isinstance(p, ast.keyword):
        p_call = parent.get(p)
        self._argument(fn, n, p_call, p.arg, depth, where)
        continue
      if isinstance(p, ast.Call) and n in p.args:
        self._argument(fn, n, p, p.args.index(n), depth, where)
        continue
      if isinstance(p, (ast.Return, ast.Yield, ast.YieldFrom)):
        self.escapes.append((p.lineno, f"{where}: returned to the caller"))
        continue
      if isinstance(p, (ast.Assign, ast.AnnAssign)) and p.value is n:
        tgts = p.targets if isinstance(p, ast.Assign) else [p.target]
        for t in tgts:
          if isinstance(t, ast.Attribute):
            self.attrs.add(t.attr)
          elif isinstance(t, ast.Subscript):
            self.escapes.append((p.lineno, f"{where}: stored into `{src(t)}`"))
        continue
      if isinstance(p, (ast.Tuple, ast.List, ast.Set, ast.Dict, ast.Starred)):
        self.escapes.append((n.lineno, f"{where}: placed in `{src(p)[:60]}`"))
        continue
      # reads: comparisons, iteration, truth tests, alias assignments ...

  def _argument(self, fn, n, call, slot, depth, where):
    d = dotted(call.func)
    if isinstance(slot, int) and isinstance(call.func, ast.Name) and d in _READERS:
      return
    callee, is_method = self.M.callee(call)
    if callee is None:
      # a method of another container receiving it (`lst.append(shared)`), or
      # an unknown callee
      self.escapes.append((call.lineno, f"{where}: passed to `{src(call.func)}`"))
      return
    bound = _bind(callee, call, is_method)
    if bound is None:
      self.escapes.append((call.lineno, f"{where}: passed to `{src(call.func)}` with */**"))
      return
    params = [q for q, a in bound.items() if a is n]
    if depth <= 0:
      self.escapes.append((call.lineno, f"{where}: call chain too deep at `{src(call.func)}`"))
      return
    for q in params:
      self.scan(callee, q, depth - 1, via=f" -> {callee.name}({q})")


def _attr_writes(M, attr, class_only=None):
  """Writes through `<expr>.<attr>` anywhere in the module.  With `class_only`
  (a class whose __init__ gives every instance its own attribute of that
  name) only accesses through the class itself count: `cls.<attr>`,
  `<Class>.<attr>`, `type(x).<attr>`."""
  out = []

  def through_class(e):
    if isinstance(e, ast.Name):
      return e.id in ("cls", class_only)
    return isinstance(e, ast.Call) and dotted(e.func) == "type"
  parent = M.parent
  for n in ast.walk(M.mod.tree):
    if not (isinstance(n, ast.Attribute) and n.attr == attr and isinstance(n.ctx, ast.Load)):
      continue
    p = parent.get(n)
    fn = M.mod.enclosing_function(n)
    where = fn.name if fn is not None else "<module>"
    if fn is None:
      continue  # import-time initialisation of a table
    if class_only is not None and not through_class(n.value):
      continue
    if isinstance(p, ast.Attribute) and p.value is n:
      gp = parent.get(p)
      if isinstance(gp, ast.Call) and gp.func is p and p.attr in _MUTATORS:
        out.append((gp.lineno, f"{where}: `{src(gp)[:80]}`"))
    elif isinstance(p, ast.Subscript) and p.value is n:
      gp = parent.get(p)
      if isinstance(p.ctx, (ast.Store, ast.Del)) or (
          isinstance(gp, ast.AugAssign) and gp.target is p):
        out.append((p.lineno, f"{where}: `{src(gp)[:80]}` stores into it"))
    elif isinstance(p, ast.AugAssign) and p.target is n:
      pass  # ctx would be Store
  for n in ast.walk(M.mod.tree):
    if isinstance(n, ast.AugAssign) and isinstance(n.target, ast.Attribute) \
        and n.target.attr == attr and M.mod.enclosing_function(n) is not None \
        and (class_only is None or through_class(n.target.value)):
      out.append((n.lineno, f"{M.mod.enclosing_function(n).name}: `{src(n)[:80]}` changes it in place"))
  return out


def _verdict(ctx, construct, rel, line, what, kind, w, M, value):
  """Reports one shared binding from the result of the write search."""
  found = list(w.found)
  for a in sorted(w.attrs):
    found += [(ln, f"(kept as .{a}) {d}") for ln, d in _attr_writes(M, a)]
  facts = {"value": src(value)[:80], "kind": kind}
  if found:
    found.sort()
    ctx.bad(construct, rel, line,
            f"{what} `{src(value)[:60]}` is created once and outlives the call, "
            f"yet it is written while a code object is processed ({found[0][1]}"
            f"{' and %d more' % (len(found) - 1) if len(found) > 1 else ''}): what "
            "an earlier code object (or an earlier run in the same process) left "
            "in it changes the instruction stream / block graph built for the "
            "next one; working state of a pass must be created per call",
            dict(facts, writes=[f"{ln}: {d}" for ln, d in found[:6]]))
    return
  if w.escapes and kind == "mutable":
    raise AnalysisError(
        f"{rel}: {what} at line {line} is a mutable container that leaves the "
        f"functions that can be followed ({w.escapes[0][1]}); whether it is "
        "written afterwards is not decided")
  ctx.ok(construct, rel, line, dict(facts, written=False))


@rule("R16.9", "C16", floor=15)
def r16_9(ctx):
  """No state of the block-graph passes is shared between calls."""
  for rel in FILES:
    mod = get_module(ctx, rel)
    M = _Module(mod)
    stem = rel.rsplit("/", 1)[1][:-3]
    # (a) parameter defaults: evaluated once, shared by every call
    for q, fn, cls in M.funcs:
      for pname, dflt in _defaults(fn):
        kind = value_kind(mod, dflt)
        construct = f"default:{stem}.{q}({pname})"
        if kind == "immutable":
          ctx.ok(construct, rel, fn.lineno, {"value": src(dflt)[:80], "kind": kind})
          continue
        w = _Writes(M)
        w.scan(fn, pname)
        _verdict(ctx, construct, rel, fn.lineno, f"the default of parameter `{pname}` of {q},",
                 kind, w, M, dflt)
    # (b) module-level bindings
    glob_writes = {}
    for q, fn, cls in M.funcs:
      stored, glob = _stored_names(fn)
      for g in glob & stored:
        glob_writes.setdefault(g, []).append((fn.lineno, q))
    top = []
    for st in mod.tree.body:
      if isinstance(st, ast.Assign):
        for t in st.targets:
          if isinstance(t, ast.Name):
            top.append((t.id, st.value, st.lineno))
          elif isinstance(t, (ast.Tuple, ast.List)):
            top.extend((e.id, st.value, st.lineno) for e in t.elts if isinstance(e, ast.Name))
      elif isinstance(st, ast.AnnAssign) and st.value is not None and isinstance(st.target, ast.Name):
        top.append((st.target.id, st.value, st.lineno))
    for name, value, line in top:
      construct = f"module:{stem}.{name}"
      if name in glob_writes:
        ln, q = glob_writes[name][0]
        ctx.bad(construct, rel, line,
                f"module-level `{name}` is re-bound by {q} (`global {name}`): a "
                "value computed while one code object is processed is seen by "
                "the next call", {"rebound_in": [x[1] for x in glob_writes[name]]})
        continue
      if isinstance(value, ast.Constant):
        continue
      kind = value_kind(mod, value)
      if kind == "immutable":
        ctx.ok(construct, rel, line, {"value": src(value)[:80], "kind": kind})
        continue
      w = _Writes(M)
      for q, fn, cls in M.funcs:
        stored, glob = _stored_names(fn)
        if name in _param_names(fn) or (name in stored and name not in glob):
          continue  # shadowed by a local
        outer = M.mod.enclosing_function(fn)
        if outer is not None:
          continue  # nested defs are walked with their outermost function
        w.scan(fn, name)
      _verdict(ctx, construct, rel, line, f"module-level `{name}` =", kind, w, M, value)
    # (c) class-level bindings
    n_cls = 0
    for cnode in [n for n in ast.walk(mod.tree) if isinstance(n, ast.ClassDef)]:
      own_init = [st for st in cnode.body if isinstance(st, _DEFS)]
      for st in cnode.body:
        pairs = []
        if isinstance(st, ast.Assign):
          pairs = [(t.id, st.value) for t in st.targets if isinstance(t, ast.Name)]
        elif isinstance(st, ast.AnnAssign) and st.value is not None and isinstance(st.target, ast.Name):
          pairs = [(st.target.id, st.value)]
        for name, value in pairs:
          n_cls += 1
          kind = value_kind(mod, value)
          if kind == "immutable" or name == "__slots__":
            continue
          # methods of the class that give the instance its own attribute of
          # that name: `self.<name>` then denotes the instance's value
          shadowing = [f for f in own_init if any(
              isinstance(a, ast.Attribute) and a.attr == name and isinstance(a.ctx, ast.Store)
              and isinstance(a.value, ast.Name) and a.value.id == "self"
              for a in ast.walk(f))]
          per_instance = any(f.name == "__init__" for f in shadowing)
          found = _attr_writes(M, name, class_only=cnode.name if per_instance else None)
          construct = f"class:{stem}.{cnode.name}.{name}"
          if found:
            ctx.bad(construct, rel, st.lineno,
                    f"class-level `{cnode.name}.{name} = {src(value)[:50]}` is one "
                    f"object shared by every instance and call, yet it is written "
                    f"({found[0][1]}): state left by an earlier code object "
                    "changes what is built for the next one",
                    {"kind": kind, "writes": [f"{ln}: {d}" for ln, d in found[:6]]})
          else:
            ctx.ok(construct, rel, st.lineno, {"value": src(value)[:80], "kind": kind,
                                               "written": False})
    ctx.ok(f"class-level:{stem}", rel, 0, {"bindings": n_cls})


OPC, BLOCKS = FILES[0], FILES[1]
_SETUP_SIG = ("def _add_setup_except(\n"
              "    offset_to_op: dict[float, Opcode], exc_table: pycnite.types.ExceptionTable\n"
              "):\n")
_SEEN_LOCAL = "  seen_lines = set()\n  exception_ranges = {}\n"
_BLOCK_INIT = "  def __init__(self, code: list[opcodes.Opcode]):\n    self.id = code[0].index\n"

VARIANTS = [
    {"name": "seeded-C16-r3m2", "rule": "R16.9", "patch": "seeded/C16-r3m2/patch.diff",
     "expect": "fire"},
    # other containers that outlive a call and are written by a pass
    {"name": "seen-lines-kept-in-module-level-set", "rule": "R16.9", "expect": "fire",
     "edits": [(OPC, _SETUP_SIG, "_SEEN_LINES = set()\n\n\n" + _SETUP_SIG),
               (OPC, _SEEN_LOCAL, "  seen_lines = _SEEN_LINES\n  exception_ranges = {}\n")]},
    {"name": "processed-blocks-as-default-argument", "rule": "R16.9", "expect": "fire",
     "edits": [(BLOCKS, "    bytecode: list[opcodes.Opcode], python_version\n) -> list[Block]:\n",
                "    bytecode: list[opcodes.Opcode], python_version, processed_blocks=set()\n"
                ") -> list[Block]:\n"),
               (BLOCKS, "  processed_blocks = set()\n", "")]},
    {"name": "offset-map-as-default-dict", "rule": "R16.9", "expect": "fire",
     "edits": [(OPC, "def _make_opcode_list(offset_to_op, python_version: tuple[int, int]):\n",
                "def _make_opcode_list(offset_to_op, python_version: tuple[int, int],\n"
                "                      offset_to_index={}):\n"),
               (OPC, "  ops = []\n  offset_to_index = {}\n", "  ops = []\n")]},
    {"name": "incoming-edges-as-class-level-set", "rule": "R16.9", "expect": "fire",
     "edits": [(BLOCKS, _BLOCK_INIT, "  incoming: set = set()\n\n" + _BLOCK_INIT),
               (BLOCKS, "    self.incoming: set[Self] = set()\n", "")]},
    {"name": "visited-set-rebound-through-global", "rule": "R16.9", "expect": "fire",
     "edits": [(BLOCKS, "def add_pop_block_targets(bytecode: list[opcodes.Opcode]) -> None:\n",
                "_SEEN = None\n\n\n"
                "def add_pop_block_targets(bytecode: list[opcodes.Opcode]) -> None:\n"),
               (BLOCKS, "  seen = set()\n  while todo:\n",
                "  global _SEEN\n  if _SEEN is None:\n    _SEEN = set()\n"
                "  seen = _SEEN\n  while todo:\n")]},
    # per-call state spelled differently; shared tables that are only read
    {"name": "twin-seen-lines-none-default-created-per-call", "rule": "R16.9", "expect": "silent",
     "edits": [(OPC, _SETUP_SIG,
                "def _add_setup_except(\n"
                "    offset_to_op: dict[float, Opcode], exc_table: pycnite.types.ExceptionTable,\n"
                "    seen_lines=None,\n):\n"),
               (OPC, _SEEN_LOCAL, "  if seen_lines is None:\n    seen_lines = set()\n"
                "  exception_ranges = {}\n")]},
    {"name": "twin-frozenset-default-read-only", "rule": "R16.9", "expect": "silent",
     "edits": [(OPC, _SETUP_SIG,
                "def _add_setup_except(\n"
                "    offset_to_op: dict[float, Opcode], exc_table: pycnite.types.ExceptionTable,\n"
                "    skip_lines=frozenset(),\n):\n"),
               (OPC, "    if not e.lasti and line not in seen_lines:\n",
                "    if not e.lasti and line not in seen_lines and line not in skip_lines:\n")]},
    {"name": "twin-mutable-default-only-read", "rule": "R16.9", "expect": "silent",
     "edits": [(OPC, "def _get_exception_bitmask(offset_to_op, exception_ranges):\n",
                "def _get_exception_bitmask(offset_to_op, exception_ranges, extra_ranges={}):\n"),
               (OPC, "    if i in exception_ranges:\n      in_exception += pos\n",
                "    if i in exception_ranges or i in extra_ranges:\n      in_exception += pos\n")]},
    {"name": "twin-class-level-default-shadowed-per-instance", "rule": "R16.9", "expect": "silent",
     "edits": [(BLOCKS, _BLOCK_INIT, "  incoming: set = set()\n\n" + _BLOCK_INIT)]},
    {"name": "twin-module-level-table-as-list-only-read", "rule": "R16.9", "expect": "silent",
     "edits": [(BLOCKS, "_NOOP_OPCODES = (opcodes.NOP, opcodes.PRECALL, opcodes.RESUME)\n",
                "_NOOP_OPCODE_LIST = [opcodes.NOP, opcodes.PRECALL, opcodes.RESUME]\n"
                "_NOOP_OPCODES = tuple(_NOOP_OPCODE_LIST)\n")]},
    # a shared container handed to code that is not followed: not decided
    {"name": "shared-list-handed-to-foreign-constructor", "rule": "R16.9", "expect": "error",
     "edits": [(BLOCKS, "def _order_code(dis_code: pycnite.types.DisassembledCode) -> OrderedCode:\n",
                "def _order_code(dis_code: pycnite.types.DisassembledCode, extra_blocks=[]) -> OrderedCode:\n"),
               (BLOCKS, "  return OrderedCode(dis_code.code, ops, blocks)\n",
                "  return pyc_bytecode.Ordered(dis_code.code, ops, blocks, extra_blocks)\n")]},
    # the refactoring of the seeded change without its defect
    {"name": "twin-exception-blocks-helper-with-local-set", "rule": "R16.9", "expect": "silent",
     "edits": [(OPC, _SETUP_SIG,
                "def _add_exception_blocks(offset_to_op, entries):\n"
                "  seen_lines = set()\n  exception_ranges = {}\n"
                "  for e in entries:\n"
                "    if isinstance(offset_to_op[e.target], _IGNORED_EXCEPTION_TARGETS):\n"
                "      continue\n"
                "    line = offset_to_op[e.start].line\n"
                "    if not e.lasti and line not in seen_lines:\n"
                "      seen_lines.add(line)\n"
                "      _add_exception_block(offset_to_op, e)\n"
                "      exception_ranges[e.start] = e.end\n"
                "  return exception_ranges\n\n\n" + _SETUP_SIG),
               (OPC, _SEEN_LOCAL + "  for e in exc_table.entries:\n"
                "    if isinstance(offset_to_op[e.target], _IGNORED_EXCEPTION_TARGETS):\n"
                "      # This entry corresponds to an `async for` block.\n"
                "      continue\n"
                "    line = offset_to_op[e.start].line\n"
                "    if not e.lasti and line not in seen_lines:\n"
                "      seen_lines.add(line)\n"
                "      # Entries corresponding to a `with` block have `lasti` set, while the\n"
                "      # first entry for an exception block does not. So this is an exception.\n"
                "      _add_exception_block(offset_to_op, e)\n"
                "      exception_ranges[e.start] = e.end\n",
                "  exception_ranges = _add_exception_blocks(offset_to_op, exc_table.entries)\n")]},
]
