"""C05 extension R5.23 (and the evaluation shared with R6.25 in rules/c06_order_guard.py):
the guard that decides "the order of this class's fields is semantic" recognises the NamedTuple marker base.

The canonical-ordering visitor (the visitor in pytd/pytd_visitors.py whose VisitClass sorts a class's
constants) runs on the inferred AST before it is printed and pickled (io, serialize_ast) and again on the
AST the stub reader builds (parser.canonical_pyi).  For a namedtuple class the order of the constants IS
the tuple layout, so the visitor must leave it alone - on both sides.  The two sides see different node
classes for the same base: the inferred AST has `ClassType(typing.NamedTuple)` (after LookupClasses), the
reader builds `NamedType(typing.NamedTuple)` (and canonical_pyi runs ClassTypeToNamedType), and the marker
is one of several bases for a generic NamedTuple (`class P(NamedTuple, Generic[T])`).

The rule takes the visitor's VisitClass (and whatever it calls: _PreserveConstantsOrdering, IsNamedTuple,
...) from /repo as an AST and evaluates it (rules/_minieval.py; nothing is imported or run) on classes whose
constants are NOT in sorted order, for every marker the producers of namedtuple classes write
(pytd.NamedType("typing.NamedTuple") in output.py / codegen/namedtuple.py), in both node classes a named
class reference has (NamedType, ClassType: read from the pytd schema), at every position of base lists of
length 1-3 whose other bases are drawn from the other node classes a base can have (a resolved class, an
unresolved name, Generic[T] in both forms).  The result's constants must be the input's, in order.
"""
import ast
import itertools

from sa.core import rule, AnalysisError
from sa.pyindex import get_module, dotted, calls_in
from rules import _minieval as me
from rules._pytd_schema import get_schema
from rules.c05 import class_methods
from rules.c05_smallscope import _Interp, _module_globals, _run, _second

VISITORS = "pytype/pytd/pytd_visitors.py"
PRODUCERS = ("pytype/output.py", "pytype/pytd/codegen/namedtuple.py")
REF_CLASSES = ("NamedType", "ClassType")   # a named class reference before / after LookupClasses


def _markers(ctx):
  """The marker bases the producers of namedtuple classes write: {name: [(file, line, node class)]}."""
  out = {}
  for rel in PRODUCERS:
    mod = get_module(ctx, rel)
    for c in calls_in(mod.tree):
      d = dotted(c.func) or ""
      if d.rsplit(".", 1)[-1] in REF_CLASSES and c.args and isinstance(c.args[0], ast.Constant) and \
          isinstance(c.args[0].value, str) and c.args[0].value.rsplit(".", 1)[-1].lower() == "namedtuple":
        out.setdefault(c.args[0].value, []).append((rel, c.lineno, d.rsplit(".", 1)[-1]))
  if not out:
    raise AnalysisError("no producer of a namedtuple marker base (pytd.NamedType('typing.NamedTuple')) found in "
                        + ", ".join(PRODUCERS))
  return out


def _plain_class(bases, fields):
  return me.replaceable(("pytd.Class",), name="P", keywords=(), bases=tuple(bases), methods=(),
                        constants=fields, classes=(), decorators=(), slots=None, template=())


def _ordering_visitor(mod, g):
  """(class name, VisitClass) of the visitor whose VisitClass sorts the constants of a plain class.

  Found by what VisitClass does (evaluated on a class with no decorators and an ordinary base), not by how
  the sort is spelt; a VisitClass outside the evaluated fragment is not a candidate.
  """
  fields = ("zeta", "alpha", "mid")
  found, tried = [], []
  for cname in mod.classes:
    ms = {k: v for k, v in class_methods(mod, cname).items() if not v.decorator_list}
    vc = ms.get("VisitClass")
    if vc is None or len(vc.args.posonlyargs + vc.args.args) != 2:
      continue
    tried.append(cname)
    this = me.Obj((cname,), {}, cls_methods=ms)
    node = _plain_class([_ref("ClassType", "builtins.object")], fields)
    try:
      r = _Interp(vc, g).call({"self": this, _second(vc): node})
    except (me.Outside, me.Raised, me.Diverged, RecursionError):
      continue
    got = r.attrs.get("constants") if isinstance(r, me.Obj) else None
    if isinstance(got, (tuple, list)) and list(got) == sorted(fields):
      found.append((cname, vc))
  if len(found) != 1:
    raise AnalysisError(f"{VISITORS}: expected exactly one visitor whose VisitClass hands back a plain class with "
                        f"its constants sorted, found {[c for c, _ in found]} among {tried}")
  return found[0]


def _ref(kind, name):
  return me.Obj((f"pytd.{kind}", "pytd.Type"), {"name": name}, structural=True)


def _generic(kind, name, param):
  return me.Obj(("pytd.GenericType", "pytd.Type"),
                {"name": name, "base_type": _ref(kind, name), "parameters": (param,)}, structural=True)


def _fillers():
  """Other bases a class can have, one per node class / shape (label, record)."""
  t = me.Obj(("pytd.TypeParameter", "pytd.Type"), {"name": "T", "scope": "P"}, structural=True)
  return [
      ("ClassType(builtins.object)", _ref("ClassType", "builtins.object")),
      ("NamedType(foo.Mixin)", _ref("NamedType", "foo.Mixin")),
      ("GenericType(ClassType(typing.Generic))[T]", _generic("ClassType", "typing.Generic", t)),
      ("GenericType(NamedType(typing.Generic))[T]", _generic("NamedType", "typing.Generic", t)),
  ]


def _check_schema(ctx):
  sch = get_schema(ctx)
  if "Class" not in sch.classes or "bases" not in sch.fields("Class"):
    raise AnalysisError("pytd.Class.bases not found in the schema")
  admitted, _ = sch.expand(sch.fields("Class")["bases"][0])
  for k in REF_CLASSES + ("GenericType",):
    if k not in admitted:
      raise AnalysisError(f"pytd.Class.bases no longer admits {k}")
  for k in REF_CLASSES:
    if "name" not in sch.fields(k):
      raise AnalysisError(f"pytd.{k} no longer has a `name` field")
  bt = sch.fields("GenericType").get("base_type")
  if bt is None or not set(REF_CLASSES) <= sch.expand(bt[0])[0]:
    raise AnalysisError("pytd.GenericType.base_type no longer admits NamedType and ClassType")
  return sorted(admitted)


def order_guard_matrix(ctx):
  """Evaluates the ordering visitor's VisitClass over the scope; memoised.

  Returns (visitor name, VisitClass def, markers, cases); a case is a dict with marker, form, n, position, bases
  (labels), kept (bool) and got.
  """
  def compute():
    admitted = _check_schema(ctx)
    mod = get_module(ctx, VISITORS)
    g = _module_globals(mod)
    cname, vc = _ordering_visitor(mod, g)
    markers = _markers(ctx)
    ms = {k: v for k, v in class_methods(mod, cname).items() if not v.decorator_list}
    this = me.Obj((cname,), {}, cls_methods=ms)
    fillers = _fillers()
    fields = ("zeta", "alpha", "mid")
    cases = []

    def visit(bases):
      node = _plain_class(bases, fields)
      try:
        r = _run(f"{cname}.VisitClass", lambda: _Interp(vc, g).call({"self": this, _second(vc): node}))
      except me.Raised as e:
        return None, f"raises {e.name}"
      if not isinstance(r, me.Obj) or "constants" not in r.attrs:
        raise AnalysisError(f"{cname}.VisitClass: the result is not a class record with a `constants` field "
                            f"(got {r!r})")
      got = r.attrs["constants"]
      if not isinstance(got, (tuple, list)) or sorted(got) != sorted(fields):
        raise AnalysisError(f"{cname}.VisitClass: the constants of the result are not a permutation of the input's")
      return tuple(got) == fields, list(got)
    # model sanity: the visitor does sort when nothing asks for the order to be kept
    kept, got = visit([fillers[0][1]])
    if kept is not False:
      raise AnalysisError(f"{cname}.VisitClass keeps the constants of a plain class in declaration order "
                          f"({got}): the evaluation cannot tell a working guard from a missing sort")
    for marker in sorted(markers):
      for form in REF_CLASSES:
        mb = (f"{form}({marker})", _ref(form, marker))
        for n in (1, 2, 3):
          for pos in range(n):
            for others in itertools.product(fillers, repeat=n - 1):
              bases = list(others[:pos]) + [mb] + list(others[pos:])
              kept, got = visit([b for _, b in bases])
              cases.append({"marker": marker, "form": form, "n": n, "position": pos,
                            "bases": [lbl for lbl, _ in bases], "kept": bool(kept), "got": got})
    return cname, vc, markers, cases, admitted
  return ctx.memo(("c05-order-guard",), compute)


@rule("R5.23", "C05", floor=2)
def r5_23(ctx):
  """Field order of a namedtuple class survives canonical ordering for both node classes of the marker base."""
  cname, vc, markers, cases, admitted = order_guard_matrix(ctx)
  for marker in sorted(markers):
    for form in REF_CLASSES:
      mine = [c for c in cases if c["marker"] == marker and c["form"] == form]
      bad = [c for c in mine if not c["kept"]]
      facts = {"cases": len(mine), "marker_written_at": [f"{f}:{ln} ({k})" for f, ln, k in markers[marker]],
               "Class.bases admits": admitted}
      side = "the AST the stub reader builds (and canonical_pyi after ClassTypeToNamedType)" if form == "NamedType" \
          else "the inferred AST after LookupClasses"
      name = f"{cname}.VisitClass:field-order-kept[{marker} as {form}]"
      if bad:
        ex = bad[0]
        ctx.bad(name, VISITORS, vc.lineno,
                f"a class with bases [{', '.join(ex['bases'])}] and constants declared as zeta, alpha, mid comes out "
                f"of {cname}.VisitClass as {ex['got']}: {form}({marker}) is how {side} spells the namedtuple marker, "
                "so the tuple layout printed for the inferred class and the one re-read from the stub differ and "
                f"print(parse(stub)) != stub ({len(bad)} of {len(mine)} base lists)",
                dict(facts, counterexample={k: ex[k] for k in ("bases", "got")}, failing=len(bad)))
      else:
        ctx.ok(name, VISITORS, vc.lineno, facts)


_ISNT = ("  return any(\n      base.name in (\"collections.namedtuple\", \"typing.NamedTuple\")\n"
         "      for base in node.bases\n  )\n")
VARIANTS = [
    {"name": "seeded-C05-r4m2", "rule": "R5.23", "patch": "seeded/C05-r4m2/patch.diff", "expect": "fire"},
    {"name": "seeded-C06-r4m1-seen-from-C05", "rule": "R5.23", "patch": "seeded/C06-r4m1/patch.diff",
     "expect": "fire"},
    {"name": "marker-recognised-as-NamedType-only", "rule": "R5.23", "file": VISITORS, "old": _ISNT,
     "new": "  return any(\n      isinstance(base, pytd.NamedType) and base.name == \"typing.NamedTuple\"\n"
            "      for base in node.bases\n  )\n", "expect": "fire"},
    {"name": "marker-looked-for-in-the-first-base-only", "rule": "R5.23", "file": VISITORS, "old": _ISNT,
     "new": "  return bool(node.bases) and node.bases[0].name in (\n"
            "      \"collections.namedtuple\", \"typing.NamedTuple\")\n", "expect": "fire"},
    {"name": "only-the-functional-form-marker", "rule": "R5.23", "file": VISITORS, "old": _ISNT,
     "new": "  return any(base.name == \"collections.namedtuple\" for base in node.bases)\n", "expect": "fire"},
    {"name": "generic-bases-end-the-search", "rule": "R5.23", "file": VISITORS, "old": _ISNT,
     "new": "  for base in node.bases:\n    if isinstance(base, pytd.GenericType):\n      return False\n"
            "    if base.name in (\"collections.namedtuple\", \"typing.NamedTuple\"):\n      return True\n"
            "  return False\n", "expect": "fire"},
    {"name": "guard-result-dropped", "rule": "R5.23", "file": VISITORS,
     "old": "    return IsNamedTuple(node)\n", "new": "    IsNamedTuple(node)\n    return False\n", "expect": "fire"},
    {"name": "twin-marker-search-as-a-loop", "rule": "R5.23", "file": VISITORS, "old": _ISNT,
     "new": "  for base in node.bases:\n    if base.name in (\"collections.namedtuple\", \"typing.NamedTuple\"):\n"
            "      return True\n  return False\n", "expect": "silent"},
    {"name": "twin-both-reference-classes-named", "rule": "R5.23", "file": VISITORS, "old": _ISNT,
     "new": "  return any(\n      isinstance(base, (pytd.ClassType, pytd.NamedType))\n"
            "      and base.name in (\"collections.namedtuple\", \"typing.NamedTuple\")\n"
            "      for base in node.bases\n  )\n", "expect": "silent"},
    {"name": "twin-marker-names-in-a-module-constant", "rule": "R5.23", "file": VISITORS, "old": _ISNT,
     "new": "  names = {b.name for b in node.bases}\n"
            "  return bool(names & {\"collections.namedtuple\", \"typing.NamedTuple\"})\n", "expect": "silent"},
    {"name": "twin-guard-inlined-into-VisitClass", "rule": "R5.23", "file": VISITORS,
     "old": "    if self._PreserveConstantsOrdering(node):\n      constants = node.constants\n"
            "    else:\n      constants = sorted(node.constants)\n",
     "new": "    keep = self._PreserveConstantsOrdering(node)\n"
            "    constants = node.constants if keep else sorted(node.constants)\n", "expect": "silent"},
    {"name": "twin-benign-C04-r2", "rule": "R5.23", "patch": "benign/C04-r2/patch.diff", "expect": "silent"},
]
